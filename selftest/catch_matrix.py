#!/usr/bin/env python3
"""Runs every registered check against every seeded change (and self-test patch) and records which properties fire.
usage: catch_matrix.py <dir-or-patch>... -> selftest/catch_matrix.json (merged)"""
import json, os, shutil, subprocess, sys, tempfile
from concurrent.futures import ThreadPoolExecutor
HERE = os.path.dirname(os.path.abspath(__file__)); VERIF = os.path.dirname(HERE)
PROPS = os.environ['MATRIX_PROPS'].split(',') if os.environ.get('MATRIX_PROPS') else [f'C{i:02d}' for i in range(1, 21)]      # MATRIX_PROPS=C06,C07 restricts the checks run

import queue
TARGETS = queue.Queue()


def run(patch):
    d = tempfile.mkdtemp(prefix='vcm.', dir='/tmp')
    tgt = TARGETS.get()
    try:
        subprocess.run(['rsync', '-a', '--exclude', 'target', '--exclude', '.git', '/repo/', d + '/repo/'], check=True)
        subprocess.run(['git', 'init', '-q', '.'], cwd=d + '/repo', stdout=subprocess.DEVNULL, stderr=subprocess.DEVNULL)
        p = subprocess.run(['git', 'apply', patch], cwd=d + '/repo', capture_output=True, text=True)
        if p.returncode:
            return patch, {'error': p.stderr[-200:]}
        out = {}
        for c in PROPS:
            env = dict(os.environ, VERIF_REPO=d + '/repo', VERIF_EVIDENCE_DIR=d + '/evidence', VERIF_FAST='1', VERIF_TARGET_DIR=tgt)
            r = subprocess.run([os.path.join(VERIF, 'check'), c], cwd=VERIF, env=env, capture_output=True, text=True)
            v = [l.strip() for l in r.stdout.splitlines() if l.startswith('  [')]
            if r.returncode == 1 and v:
                out[c] = [x[:300] for x in v[:3]]
        return patch, out
    finally:
        TARGETS.put(tgt)
        shutil.rmtree(d, ignore_errors=True)

def main():
    args = [a for a in sys.argv[1:] if a != '--resume']
    out_name = 'catch_matrix.json'
    if '--out' in args:
        i = args.index('--out')
        out_name = args[i + 1]
        del args[i:i + 2]
    patches = []
    for a in [os.path.abspath(x) for x in args]:
        if os.path.isdir(a):
            for root, _, files in os.walk(a):
                if 'patch.diff' in files:
                    patches.append(os.path.join(root, 'patch.diff'))
        else:
            patches.append(a)
    patches.sort()
    res_file = os.path.join(HERE, out_name)
    res = json.load(open(res_file)) if os.path.exists(res_file) else {}
    if '--resume' in sys.argv:
        done = set(res)
        patches = [p for p in patches if (os.path.relpath(p, VERIF) if p.startswith(VERIF) else p) not in done]
    nw = int(os.environ.get('MATRIX_WORKERS', '4'))
    shared = os.path.join(VERIF, '.cache', 'target-shared')
    for i in range(nw):
        # one build directory per worker (a copy of the shared one with the dependencies already built): the fact builds of different trees run side by side
        t = f'/tmp/vtgt.{os.getpid()}.{i}'
        if os.path.isdir(shared):
            subprocess.run(['cp', '-a', shared, t], check=False)
        else:
            os.makedirs(t, exist_ok=True)
        TARGETS.put(t)
    import atexit
    atexit.register(lambda: [shutil.rmtree(f'/tmp/vtgt.{os.getpid()}.{i}', ignore_errors=True) for i in range(nw)])
    with ThreadPoolExecutor(max_workers=nw) as ex:
        for patch, out in ex.map(run, patches):
            key = os.path.relpath(patch, VERIF) if patch.startswith(VERIF) else patch
            res[key] = out
            print(key, sorted(out))
            json.dump(res, open(res_file, 'w'), indent=1, sort_keys=True)

if __name__ == '__main__':
    main()
