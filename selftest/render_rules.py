#!/usr/bin/env python3
"""Writes the rule inventory (rule id, instances on the current tree, floor, rule text) between the RULES-TABLE markers of DESIGN.md,
from the evidence files of the last quick run of every check."""
import json, os, re
HERE = os.path.dirname(os.path.abspath(__file__)); VERIF = os.path.dirname(HERE)
rows = []
for i in range(1, 21):
    pid = f'C{i:02d}'
    p = os.path.join(VERIF, 'evidence', pid + '.json')
    if not os.path.exists(p):
        continue
    d = json.load(open(p))
    for r in d['coverage'].get('rules', []):
        text = re.sub(r'\s+', ' ', r.get('text', '')).replace('|', '\\|')
        rows.append(f"| {r['rule']} | {r.get('instances', 0)} | {r.get('floor') if r.get('floor') is not None else '–'} | {text} |")
table = '| rule | instances today | floor | what it decides |\n|---|---|---|---|\n' + '\n'.join(rows) + '\n'
dp = os.path.join(VERIF, 'DESIGN.md')
s = open(dp).read()
B, E = '<!-- RULES-TABLE-BEGIN -->', '<!-- RULES-TABLE-END -->'
if B in s:
    s = s[:s.index(B) + len(B)] + '\n' + table + s[s.index(E):]
    open(dp, 'w').write(s)
print(len(rows), 'rules')
