#!/usr/bin/env python3
"""Self-test of the checker (not a registered check).

For every case in selftest/cases.json: copy /repo (without build output) to a scratch directory outside /repo and
/verif, apply one patch, run the listed checks against the copy (VERIF_REPO; evidence goes to the scratch
directory), and compare with the expectation:
  kind = "breaking": at least one VIOLATION from every property in `expect`;
  kind = "benign"  : no VIOLATION from any property in `silent`.
Usage: selftest.py [--only substring] [--jobs N]   -> writes selftest/last_result.json"""
import json
import os
import shutil
import subprocess
import sys
import tempfile
import time
from concurrent.futures import ThreadPoolExecutor

HERE = os.path.dirname(os.path.abspath(__file__))
VERIF = os.path.dirname(HERE)


def run_case(case):
    d = tempfile.mkdtemp(prefix='vst.', dir='/tmp')
    try:
        subprocess.run(['rsync', '-a', '--exclude', 'target', '--exclude', '.git', '/repo/', d + '/repo/'], check=True)
        patch = os.path.join(VERIF, case['patch'])
        args = ['git', 'apply'] + (['-R'] if case.get('reverse') else []) + [patch]
        subprocess.run(['git', 'init', '-q', '.'], cwd=d + '/repo', stdout=subprocess.DEVNULL, stderr=subprocess.DEVNULL)
        p = subprocess.run(args, cwd=d + '/repo', capture_output=True, text=True)
        if p.returncode != 0:
            return dict(case, status='patch-failed', detail=p.stderr[-300:])
        props = case.get('expect') or case.get('silent')
        fired = {}
        for c in props:
            env = dict(os.environ, VERIF_REPO=d + '/repo', VERIF_EVIDENCE_DIR=d + '/evidence', VERIF_SELFTEST='1')
            r = subprocess.run([os.path.join(VERIF, 'check'), c, '--tier', 'quick'], cwd=VERIF, env=env, capture_output=True, text=True)
            lines = [l for l in r.stdout.splitlines() if l.startswith('  [')]
            fired[c] = {'exit': r.returncode, 'violations': [l.strip()[:400] for l in lines][:6]}
        if case['kind'] == 'breaking':
            ok = all(fired[c]['exit'] == 1 and fired[c]['violations'] for c in case['expect'])
        else:
            ok = all(fired[c]['exit'] == 0 for c in case['silent'])
        return dict(case, status='ok' if ok else 'FAILED', fired=fired)
    finally:
        shutil.rmtree(d, ignore_errors=True)


def main():
    cases = json.load(open(os.path.join(HERE, 'cases.json')))['cases']
    only = sys.argv[sys.argv.index('--only') + 1] if '--only' in sys.argv else None
    jobs = int(sys.argv[sys.argv.index('--jobs') + 1]) if '--jobs' in sys.argv else 4
    if only:
        cases = [c for c in cases if only in c['name']]
    t0 = time.time()
    # warm the fact cache of the unchanged tree first so that parallel cases do not race on the shared target dir
    with ThreadPoolExecutor(max_workers=jobs) as ex:
        results = list(ex.map(run_case, cases))
    bad = [r for r in results if r['status'] != 'ok']
    for r in results:
        print(f"{r['status']:13} {r['kind']:8} {r['name']}  " + ('' if r['status'] == 'ok' else json.dumps(r.get('fired') or r.get('detail'))[:300]))
    summary = {'cases': len(results), 'ok': len(results) - len(bad), 'failed': [r['name'] for r in bad], 'wall_s': round(time.time() - t0, 1), 'results': results}
    if not only:
        json.dump(summary, open(os.path.join(HERE, 'last_result.json'), 'w'), indent=1)
    print(f"{summary['ok']}/{summary['cases']} cases as expected in {summary['wall_s']} s")
    return 1 if bad else 0


if __name__ == '__main__':
    sys.exit(main())
