#!/bin/bash
# Confirms one candidate seeded change independently of the agent that wrote it:
#   usage: verify_seeded.sh <dir with patch.diff demo.rs run.sh meta.json> <out.json>
# In a scratch worktree of /repo (outside /repo and /verif): the patch applies, the workspace builds, the full
# existing suite passes with it, the demonstration fails with it and passes without it.  The worktree and its
# build output are removed afterwards.
set -u
SRC=$1; OUT=$2
W=$(mktemp -d /tmp/sv.XXXXXX)
export CARGO_TARGET_DIR=/tmp/sv-target CARGO_NET_OFFLINE=true
git -C /repo worktree add -q --detach "$W/tree" HEAD || exit 3
cleanup() { git -C /repo worktree remove --force "$W/tree" >/dev/null 2>&1; rm -rf "$W"; }
trap cleanup EXIT
cd "$W/tree"
applies=false; suite=""; demo_patched=""; demo_clean=""
if git apply "$SRC/patch.diff" 2>"$W/apply.err"; then applies=true; fi
if $applies; then
  suite=$(cargo nextest run --workspace --no-fail-fast --offline 2>&1 | grep -E "tests run:" | tail -1)
  bash "$SRC/run.sh" "$W/tree" >"$W/demo_patched.log" 2>&1; demo_patched=$?
  git checkout -q -- . ; git clean -fdq -e target
  bash "$SRC/run.sh" "$W/tree" >"$W/demo_clean.log" 2>&1; demo_clean=$?
fi
python3 - "$OUT" "$applies" "$suite" "$demo_patched" "$demo_clean" "$W" <<'PY'
import json, sys
out, applies, suite, dp, dc, w = sys.argv[1:7]
tail = lambda p: open(p, errors='replace').read()[-600:] if __import__('os').path.exists(p) else ''
json.dump({'applies': applies == 'true', 'suite': suite.strip(), 'suite_ok': '2144 passed' in suite and 'failed' not in suite,
           'demo_exit_with_patch': dp, 'demo_exit_clean': dc,
           'confirmed': applies == 'true' and '2144 passed' in suite and 'failed' not in suite and dp not in ('', '0') and dc == '0',
           'apply_err': tail(w + '/apply.err'), 'demo_patched_tail': tail(w + '/demo_patched.log'), 'demo_clean_tail': tail(w + '/demo_clean.log')}, open(out, 'w'), indent=1)
PY
