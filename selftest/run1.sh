#!/bin/bash
# usage: selftest/run1.sh <patch.diff> [-R] -- <Cxx>...
# Applies one patch to a scratch copy of /repo (outside /repo and /verif), runs the given checks
# against the copy (VERIF_REPO), prints their VIOLATION/KNOWN-FINDING lines and removes the copy.
set -u
PATCH=$1; shift
REV=""
if [ "${1:-}" = "-R" ]; then REV="-R"; shift; fi
[ "${1:-}" = "--" ] && shift
D=$(mktemp -d /tmp/vst.XXXXXX)
trap 'rm -rf "$D"' EXIT
rsync -a --exclude target --exclude .git /repo/ "$D/repo/"
( cd "$D/repo" && git init -q . >/dev/null 2>&1; git apply $REV "$PATCH" ) || { echo "PATCH-FAILED $PATCH"; exit 3; }
rc=0
for c in "$@"; do
  out=$(cd /verif && VERIF_REPO="$D/repo" VERIF_EVIDENCE_DIR="$D/evidence" VERIF_SELFTEST=1 ./check "$c" --tier "${TIER:-quick}" 2>&1)
  r=$?
  echo "== $c exit=$r"
  echo "$out" | grep -E "^(VIOLATION|KNOWN-FINDING|  \[)" | head -${MAXL:-12}
  [ $r -ne 0 ] && rc=1
done
exit $rc
