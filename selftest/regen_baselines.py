#!/usr/bin/env python3
"""Regenerate allow/anchors.json and allow/locals.json from the default-configuration facts of the current /repo.
Run by hand after a reviewed change of /repo (a fix: commit); never run by a check."""
import json, os, sys
sys.path.insert(0, os.path.join(os.path.dirname(os.path.abspath(__file__)), '..'))
from verif import core
from verif.core import walk

core._ANCHOR_BASE = None      # analyse the tree as it is
core._LOCALS_BASE = {}
f = core.Facts('default')
old = json.load(open(os.path.join(core.VERIF, 'allow', 'anchors.json')))
from verif.core import callee_all, last_seg


def fingerprint(d):
    """what the function calls (last path segments, method names): used only to recognise it again after a rename that also changed its signature"""
    b = f.bodies.get(d)
    if b is None:
        return []
    out = set()
    for n in walk(b['body']):
        if n.get('k') in ('call', 'mcall'):
            for c in callee_all(n)[:1]:
                out.add(last_seg(c.split('::<')[0]))
            if n.get('k') == 'mcall' and n.get('name'):
                out.add(n['name'])
    return sorted(out)


fns = {d: {'generics': v.get('generics') or [], 'inputs': v.get('inputs') or [], 'output': v.get('output'), 'vis': v.get('vis'), 'calls': fingerprint(d)}
       for d, v in sorted(f.fns.items())}
adts = {p: {'kind': a.get('kind'), 'members': [[v['name'], [x['name'] for x in v.get('fields', [])]] for v in a.get('variants', [])]}
        for p, a in sorted(f.adts.items())}
traits = {p: sorted(i['name'] for i in t.get('items', [])) for p, t in sorted(f.traits.items())}
consts = sorted(f.consts)
json.dump({'comment': old['comment'], 'fns': fns, 'adts': adts, 'traits': traits, 'consts': consts},
          open(os.path.join(core.VERIF, 'allow', 'anchors.json'), 'w'), indent=0, sort_keys=True)
oldl = json.load(open(os.path.join(core.VERIF, 'allow', 'locals.json')))
loc = {}
for d, b in sorted(f.bodies.items()):
    binds = []
    for root in list(b.get('params', [])) + [b['body']]:
        for n in walk(root):
            if n.get('k') == 'p_bind':
                binds.append([n['name'].split('#')[0], n.get('t') or ''])
    if binds:
        loc[d] = binds
json.dump({'comment': oldl['comment'], 'locals': loc}, open(os.path.join(core.VERIF, 'allow', 'locals.json'), 'w'), indent=0, sort_keys=True)
print(len(fns), 'fns', len(adts), 'adts', len(traits), 'traits', len(loc), 'bodies')
