#!/usr/bin/env python3
"""renders selftest/catch_matrix.json into the marked block of DESIGN.md"""
import json, os, re
V = os.path.dirname(os.path.dirname(os.path.abspath(__file__)))
m = json.load(open(os.path.join(V, 'selftest', 'catch_matrix.json')))
rows = ['| seeded change | breaks (one line) | caught by (quick tier) | first report |', '|---|---|---|---|']
missed = []
for k in sorted(m):
    name = k.split('/')[1] if k.startswith('seeded/') else os.path.basename(k)
    meta = {}
    mp = os.path.join(V, os.path.dirname(k), 'meta.json')
    if os.path.exists(mp):
        meta = json.load(open(mp))
    what = (meta.get('breaks') or '').replace('|', '/').replace('\n', ' ')[:110]
    fired = m[k]
    if 'error' in fired:
        rows.append(f'| {name} | {what} | (patch failed) | |'); continue
    own = name.split('-')[0]
    order = sorted(fired, key=lambda c: (c != own, c))
    first = ''
    if order:
        first = re.sub(r'^\[\w[\w-]*\] ', '', fired[order[0]][0]).replace('|', '/')[:150]
    else:
        missed.append(name)
    rows.append(f'| {name} | {what} | {", ".join(order) or "**none**"} | {first} |')
p = os.path.join(V, 'DESIGN.md')
s = open(p).read()
a, b = s.index('<!-- CATCH-TABLE-BEGIN -->'), s.index('<!-- CATCH-TABLE-END -->')
s = s[:a] + '<!-- CATCH-TABLE-BEGIN -->\n' + '\n'.join(rows) + '\n' + s[b:]
open(p, 'w').write(s)
print(len(rows) - 2, 'rows; missed:', missed)
