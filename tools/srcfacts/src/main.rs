//! srcfacts — pre-expansion source facts (syn used as a parser only).
//!
//! usage: srcfacts <out.json> <file.rs>...
//! Emits, per file: cfg / cfg_attr attributes and cfg!() invocations with the
//! syntactic kind of the node they are attached to and the enclosing item path;
//! every item with its name, kind and cfg attributes; macro_rules! definitions as
//! token trees; format-like macro invocations with their string literal.

use proc_macro2::{Delimiter, TokenStream, TokenTree};
use std::fmt::Write as _;
use syn::spanned::Spanned;
use syn::visit::{self, Visit};

fn esc(s: &str) -> String {
    let mut o = String::with_capacity(s.len() + 2);
    o.push('"');
    for c in s.chars() {
        match c {
            '"' => o.push_str("\\\""),
            '\\' => o.push_str("\\\\"),
            '\n' => o.push_str("\\n"),
            '\r' => o.push_str("\\r"),
            '\t' => o.push_str("\\t"),
            c if (c as u32) < 0x20 => {
                let _ = write!(o, "\\u{:04x}", c as u32);
            }
            c => o.push(c),
        }
    }
    o.push('"');
    o
}

fn tt_json(ts: TokenStream, out: &mut String) {
    out.push('[');
    let mut first = true;
    for tt in ts {
        if !first {
            out.push(',');
        }
        first = false;
        match tt {
            TokenTree::Group(g) => {
                let d = match g.delimiter() {
                    Delimiter::Parenthesis => "(",
                    Delimiter::Brace => "{",
                    Delimiter::Bracket => "[",
                    Delimiter::None => "",
                };
                let _ = write!(out, "{{\"g\":{},\"l\":{},\"ts\":", esc(d), g.span().start().line);
                tt_json(g.stream(), out);
                out.push('}');
            }
            TokenTree::Ident(i) => {
                let _ = write!(out, "{{\"i\":{}}}", esc(&i.to_string()));
            }
            TokenTree::Punct(p) => {
                let _ = write!(
                    out,
                    "{{\"p\":{},\"j\":{}}}",
                    esc(&p.as_char().to_string()),
                    matches!(p.spacing(), proc_macro2::Spacing::Joint)
                );
            }
            TokenTree::Literal(l) => {
                let _ = write!(out, "{{\"lit\":{}}}", esc(&l.to_string()));
            }
        }
    }
    out.push(']');
}

struct V<'a> {
    file: &'a str,
    stack: Vec<String>,
    cfgs: Vec<String>,
    items: Vec<String>,
    macros: Vec<String>,
    fmts: Vec<String>,
}

impl<'a> V<'a> {
    fn scope(&self) -> String {
        self.stack.join("::")
    }
    fn cfg_attrs(attrs: &[syn::Attribute]) -> Vec<(String, String, usize)> {
        let mut v = Vec::new();
        for a in attrs {
            let p = a.path();
            if p.is_ident("cfg") || p.is_ident("cfg_attr") {
                let name = p.get_ident().unwrap().to_string();
                let toks = match &a.meta {
                    syn::Meta::List(l) => l.tokens.to_string(),
                    _ => String::new(),
                };
                v.push((name, toks, a.span().start().line));
            }
        }
        v
    }
    fn note(&mut self, node: &str, name: &str, attrs: &[syn::Attribute]) {
        for (an, toks, line) in Self::cfg_attrs(attrs) {
            self.cfgs.push(format!(
                "{{\"file\":{},\"line\":{},\"attr\":{},\"pred\":{},\"node\":{},\"name\":{},\"scope\":{}}}",
                esc(self.file),
                line,
                esc(&an),
                esc(&toks),
                esc(node),
                esc(name),
                esc(&self.scope())
            ));
        }
    }
    fn item(&mut self, kind: &str, name: &str, attrs: &[syn::Attribute], line: usize) {
        let cfgs: Vec<String> = Self::cfg_attrs(attrs)
            .into_iter()
            .filter(|(n, _, _)| n == "cfg")
            .map(|(_, t, _)| esc(&t))
            .collect();
        self.items.push(format!(
            "{{\"file\":{},\"line\":{},\"kind\":{},\"name\":{},\"scope\":{},\"cfg\":[{}]}}",
            esc(self.file),
            line,
            esc(kind),
            esc(name),
            esc(&self.scope()),
            cfgs.join(",")
        ));
        self.note(&format!("item:{kind}"), name, attrs);
    }
    fn mac(&mut self, m: &syn::Macro) {
        let name = m.path.segments.last().map(|s| s.ident.to_string()).unwrap_or_default();
        let line = m.span().start().line;
        if name == "cfg" {
            self.cfgs.push(format!(
                "{{\"file\":{},\"line\":{},\"attr\":\"cfg!\",\"pred\":{},\"node\":\"expr:macro\",\"name\":\"\",\"scope\":{}}}",
                esc(self.file),
                line,
                esc(&m.tokens.to_string()),
                esc(&self.scope())
            ));
        }
        const FMT: [&str; 12] = [
            "write", "writeln", "format", "panic", "unreachable", "assert", "print", "println", "eprintln",
            "format_args", "debug_assert", "expect",
        ];
        if FMT.contains(&name.as_str()) {
            // first string literal among the top-level tokens
            let mut lit = None;
            for tt in m.tokens.clone() {
                if let TokenTree::Literal(l) = tt {
                    let s = l.to_string();
                    if s.starts_with('"') || s.starts_with("r\"") || s.starts_with("r#") {
                        lit = Some(s);
                        break;
                    }
                }
            }
            if let Some(l) = lit {
                self.fmts.push(format!(
                    "{{\"file\":{},\"line\":{},\"macro\":{},\"scope\":{},\"lit\":{},\"tokens\":{}}}",
                    esc(self.file),
                    line,
                    esc(&name),
                    esc(&self.scope()),
                    esc(&l),
                    esc(&m.tokens.to_string())
                ));
            }
        }
        // recurse into macro arguments that parse as expressions (dispatch!, write! args, ...)
        if let Ok(args) = m.parse_body_with(syn::punctuated::Punctuated::<syn::Expr, syn::Token![,]>::parse_terminated) {
            for e in args.iter() {
                self.visit_expr(e);
            }
        }
    }
}

fn type_name(t: &syn::Type) -> String {
    match t {
        syn::Type::Path(p) => p.path.segments.iter().map(|s| s.ident.to_string()).collect::<Vec<_>>().join("::"),
        syn::Type::Reference(r) => format!("&{}", type_name(&r.elem)),
        other => {
            let mut s = String::new();
            let _ = write!(s, "{}", quote_ty(other));
            s
        }
    }
}
fn quote_ty(t: &syn::Type) -> String {
    // cheap textual form without the quote crate
    format!("{:?}", t).chars().take(40).collect()
}

impl<'a, 'ast> Visit<'ast> for V<'a> {
    fn visit_item(&mut self, i: &'ast syn::Item) {
        let line = i.span().start().line;
        match i {
            syn::Item::Fn(f) => {
                let name = f.sig.ident.to_string();
                self.item("fn", &name, &f.attrs, line);
                self.stack.push(name);
                visit::visit_item_fn(self, f);
                self.stack.pop();
            }
            syn::Item::Mod(m) => {
                let name = m.ident.to_string();
                self.item("mod", &name, &m.attrs, line);
                self.stack.push(name);
                visit::visit_item_mod(self, m);
                self.stack.pop();
            }
            syn::Item::Impl(im) => {
                let mut name = String::new();
                if let Some((_, p, _)) = &im.trait_ {
                    name.push_str(&p.segments.iter().map(|s| s.ident.to_string()).collect::<Vec<_>>().join("::"));
                    name.push_str(" for ");
                }
                name.push_str(&type_name(&im.self_ty));
                self.item("impl", &name, &im.attrs, line);
                self.stack.push(format!("<{name}>"));
                visit::visit_item_impl(self, im);
                self.stack.pop();
            }
            syn::Item::Trait(t) => {
                let name = t.ident.to_string();
                self.item("trait", &name, &t.attrs, line);
                self.stack.push(name);
                visit::visit_item_trait(self, t);
                self.stack.pop();
            }
            syn::Item::Struct(s) => {
                let name = s.ident.to_string();
                self.item("struct", &name, &s.attrs, line);
                self.stack.push(name);
                visit::visit_item_struct(self, s);
                self.stack.pop();
            }
            syn::Item::Enum(s) => {
                let name = s.ident.to_string();
                self.item("enum", &name, &s.attrs, line);
                self.stack.push(name);
                visit::visit_item_enum(self, s);
                self.stack.pop();
            }
            syn::Item::Use(u) => {
                self.item("use", "", &u.attrs, line);
            }
            syn::Item::Const(c) => {
                self.item("const", &c.ident.to_string(), &c.attrs, line);
                visit::visit_item_const(self, c);
            }
            syn::Item::Static(c) => {
                self.item("static", &c.ident.to_string(), &c.attrs, line);
                visit::visit_item_static(self, c);
            }
            syn::Item::Type(c) => {
                self.item("type", &c.ident.to_string(), &c.attrs, line);
            }
            syn::Item::ExternCrate(c) => {
                self.item("extern_crate", &c.ident.to_string(), &c.attrs, line);
            }
            syn::Item::Macro(m) => {
                let name = m.ident.as_ref().map(|i| i.to_string()).unwrap_or_default();
                self.item("macro", &name, &m.attrs, line);
                if m.mac.path.is_ident("macro_rules") {
                    let mut s = String::new();
                    let _ = write!(
                        s,
                        "{{\"file\":{},\"line\":{},\"name\":{},\"tokens\":",
                        esc(self.file),
                        line,
                        esc(&name)
                    );
                    tt_json(m.mac.tokens.clone(), &mut s);
                    s.push('}');
                    self.macros.push(s);
                } else {
                    self.mac(&m.mac);
                }
            }
            other => {
                visit::visit_item(self, other);
            }
        }
    }
    fn visit_impl_item(&mut self, i: &'ast syn::ImplItem) {
        let line = i.span().start().line;
        match i {
            syn::ImplItem::Fn(f) => {
                let name = f.sig.ident.to_string();
                self.item("impl_fn", &name, &f.attrs, line);
                self.stack.push(name);
                visit::visit_impl_item_fn(self, f);
                self.stack.pop();
            }
            syn::ImplItem::Const(c) => {
                self.item("impl_const", &c.ident.to_string(), &c.attrs, line);
                visit::visit_impl_item_const(self, c);
            }
            syn::ImplItem::Type(c) => {
                self.item("impl_type", &c.ident.to_string(), &c.attrs, line);
            }
            syn::ImplItem::Macro(m) => {
                self.note("impl_item:macro", "", &m.attrs);
                self.mac(&m.mac);
            }
            other => visit::visit_impl_item(self, other),
        }
    }
    fn visit_trait_item(&mut self, i: &'ast syn::TraitItem) {
        let line = i.span().start().line;
        match i {
            syn::TraitItem::Fn(f) => {
                let name = f.sig.ident.to_string();
                self.item("trait_fn", &name, &f.attrs, line);
                self.stack.push(name);
                visit::visit_trait_item_fn(self, f);
                self.stack.pop();
            }
            other => visit::visit_trait_item(self, other),
        }
    }
    fn visit_field(&mut self, f: &'ast syn::Field) {
        let name = f.ident.as_ref().map(|i| i.to_string()).unwrap_or_default();
        self.note("field", &name, &f.attrs);
        visit::visit_field(self, f);
    }
    fn visit_variant(&mut self, v: &'ast syn::Variant) {
        self.note("variant", &v.ident.to_string(), &v.attrs);
        visit::visit_variant(self, v);
    }
    fn visit_local(&mut self, l: &'ast syn::Local) {
        self.note("stmt:let", "", &l.attrs);
        visit::visit_local(self, l);
    }
    fn visit_stmt_macro(&mut self, m: &'ast syn::StmtMacro) {
        self.note("stmt:macro", "", &m.attrs);
        self.mac(&m.mac);
    }
    fn visit_arm(&mut self, a: &'ast syn::Arm) {
        self.note("arm", "", &a.attrs);
        visit::visit_arm(self, a);
    }
    fn visit_field_value(&mut self, f: &'ast syn::FieldValue) {
        self.note("field_value", "", &f.attrs);
        visit::visit_field_value(self, f);
    }
    fn visit_expr(&mut self, e: &'ast syn::Expr) {
        // every expression kind that can carry attributes
        macro_rules! attrs_of {
            ($($v:ident),*) => {
                match e { $(syn::Expr::$v(x) => Some(&x.attrs),)* _ => None }
            };
        }
        let attrs = attrs_of!(
            Array, Assign, Async, Await, Binary, Block, Break, Call, Cast, Closure, Const, Continue, Field,
            ForLoop, Group, If, Index, Infer, Let, Lit, Loop, Macro, Match, MethodCall, Paren, Path, Range,
            Reference, Repeat, Return, Struct, Try, TryBlock, Tuple, Unary, Unsafe, While, Yield
        );
        if let Some(a) = attrs {
            if !a.is_empty() {
                let kind = format!("expr:{}", expr_kind(e));
                self.note(&kind, "", a);
            }
        }
        if let syn::Expr::Macro(m) = e {
            self.mac(&m.mac);
            return;
        }
        visit::visit_expr(self, e);
    }
}

fn expr_kind(e: &syn::Expr) -> &'static str {
    match e {
        syn::Expr::Block(_) => "block",
        syn::Expr::If(_) => "if",
        syn::Expr::Call(_) => "call",
        syn::Expr::MethodCall(_) => "mcall",
        syn::Expr::Macro(_) => "macro",
        syn::Expr::Match(_) => "match",
        syn::Expr::Unsafe(_) => "unsafe",
        syn::Expr::Struct(_) => "struct",
        _ => "other",
    }
}

fn main() {
    let args: Vec<String> = std::env::args().collect();
    if args.len() < 3 {
        eprintln!("usage: srcfacts <out.json> <file.rs>...");
        std::process::exit(2);
    }
    let mut cfgs = Vec::new();
    let mut items = Vec::new();
    let mut macros = Vec::new();
    let mut fmts = Vec::new();
    let mut files = Vec::new();
    for f in &args[2..] {
        let src = match std::fs::read_to_string(f) {
            Ok(s) => s,
            Err(e) => {
                eprintln!("srcfacts: cannot read {f}: {e}");
                std::process::exit(3);
            }
        };
        let ast = match syn::parse_file(&src) {
            Ok(a) => a,
            Err(e) => {
                eprintln!("srcfacts: cannot parse {f}: {e}");
                std::process::exit(3);
            }
        };
        let mut v = V { file: f, stack: Vec::new(), cfgs: Vec::new(), items: Vec::new(), macros: Vec::new(), fmts: Vec::new() };
        // inner attributes of the file (#![cfg(..)])
        v.note("file", "", &ast.attrs);
        v.visit_file(&ast);
        cfgs.extend(v.cfgs);
        items.extend(v.items);
        macros.extend(v.macros);
        fmts.extend(v.fmts);
        files.push(esc(f));
    }
    let out = format!(
        "{{\"files\":[{}],\"cfgs\":[{}],\"items\":[{}],\"macros\":[{}],\"fmts\":[{}]}}",
        files.join(","),
        cfgs.join(","),
        items.join(","),
        macros.join(","),
        fmts.join(",")
    );
    std::fs::write(&args[1], out).expect("write");
}
