//! Item facts: ADTs, type aliases, impls, traits, fns (signature/visibility).

use crate::json::J;
use crate::Cx;
use rustc_hir::def::DefKind;

fn vis_str(cx: &Cx<'_>, def_id: rustc_hir::def_id::DefId) -> String {
    let v = cx.tcx.visibility(def_id);
    if v.is_public() {
        "pub".into()
    } else {
        match v {
            rustc_middle::ty::Visibility::Restricted(id) => {
                if id.is_crate_root() {
                    "crate".into()
                } else {
                    format!("in:{}", cx.path(id))
                }
            }
            _ => "pub".into(),
        }
    }
}

pub fn dump_items<'tcx>(cx: &Cx<'tcx>, root: &mut Vec<(&'static str, J)>) {
    let tcx = cx.tcx;
    let mut adts = Vec::new();
    let mut aliases = Vec::new();
    let mut impls = Vec::new();
    let mut traits = Vec::new();
    let mut fns = Vec::new();
    let mut consts = Vec::new();
    for ldid in tcx.hir_crate_items(()).definitions() {
        let def_id = ldid.to_def_id();
        let kind = tcx.def_kind(def_id);
        let (file, line, _) = cx.loc(tcx.def_span(def_id));
        match kind {
            DefKind::Struct | DefKind::Enum | DefKind::Union => {
                let adt = tcx.adt_def(def_id);
                let mut o = J::obj();
                o.push(("path", J::s(cx.path(def_id))));
                o.push((
                    "kind",
                    J::s(match kind {
                        DefKind::Struct => "struct",
                        DefKind::Enum => "enum",
                        _ => "union",
                    }),
                ));
                o.push(("vis", J::s(vis_str(cx, def_id))));
                o.push(("file", J::s(file)));
                o.push(("line", J::Num(line)));
                let mut variants = Vec::new();
                for v in adt.variants() {
                    let mut vo = J::obj();
                    vo.push(("name", J::s(v.name.to_string())));
                    let mut fields = Vec::new();
                    for f in &v.fields {
                        let mut fo = J::obj();
                        fo.push(("name", J::s(f.name.to_string())));
                        let ty = tcx.type_of(f.did).instantiate_identity().skip_norm_wip();
                        fo.push(("ty", J::s(cx.ty(ty))));
                        fo.push(("vis", J::s(if f.vis.is_public() { "pub" } else { "restricted" })));
                        fields.push(J::Obj(fo));
                    }
                    vo.push(("fields", J::Arr(fields)));
                    variants.push(J::Obj(vo));
                }
                o.push(("variants", J::Arr(variants)));
                adts.push(J::Obj(o));
            }
            DefKind::TyAlias => {
                let mut o = J::obj();
                o.push(("path", J::s(cx.path(def_id))));
                let ty = tcx.type_of(def_id).instantiate_identity().skip_norm_wip();
                o.push(("ty", J::s(cx.ty(ty))));
                o.push(("vis", J::s(vis_str(cx, def_id))));
                aliases.push(J::Obj(o));
            }
            DefKind::Impl { of_trait } => {
                let mut o = J::obj();
                o.push(("id", J::s(cx.path(def_id))));
                if of_trait {
                    let tr = tcx.impl_trait_ref(def_id).instantiate_identity().skip_norm_wip();
                    o.push(("trait", J::s(cx.path(tr.def_id))));
                    o.push(("trait_ref", J::s(format!("{}", cx.path_args(tr.def_id, tr.args)))));
                } else {
                    o.push(("trait", J::Null));
                }
                let self_ty = tcx.type_of(def_id).instantiate_identity().skip_norm_wip();
                o.push(("self_ty", J::s(cx.ty(self_ty))));
                if let rustc_middle::ty::Adt(adt, _) = self_ty.kind() {
                    o.push(("self_adt", J::s(cx.path(adt.did()))));
                } else if let rustc_middle::ty::Ref(_, inner, _) = self_ty.kind() {
                    if let rustc_middle::ty::Adt(adt, _) = inner.kind() {
                        o.push(("self_adt", J::s(cx.path(adt.did()))));
                    }
                }
                o.push(("file", J::s(file)));
                o.push(("line", J::Num(line)));
                let mut its = Vec::new();
                for &it in tcx.associated_item_def_ids(def_id) {
                    let ai = tcx.associated_item(it);
                    let mut io = J::obj();
                    io.push(("name", J::s(ai.name().to_string())));
                    io.push(("def", J::s(cx.path(it))));
                    io.push(("kind", J::s(format!("{:?}", tcx.def_kind(it)))));
                    its.push(J::Obj(io));
                }
                o.push(("items", J::Arr(its)));
                impls.push(J::Obj(o));
            }
            DefKind::Trait => {
                let mut o = J::obj();
                o.push(("path", J::s(cx.path(def_id))));
                o.push(("vis", J::s(vis_str(cx, def_id))));
                let mut its = Vec::new();
                for &it in tcx.associated_item_def_ids(def_id) {
                    let ai = tcx.associated_item(it);
                    let mut io = J::obj();
                    io.push(("name", J::s(ai.name().to_string())));
                    io.push(("def", J::s(cx.path(it))));
                    io.push(("kind", J::s(format!("{:?}", tcx.def_kind(it)))));
                    io.push(("has_default", J::Bool(ai.defaultness(tcx).has_value())));
                    its.push(J::Obj(io));
                }
                o.push(("items", J::Arr(its)));
                traits.push(J::Obj(o));
            }
            DefKind::Fn | DefKind::AssocFn => {
                let mut o = J::obj();
                o.push(("def", J::s(cx.path(def_id))));
                o.push(("name", J::s(tcx.item_name(def_id).to_string())));
                o.push(("vis", J::s(vis_str(cx, def_id))));
                o.push(("file", J::s(file)));
                o.push(("line", J::Num(line)));
                let sig = tcx.fn_sig(def_id).instantiate_identity().skip_norm_wip().skip_binder();
                o.push(("inputs", J::Arr(sig.inputs().iter().map(|t| J::s(cx.ty(*t))).collect())));
                o.push(("output", J::s(cx.ty(sig.output()))));
                if let Some(imp) = tcx.impl_of_assoc(def_id) {
                    o.push(("impl", J::s(cx.path(imp))));
                    if tcx.impl_is_of_trait(imp) {
                        let tr = tcx.impl_trait_ref(imp).instantiate_identity().skip_norm_wip();
                        o.push(("impl_trait", J::s(cx.path(tr.def_id))));
                    }
                    let self_ty = tcx.type_of(imp).instantiate_identity().skip_norm_wip();
                    o.push(("self_ty", J::s(cx.ty(self_ty))));
                }
                if let Some(tr) = tcx.trait_of_assoc(def_id) {
                    o.push(("trait", J::s(cx.path(tr))));
                    let ai = tcx.associated_item(def_id);
                    o.push(("has_default", J::Bool(ai.defaultness(tcx).has_value())));
                }
                let generics = tcx.generics_of(def_id);
                let mut gs = Vec::new();
                for p in &generics.own_params {
                    gs.push(J::s(p.name.to_string()));
                }
                o.push(("generics", J::Arr(gs)));
                fns.push(J::Obj(o));
            }
            DefKind::Const { .. } | DefKind::AssocConst { .. } | DefKind::Static { .. } => {
                let mut o = J::obj();
                o.push(("def", J::s(cx.path(def_id))));
                let ty = tcx.type_of(def_id).instantiate_identity().skip_norm_wip();
                o.push(("ty", J::s(cx.ty(ty))));
                o.push(("vis", J::s(vis_str(cx, def_id))));
                o.push(("file", J::s(file)));
                o.push(("line", J::Num(line)));
                consts.push(J::Obj(o));
            }
            _ => {}
        }
    }
    root.push(("adts", J::Arr(adts)));
    root.push(("aliases", J::Arr(aliases)));
    root.push(("impls", J::Arr(impls)));
    root.push(("traits", J::Arr(traits)));
    root.push(("fns", J::Arr(fns)));
    root.push(("consts", J::Arr(consts)));
}
