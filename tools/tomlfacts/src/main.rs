//! tomlfacts — a rustc_private driver that dumps, per crate, one JSON fact file:
//! items (ADTs, impls, traits, aliases), typed-HIR expression trees with resolved
//! paths / method callees / generic arguments, and MIR summaries (CFG, calls,
//! asserts, casts, fn-item mentions).
//!
//! Used as RUSTC_WORKSPACE_WRAPPER: argv[1] is the real rustc path (dropped).
//! Env: TOMLFACTS_OUT = output directory; TOMLFACTS_CRATES = comma list of crate
//! names to dump (others are compiled normally); TOMLFACTS_CONFIG = label.
#![feature(rustc_private)]
#![allow(clippy::all)]

extern crate rustc_abi;
extern crate rustc_ast;
extern crate rustc_driver;
extern crate rustc_hir;
extern crate rustc_interface;
extern crate rustc_middle;
extern crate rustc_session;
extern crate rustc_span;

mod hirdump;
mod items;
mod json;
mod mirdump;

use json::J;
use rustc_driver::Compilation;
use rustc_middle::ty::TyCtxt;

struct Cb {
    out_dir: String,
    config: String,
}

impl rustc_driver::Callbacks for Cb {
    fn after_analysis<'tcx>(
        &mut self,
        _compiler: &rustc_interface::interface::Compiler,
        tcx: TyCtxt<'tcx>,
    ) -> Compilation {
        dump(tcx, &self.out_dir, &self.config);
        Compilation::Continue
    }
}

pub struct Cx<'tcx> {
    pub tcx: TyCtxt<'tcx>,
    pub krate: String,
}

impl<'tcx> Cx<'tcx> {
    pub fn path(&self, def_id: rustc_hir::def_id::DefId) -> String {
        use rustc_middle::ty::print::{with_crate_prefix, with_no_trimmed_paths, with_no_visible_paths};
        let s = with_no_trimmed_paths!(with_no_visible_paths!(with_crate_prefix!(self.tcx.def_path_str(def_id))));
        self.fix(s)
    }
    /// replace the `crate::` prefix the printer emits for local items by the crate name
    pub fn fix(&self, s: String) -> String {
        if !s.contains("crate::") {
            return s;
        }
        let mut out = String::with_capacity(s.len() + 16);
        let b = s.as_bytes();
        let mut i = 0;
        while i < b.len() {
            if s[i..].starts_with("crate::")
                && (i == 0 || !(b[i - 1].is_ascii_alphanumeric() || b[i - 1] == b'_'))
            {
                out.push_str(&self.krate);
                out.push_str("::");
                i += 7;
            } else {
                let ch = s[i..].chars().next().unwrap();
                out.push(ch);
                i += ch.len_utf8();
            }
        }
        out
    }
    pub fn path_args(
        &self,
        def_id: rustc_hir::def_id::DefId,
        args: rustc_middle::ty::GenericArgsRef<'tcx>,
    ) -> String {
        use rustc_middle::ty::print::{with_crate_prefix, with_no_trimmed_paths, with_no_visible_paths};
        let s = with_no_trimmed_paths!(with_no_visible_paths!(with_crate_prefix!(self
            .tcx
            .def_path_str_with_args(def_id, args))));
        self.fix(s)
    }
    pub fn ty(&self, ty: rustc_middle::ty::Ty<'tcx>) -> String {
        use rustc_middle::ty::print::{with_crate_prefix, with_no_trimmed_paths, with_no_visible_paths};
        let s = with_no_trimmed_paths!(with_no_visible_paths!(with_crate_prefix!(ty.to_string())));
        self.fix(s)
    }
    pub fn loc(&self, span: rustc_span::Span) -> (String, i128, bool) {
        let sm = self.tcx.sess.source_map();
        let exp = span.from_expansion();
        let sp = if exp { span.source_callsite() } else { span };
        let pos = sm.lookup_char_pos(sp.lo());
        let name = match &pos.file.name {
            rustc_span::FileName::Real(r) => match r.local_path() {
                Some(p) => p.to_string_lossy().into_owned(),
                None => format!("{:?}", pos.file.name),
            },
            other => format!("{other:?}"),
        };
        (name, pos.line as i128, exp)
    }
    /// innermost macro name the span comes from, if any
    pub fn macro_name(&self, span: rustc_span::Span) -> Option<String> {
        if !span.from_expansion() {
            return None;
        }
        let data = span.ctxt().outer_expn_data();
        match data.kind {
            rustc_span::ExpnKind::Macro(_, name) => Some(name.to_string()),
            rustc_span::ExpnKind::Desugaring(d) => Some(format!("desugar:{d:?}")),
            rustc_span::ExpnKind::AstPass(_) => Some("astpass".into()),
            rustc_span::ExpnKind::Root => None,
        }
    }
}

fn dump<'tcx>(tcx: TyCtxt<'tcx>, out_dir: &str, config: &str) {
    let krate = tcx.crate_name(rustc_hir::def_id::LOCAL_CRATE).to_string();
    let cx = Cx { tcx, krate: krate.clone() };
    let mut root = J::obj();
    root.push(("crate", J::s(krate.clone())));
    root.push(("config", J::s(config)));
    // enabled cfg features as seen by the compiler
    let mut feats = Vec::new();
    for (name, val) in tcx.sess.config.iter() {
        if name.as_str() == "feature" {
            if let Some(v) = val {
                feats.push(J::s(v.to_string()));
            }
        }
    }
    root.push(("features", J::Arr(feats)));
    let mut files = Vec::new();
    for f in tcx.sess.source_map().files().iter() {
        if let rustc_span::FileName::Real(r) = &f.name {
            if let Some(p) = r.local_path() {
                let s = p.to_string_lossy().into_owned();
                if !s.contains("/.cargo/") && !s.contains("/rustlib/") {
                    files.push(J::s(s));
                }
            }
        }
    }
    root.push(("files", J::Arr(files)));
    items::dump_items(&cx, &mut root);
    let bodies = hirdump::dump_bodies(&cx);
    root.push(("bodies", J::Arr(bodies)));
    let mir = mirdump::dump_mir(&cx);
    root.push(("mir", J::Arr(mir)));
    let mut s = String::with_capacity(1 << 24);
    J::Obj(root).write(&mut s);
    let path = format!("{out_dir}/{krate}.json");
    let tmp = format!("{path}.tmp{}", std::process::id());
    std::fs::write(&tmp, s).expect("write facts");
    std::fs::rename(&tmp, &path).expect("rename facts");
}

fn main() {
    let mut args: Vec<String> = std::env::args().collect();
    // RUSTC_WORKSPACE_WRAPPER mode: argv[1] is the path of the real rustc
    if args.len() > 1 && (args[1].ends_with("rustc") || args[1].contains("/rustc")) {
        args.remove(1);
    }
    let crate_name = args
        .iter()
        .position(|a| a == "--crate-name")
        .and_then(|i| args.get(i + 1))
        .cloned()
        .unwrap_or_default();
    let out_dir = std::env::var("TOMLFACTS_OUT").unwrap_or_default();
    let wanted = std::env::var("TOMLFACTS_CRATES").unwrap_or_default();
    let config = std::env::var("TOMLFACTS_CONFIG").unwrap_or_else(|_| "default".into());
    let is_lib = args.windows(2).any(|w| w[0] == "--crate-type" && (w[1] == "lib" || w[1] == "rlib"));
    let selected = !out_dir.is_empty() && is_lib && wanted.split(',').any(|w| w == crate_name);
    if selected {
        let mut cb = Cb { out_dir, config };
        rustc_driver::run_compiler(&args, &mut cb);
    } else {
        struct No;
        impl rustc_driver::Callbacks for No {}
        rustc_driver::run_compiler(&args, &mut No);
    }
}
