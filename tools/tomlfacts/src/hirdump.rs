//! Typed-HIR expression trees with resolved paths, method callees and generic args.
//!
//! Node keys: k = kind, l = line, f = file index (only on body), x = 1 when the
//! node comes from a macro expansion (m = innermost macro name), t = type.

use crate::json::J;
use crate::Cx;
use rustc_hir as hir;
use rustc_hir::def::{DefKind, Res};
use rustc_middle::ty::TypeckResults;

pub struct D<'a, 'tcx> {
    cx: &'a Cx<'tcx>,
    tr: &'tcx TypeckResults<'tcx>,
    owner: rustc_hir::def_id::LocalDefId,
}

pub fn dump_bodies<'tcx>(cx: &Cx<'tcx>) -> Vec<J> {
    let tcx = cx.tcx;
    let mut out = Vec::new();
    for ldid in tcx.hir_body_owners() {
        let def_id = ldid.to_def_id();
        let kind = tcx.def_kind(def_id);
        // closures and inline consts are inlined into their parent's tree
        if matches!(kind, DefKind::Closure | DefKind::InlineConst | DefKind::SyntheticCoroutineBody) {
            continue;
        }
        let body = tcx.hir_body_owned_by(ldid);
        let tr = tcx.typeck(ldid);
        let d = D { cx, tr, owner: ldid };
        let (file, line, exp) = cx.loc(tcx.def_span(def_id));
        let mut o = J::obj();
        o.push(("def", J::s(cx.path(def_id))));
        o.push(("kind", J::s(format!("{kind:?}"))));
        o.push(("file", J::s(file)));
        o.push(("line", J::Num(line)));
        if exp {
            o.push(("x", J::Num(1)));
            if let Some(m) = cx.macro_name(tcx.def_span(def_id)) {
                o.push(("m", J::s(m)));
            }
        }
        // automatically derived impls are marked
        if let Some(imp) = tcx.impl_of_assoc(def_id) {
            if tcx.is_automatically_derived(imp) {
                o.push(("derived", J::Bool(true)));
            }
        }
        o.push(("params", J::Arr(body.params.iter().map(|p| d.pat(p.pat)).collect())));
        o.push(("body", d.expr(body.value)));
        out.push(J::Obj(o));
    }
    out
}

impl<'a, 'tcx> D<'a, 'tcx> {
    fn base(&self, k: &'static str, span: rustc_span::Span) -> Vec<(&'static str, J)> {
        let mut o = J::obj();
        o.push(("k", J::s(k)));
        let (_, line, exp) = self.cx.loc(span);
        o.push(("l", J::Num(line)));
        if exp {
            o.push(("x", J::Num(1)));
            if let Some(m) = self.cx.macro_name(span) {
                o.push(("m", J::s(m)));
            }
        }
        o
    }

    fn res(&self, o: &mut Vec<(&'static str, J)>, qpath: &hir::QPath<'tcx>, hir_id: hir::HirId) {
        let res = self.tr.qpath_res(qpath, hir_id);
        match res {
            Res::Def(kind, def_id) => {
                o.push(("res", J::s(format!("{kind:?}"))));
                o.push(("path", J::s(self.cx.path(def_id))));
                if let Some(args) = self.tr.node_args_opt(hir_id) {
                    if !args.is_empty() {
                        o.push(("args", J::Arr(args.iter().map(|a| J::s(self.garg(a))).collect())));
                    }
                }
                // assoc fn / const through a trait: try to resolve to the impl item
                if matches!(kind, DefKind::AssocFn | DefKind::Fn) {
                    if let Some(args) = self.tr.node_args_opt(hir_id) {
                        if let Some(r) = self.resolve(def_id, args) {
                            o.push(("resolved", J::s(r)));
                        }
                    }
                }
                if let DefKind::Ctor(..) = kind {
                    // path of the variant/struct the constructor belongs to
                    let parent = self.cx.tcx.parent(def_id);
                    o.push(("ctor_of", J::s(self.cx.path(parent))));
                }
            }
            Res::Local(id) => {
                o.push(("res", J::s("Local")));
                o.push((
                    "path",
                    J::s(format!("{}#{}", self.cx.tcx.hir_name(id), id.local_id.as_u32())),
                ));
            }
            Res::SelfCtor(def_id) => {
                o.push(("res", J::s("SelfCtor")));
                o.push(("path", J::s(self.cx.path(def_id))));
            }
            Res::SelfTyAlias { alias_to, .. } => {
                o.push(("res", J::s("SelfTyAlias")));
                o.push(("path", J::s(self.cx.path(alias_to))));
            }
            other => {
                o.push(("res", J::s(format!("{other:?}"))));
            }
        }
    }

    fn garg(&self, a: rustc_middle::ty::GenericArg<'tcx>) -> String {
        use rustc_middle::ty::print::{with_crate_prefix, with_no_trimmed_paths, with_no_visible_paths};
        let s = with_no_trimmed_paths!(with_no_visible_paths!(with_crate_prefix!(a.to_string())));
        self.cx.fix(s)
    }

    fn resolve(
        &self,
        def_id: rustc_hir::def_id::DefId,
        args: rustc_middle::ty::GenericArgsRef<'tcx>,
    ) -> Option<String> {
        use rustc_middle::ty::TypeVisitableExt;
        let tcx = self.cx.tcx;
        if args.has_infer() || args.has_escaping_bound_vars() {
            return None;
        }
        let env = rustc_middle::ty::TypingEnv::post_analysis(tcx, self.owner.to_def_id());
        let args = tcx.erase_and_anonymize_regions(args);
        match rustc_middle::ty::Instance::try_resolve(tcx, env, def_id, args) {
            Ok(Some(inst)) => {
                let rid = inst.def_id();
                if rid != def_id {
                    Some(self.cx.path(rid))
                } else {
                    None
                }
            }
            _ => None,
        }
    }

    fn ty_of(&self, o: &mut Vec<(&'static str, J)>, e: &hir::Expr<'tcx>) {
        if let Some(t) = self.tr.expr_ty_opt(e) {
            o.push(("t", J::s(self.cx.ty(t))));
        }
    }

    fn lit(&self, lit: &hir::Lit, negated: bool) -> J {
        use rustc_ast::LitKind;
        let mut o = J::obj();
        o.push(("k", J::s("lit")));
        match &lit.node {
            LitKind::Str(s, _) => {
                o.push(("lk", J::s("str")));
                o.push(("v", J::s(s.as_str())));
            }
            LitKind::ByteStr(b, _) => {
                o.push(("lk", J::s("bytes")));
                o.push(("v", J::Arr(b.as_byte_str().iter().map(|x| J::Num(*x as i128)).collect())));
            }
            LitKind::CStr(b, _) => {
                o.push(("lk", J::s("cstr")));
                o.push(("v", J::Arr(b.as_byte_str().iter().map(|x| J::Num(*x as i128)).collect())));
            }
            LitKind::Byte(b) => {
                o.push(("lk", J::s("byte")));
                o.push(("v", J::Num(*b as i128)));
            }
            LitKind::Char(c) => {
                o.push(("lk", J::s("char")));
                o.push(("v", J::Num(*c as u32 as i128)));
            }
            LitKind::Int(n, _) => {
                o.push(("lk", J::s("int")));
                let v = n.get() as i128;
                o.push(("v", J::Num(if negated { -v } else { v })));
            }
            LitKind::Float(s, _) => {
                o.push(("lk", J::s("float")));
                o.push(("v", J::s(format!("{}{}", if negated { "-" } else { "" }, s.as_str()))));
            }
            LitKind::Bool(b) => {
                o.push(("lk", J::s("bool")));
                o.push(("v", J::Bool(*b)));
            }
            LitKind::Err(_) => {
                o.push(("lk", J::s("err")));
            }
        }
        J::Obj(o)
    }

    fn pat_expr(&self, pe: &hir::PatExpr<'tcx>) -> J {
        match &pe.kind {
            hir::PatExprKind::Lit { lit, negated } => {
                let mut j = self.lit(lit, *negated);
                if let J::Obj(o) = &mut j {
                    let ty = self.tr.node_type_opt(pe.hir_id);
                    if let Some(t) = ty {
                        o.push(("t", J::s(self.cx.ty(t))));
                    }
                }
                j
            }
            hir::PatExprKind::Path(qp) => {
                let mut o = self.base("path", pe.span);
                self.res(&mut o, qp, pe.hir_id);
                J::Obj(o)
            }
        }
    }

    pub fn pat(&self, p: &hir::Pat<'tcx>) -> J {
        use hir::PatKind;
        let mut o = J::obj();
        match &p.kind {
            PatKind::Missing => o.push(("k", J::s("p_missing"))),
            PatKind::Wild => o.push(("k", J::s("p_wild"))),
            PatKind::Never => o.push(("k", J::s("p_never"))),
            PatKind::Binding(mode, id, ident, sub) => {
                o.push(("k", J::s("p_bind")));
                o.push(("name", J::s(format!("{}#{}", ident.name, id.local_id.as_u32()))));
                o.push(("mode", J::s(format!("{mode:?}"))));
                if let Some(t) = self.tr.node_type_opt(p.hir_id) {
                    o.push(("t", J::s(self.cx.ty(t))));
                }
                if let Some(s) = sub {
                    o.push(("sub", self.pat(s)));
                }
            }
            PatKind::Struct(qp, fields, rest) => {
                o.push(("k", J::s("p_struct")));
                self.res(&mut o, qp, p.hir_id);
                o.push((
                    "fields",
                    J::Arr(
                        fields
                            .iter()
                            .map(|f| {
                                let mut fo = J::obj();
                                fo.push(("name", J::s(f.ident.name.to_string())));
                                fo.push(("pat", self.pat(f.pat)));
                                J::Obj(fo)
                            })
                            .collect(),
                    ),
                ));
                o.push(("rest", J::Bool(rest.is_some())));
            }
            PatKind::TupleStruct(qp, pats, dd) => {
                o.push(("k", J::s("p_tuplestruct")));
                self.res(&mut o, qp, p.hir_id);
                o.push(("pats", J::Arr(pats.iter().map(|x| self.pat(x)).collect())));
                if let Some(pos) = dd.as_opt_usize() {
                    o.push(("dd", J::Num(pos as i128)));
                }
            }
            PatKind::Or(pats) => {
                o.push(("k", J::s("p_or")));
                o.push(("pats", J::Arr(pats.iter().map(|x| self.pat(x)).collect())));
            }
            PatKind::Tuple(pats, dd) => {
                o.push(("k", J::s("p_tuple")));
                o.push(("pats", J::Arr(pats.iter().map(|x| self.pat(x)).collect())));
                if let Some(pos) = dd.as_opt_usize() {
                    o.push(("dd", J::Num(pos as i128)));
                }
            }
            PatKind::Box(x) | PatKind::Deref(x) => {
                o.push(("k", J::s("p_deref")));
                o.push(("pat", self.pat(x)));
            }
            PatKind::Ref(x, _, m) => {
                o.push(("k", J::s("p_ref")));
                o.push(("mut", J::Bool(m.is_mut())));
                o.push(("pat", self.pat(x)));
            }
            PatKind::Expr(pe) => {
                o.push(("k", J::s("p_expr")));
                o.push(("e", self.pat_expr(pe)));
            }
            PatKind::Guard(x, g) => {
                o.push(("k", J::s("p_guard")));
                o.push(("pat", self.pat(x)));
                o.push(("guard", self.expr(g)));
            }
            PatKind::Range(lo, hi, end) => {
                o.push(("k", J::s("p_range")));
                if let Some(lo) = lo {
                    o.push(("lo", self.pat_expr(lo)));
                }
                if let Some(hi) = hi {
                    o.push(("hi", self.pat_expr(hi)));
                }
                o.push(("incl", J::Bool(matches!(end, hir::RangeEnd::Included))));
            }
            PatKind::Slice(a, m, b) => {
                o.push(("k", J::s("p_slice")));
                o.push(("before", J::Arr(a.iter().map(|x| self.pat(x)).collect())));
                if let Some(m) = m {
                    o.push(("mid", self.pat(m)));
                }
                o.push(("after", J::Arr(b.iter().map(|x| self.pat(x)).collect())));
            }
            PatKind::Err(_) => o.push(("k", J::s("p_err"))),
        }
        let (_, line, _) = self.cx.loc(p.span);
        o.push(("l", J::Num(line)));
        J::Obj(o)
    }

    fn block(&self, b: &hir::Block<'tcx>) -> J {
        let mut o = self.base("block", b.span);
        if !matches!(b.rules, hir::BlockCheckMode::DefaultBlock) {
            o.push(("unsafe", J::Bool(true)));
        }
        let mut stmts = Vec::new();
        for s in b.stmts {
            match &s.kind {
                hir::StmtKind::Let(l) => {
                    let mut lo = self.base("let", s.span);
                    lo.push(("pat", self.pat(l.pat)));
                    if let Some(i) = l.init {
                        lo.push(("init", self.expr(i)));
                    }
                    if let Some(e) = l.els {
                        lo.push(("else", self.block(e)));
                    }
                    stmts.push(J::Obj(lo));
                }
                hir::StmtKind::Item(_) => {}
                hir::StmtKind::Expr(e) => stmts.push(self.expr(e)),
                hir::StmtKind::Semi(e) => {
                    let mut so = self.base("semi", s.span);
                    so.push(("e", self.expr(e)));
                    stmts.push(J::Obj(so));
                }
            }
        }
        o.push(("stmts", J::Arr(stmts)));
        if let Some(e) = b.expr {
            o.push(("expr", self.expr(e)));
        }
        J::Obj(o)
    }

    pub fn expr(&self, e: &hir::Expr<'tcx>) -> J {
        use hir::ExprKind;
        match &e.kind {
            ExprKind::DropTemps(inner) | ExprKind::Use(inner, _) => return self.expr(inner),
            ExprKind::Type(inner, _) => return self.expr(inner),
            _ => {}
        }
        let kind: &'static str = match &e.kind {
            ExprKind::ConstBlock(_) => "constblock",
            ExprKind::Array(_) => "array",
            ExprKind::Call(..) => "call",
            ExprKind::MethodCall(..) => "mcall",
            ExprKind::Tup(_) => "tup",
            ExprKind::Binary(..) => "binary",
            ExprKind::Unary(..) => "unary",
            ExprKind::Lit(_) => "lit",
            ExprKind::Cast(..) => "cast",
            ExprKind::Let(_) => "letexpr",
            ExprKind::If(..) => "if",
            ExprKind::Loop(..) => "loop",
            ExprKind::Match(..) => "match",
            ExprKind::Closure(_) => "closure",
            ExprKind::Block(..) => "block",
            ExprKind::Assign(..) => "assign",
            ExprKind::AssignOp(..) => "assignop",
            ExprKind::Field(..) => "field",
            ExprKind::Index(..) => "index",
            ExprKind::Path(_) => "path",
            ExprKind::AddrOf(..) => "addrof",
            ExprKind::Break(..) => "break",
            ExprKind::Continue(_) => "continue",
            ExprKind::Ret(_) => "ret",
            ExprKind::Become(_) => "become",
            ExprKind::InlineAsm(_) => "asm",
            ExprKind::OffsetOf(..) => "offsetof",
            ExprKind::Struct(..) => "struct",
            ExprKind::Repeat(..) => "repeat",
            ExprKind::Yield(..) => "yield",
            ExprKind::UnsafeBinderCast(..) => "unsafebinder",
            ExprKind::Err(_) => "err",
            _ => "other",
        };
        if let ExprKind::Block(b, _) = &e.kind {
            let mut j = self.block(b);
            if let J::Obj(o) = &mut j {
                self.ty_of(o, e);
            }
            return j;
        }
        if let ExprKind::Lit(l) = &e.kind {
            let mut j = self.lit(l, false);
            if let J::Obj(o) = &mut j {
                let (_, line, _) = self.cx.loc(e.span);
                o.push(("l", J::Num(line)));
                self.ty_of(o, e);
            }
            return j;
        }
        let mut o = self.base(kind, e.span);
        self.ty_of(&mut o, e);
        // adjustments that matter: autoref mutability on this expression (as a receiver)
        let adj = self.tr.expr_adjustments(e);
        if !adj.is_empty() {
            let mut s = String::new();
            for a in adj {
                use rustc_middle::ty::adjustment::{Adjust, AutoBorrow};
                match &a.kind {
                    Adjust::Deref(_) => s.push('*'),
                    Adjust::Borrow(AutoBorrow::Ref(m)) => {
                        s.push_str(if matches!(m, rustc_middle::ty::adjustment::AutoBorrowMutability::Mut { .. }) {
                            "&mut"
                        } else {
                            "&"
                        })
                    }
                    Adjust::Borrow(_) => s.push_str("&raw"),
                    Adjust::Pointer(_) => s.push_str("ptr"),
                    _ => s.push('?'),
                }
            }
            o.push(("adj", J::s(s)));
        }
        match &e.kind {
            ExprKind::ConstBlock(cb) => {
                let body = self.cx.tcx.hir_body(cb.body);
                o.push(("body", self.expr(body.value)));
            }
            ExprKind::Array(xs) | ExprKind::Tup(xs) => {
                o.push(("elems", J::Arr(xs.iter().map(|x| self.expr(x)).collect())));
            }
            ExprKind::Call(f, args) => {
                o.push(("f", self.expr(f)));
                o.push(("args", J::Arr(args.iter().map(|x| self.expr(x)).collect())));
            }
            ExprKind::MethodCall(seg, recv, args, _) => {
                o.push(("name", J::s(seg.ident.name.to_string())));
                if let Some(def_id) = self.tr.type_dependent_def_id(e.hir_id) {
                    o.push(("callee", J::s(self.cx.path(def_id))));
                    let gargs = self.tr.node_args(e.hir_id);
                    if !gargs.is_empty() {
                        o.push(("gargs", J::Arr(gargs.iter().map(|a| J::s(self.garg(a))).collect())));
                    }
                    if let Some(r) = self.resolve(def_id, gargs) {
                        o.push(("resolved", J::s(r)));
                    }
                }
                o.push(("recv", self.expr(recv)));
                o.push(("args", J::Arr(args.iter().map(|x| self.expr(x)).collect())));
            }
            ExprKind::Binary(op, a, b) => {
                o.push(("op", J::s(op.node.as_str())));
                // overloaded operator?
                if let Some(def_id) = self.tr.type_dependent_def_id(e.hir_id) {
                    o.push(("callee", J::s(self.cx.path(def_id))));
                }
                o.push(("a", self.expr(a)));
                o.push(("b", self.expr(b)));
            }
            ExprKind::Unary(op, a) => {
                o.push(("op", J::s(op.as_str())));
                if let Some(def_id) = self.tr.type_dependent_def_id(e.hir_id) {
                    o.push(("callee", J::s(self.cx.path(def_id))));
                }
                o.push(("a", self.expr(a)));
            }
            ExprKind::Cast(a, _) => {
                o.push(("a", self.expr(a)));
            }
            ExprKind::Let(l) => {
                o.push(("pat", self.pat(l.pat)));
                o.push(("init", self.expr(l.init)));
            }
            ExprKind::If(c, t, f) => {
                o.push(("cond", self.expr(c)));
                o.push(("then", self.expr(t)));
                if let Some(f) = f {
                    o.push(("else", self.expr(f)));
                }
            }
            ExprKind::Loop(b, _, src, _) => {
                o.push(("src", J::s(format!("{src:?}"))));
                o.push(("body", self.block(b)));
            }
            ExprKind::Match(scrut, arms, src) => {
                o.push(("src", J::s(format!("{src:?}"))));
                o.push(("scrut", self.expr(scrut)));
                o.push((
                    "arms",
                    J::Arr(
                        arms.iter()
                            .map(|a| {
                                let mut ao = J::obj();
                                let (_, line, _) = self.cx.loc(a.span);
                                ao.push(("l", J::Num(line)));
                                ao.push(("pat", self.pat(a.pat)));
                                if let Some(g) = a.guard {
                                    ao.push(("guard", self.expr(g)));
                                }
                                ao.push(("body", self.expr(a.body)));
                                J::Obj(ao)
                            })
                            .collect(),
                    ),
                ));
            }
            ExprKind::Closure(c) => {
                let body = self.cx.tcx.hir_body(c.body);
                o.push(("def", J::s(self.cx.path(c.def_id.to_def_id()))));
                o.push(("params", J::Arr(body.params.iter().map(|p| self.pat(p.pat)).collect())));
                o.push(("body", self.expr(body.value)));
            }
            ExprKind::Assign(l, r, _) => {
                o.push(("lhs", self.expr(l)));
                o.push(("rhs", self.expr(r)));
            }
            ExprKind::AssignOp(op, l, r) => {
                o.push(("op", J::s(op.node.as_str())));
                if let Some(def_id) = self.tr.type_dependent_def_id(e.hir_id) {
                    o.push(("callee", J::s(self.cx.path(def_id))));
                }
                o.push(("lhs", self.expr(l)));
                o.push(("rhs", self.expr(r)));
            }
            ExprKind::Field(b, ident) => {
                o.push(("name", J::s(ident.name.to_string())));
                // the ADT the field belongs to (after auto-deref)
                let bt = self.tr.expr_ty_adjusted(b);
                let mut t = bt;
                loop {
                    match t.kind() {
                        rustc_middle::ty::Ref(_, inner, _) => t = *inner,
                        _ => break,
                    }
                }
                if let rustc_middle::ty::Adt(adt, _) = t.kind() {
                    o.push(("adt", J::s(self.cx.path(adt.did()))));
                }
                o.push(("base", self.expr(b)));
            }
            ExprKind::Index(b, i, _) => {
                if let Some(def_id) = self.tr.type_dependent_def_id(e.hir_id) {
                    o.push(("callee", J::s(self.cx.path(def_id))));
                }
                o.push(("base", self.expr(b)));
                o.push(("idx", self.expr(i)));
            }
            ExprKind::Path(qp) => {
                self.res(&mut o, qp, e.hir_id);
            }
            ExprKind::AddrOf(_, m, a) => {
                o.push(("mut", J::Bool(m.is_mut())));
                o.push(("a", self.expr(a)));
            }
            ExprKind::Break(_, v) => {
                if let Some(v) = v {
                    o.push(("v", self.expr(v)));
                }
            }
            ExprKind::Ret(v) => {
                if let Some(v) = v {
                    o.push(("v", self.expr(v)));
                }
            }
            ExprKind::Become(v) => {
                o.push(("v", self.expr(v)));
            }
            ExprKind::Struct(qp, fields, tail) => {
                self.res(&mut o, qp, e.hir_id);
                if let Some(t) = self.tr.expr_ty_opt(e) {
                    if let rustc_middle::ty::Adt(adt, _) = t.kind() {
                        o.push(("adt", J::s(self.cx.path(adt.did()))));
                    }
                }
                o.push((
                    "fields",
                    J::Arr(
                        fields
                            .iter()
                            .map(|f| {
                                let mut fo = J::obj();
                                fo.push(("name", J::s(f.ident.name.to_string())));
                                fo.push(("e", self.expr(f.expr)));
                                J::Obj(fo)
                            })
                            .collect(),
                    ),
                ));
                match tail {
                    hir::StructTailExpr::Base(b) => o.push(("base", self.expr(b))),
                    hir::StructTailExpr::None => {}
                    _ => o.push(("base", J::s(".."))),
                }
            }
            ExprKind::Repeat(a, _) => {
                o.push(("a", self.expr(a)));
            }
            ExprKind::Yield(a, _) => {
                o.push(("a", self.expr(a)));
            }
            _ => {}
        }
        J::Obj(o)
    }
}
