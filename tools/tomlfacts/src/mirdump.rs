//! MIR summaries: per body the CFG with, per block, events (casts, fn-item
//! mentions, closure constructions) and the terminator (call with resolved callee,
//! assert kind, switch, return ...).  Built with -Zmir-opt-level=0.

use crate::json::J;
use crate::Cx;
use rustc_hir::def::DefKind;
use rustc_middle::mir::visit::Visitor;
use rustc_middle::mir::{self, Location, Rvalue, StatementKind, TerminatorKind};
use rustc_middle::ty;

struct Mentions<'a, 'tcx> {
    cx: &'a Cx<'tcx>,
    /// (block, path, line)
    out: Vec<(usize, String, i128)>,
    body: &'a mir::Body<'tcx>,
}

impl<'a, 'tcx> Visitor<'tcx> for Mentions<'a, 'tcx> {
    fn visit_const_operand(&mut self, c: &mir::ConstOperand<'tcx>, loc: Location) {
        if let ty::FnDef(def_id, _) = *c.const_.ty().kind() {
            let span = self.body.source_info(loc).span;
            let (_, line, _) = self.cx.loc(span);
            self.out.push((loc.block.as_usize(), self.cx.path(def_id), line));
        }
    }
}

fn resolve<'tcx>(
    cx: &Cx<'tcx>,
    owner: rustc_hir::def_id::DefId,
    def_id: rustc_hir::def_id::DefId,
    args: ty::GenericArgsRef<'tcx>,
) -> Option<String> {
    use rustc_middle::ty::TypeVisitableExt;
    let tcx = cx.tcx;
    if args.has_infer() || args.has_escaping_bound_vars() {
        return None;
    }
    if !matches!(tcx.def_kind(def_id), DefKind::Fn | DefKind::AssocFn) {
        return None;
    }
    let env = ty::TypingEnv::post_analysis(tcx, owner);
    let args = tcx.erase_and_anonymize_regions(args);
    match ty::Instance::try_resolve(tcx, env, def_id, args) {
        Ok(Some(inst)) => {
            let rid = inst.def_id();
            if rid != def_id {
                Some(cx.path(rid))
            } else {
                None
            }
        }
        _ => None,
    }
}

pub fn dump_mir<'tcx>(cx: &Cx<'tcx>) -> Vec<J> {
    let tcx = cx.tcx;
    let mut out = Vec::new();
    let mut keys: Vec<_> = tcx.mir_keys(()).iter().copied().collect();
    keys.sort_by_key(|k| tcx.def_path_hash(k.to_def_id()));
    for ldid in keys {
        let def_id = ldid.to_def_id();
        let kind = tcx.def_kind(def_id);
        let body: &mir::Body<'tcx> = match kind {
            DefKind::Fn | DefKind::AssocFn | DefKind::Closure => tcx.optimized_mir(def_id),
            DefKind::Const { .. }
            | DefKind::AssocConst { .. }
            | DefKind::Static { .. }
            | DefKind::AnonConst
            | DefKind::InlineConst => tcx.mir_for_ctfe(def_id),
            _ => continue,
        };
        let (file, line, exp) = cx.loc(tcx.def_span(def_id));
        let mut o = J::obj();
        o.push(("def", J::s(cx.path(def_id))));
        o.push(("kind", J::s(format!("{kind:?}"))));
        o.push(("file", J::s(file)));
        o.push(("line", J::Num(line)));
        if exp {
            o.push(("x", J::Num(1)));
        }
        let mut m = Mentions { cx, out: Vec::new(), body };
        m.visit_body(body);
        let mentions = m.out;
        let mut blocks = Vec::new();
        for (bb, data) in body.basic_blocks.iter_enumerated() {
            let mut bo = J::obj();
            if data.is_cleanup {
                bo.push(("c", J::Num(1)));
            }
            let mut ev = Vec::new();
            for st in &data.statements {
                if let StatementKind::Assign(b) = &st.kind {
                    let (_place, rv) = &**b;
                    match rv {
                        Rvalue::Cast(ck, op, to) => {
                            let from = op.ty(&body.local_decls, tcx);
                            let (_, l, x) = cx.loc(st.source_info.span);
                            let mut e = J::obj();
                            e.push(("e", J::s("cast")));
                            e.push(("ck", J::s(format!("{ck:?}"))));
                            e.push(("from", J::s(cx.ty(from))));
                            e.push(("to", J::s(cx.ty(*to))));
                            e.push(("l", J::Num(l)));
                            if x {
                                e.push(("x", J::Num(1)));
                                if let Some(mn) = cx.macro_name(st.source_info.span) {
                                    e.push(("m", J::s(mn)));
                                }
                            }
                            ev.push(J::Obj(e));
                        }
                        Rvalue::Aggregate(ak, _) => {
                            if let mir::AggregateKind::Closure(cid, _) = &**ak {
                                let mut e = J::obj();
                                e.push(("e", J::s("closure")));
                                e.push(("path", J::s(cx.path(*cid))));
                                ev.push(J::Obj(e));
                            }
                        }
                        _ => {}
                    }
                }
            }
            for (b, p, l) in &mentions {
                if *b == bb.as_usize() {
                    let mut e = J::obj();
                    e.push(("e", J::s("fnref")));
                    e.push(("path", J::s(p.clone())));
                    e.push(("l", J::Num(*l)));
                    ev.push(J::Obj(e));
                }
            }
            bo.push(("ev", J::Arr(ev)));
            let term = data.terminator();
            let (_, tl, tx) = cx.loc(term.source_info.span);
            let mut to = J::obj();
            let mut succ: Vec<usize> = Vec::new();
            match &term.kind {
                TerminatorKind::Goto { target } => {
                    to.push(("k", J::s("goto")));
                    succ.push(target.as_usize());
                }
                TerminatorKind::SwitchInt { targets, .. } => {
                    to.push(("k", J::s("switch")));
                    for t in targets.all_targets() {
                        succ.push(t.as_usize());
                    }
                }
                TerminatorKind::Return => to.push(("k", J::s("return"))),
                TerminatorKind::Unreachable => to.push(("k", J::s("unreachable"))),
                TerminatorKind::UnwindResume => to.push(("k", J::s("resume"))),
                TerminatorKind::UnwindTerminate(_) => to.push(("k", J::s("abort"))),
                TerminatorKind::Drop { target, place, .. } => {
                    to.push(("k", J::s("drop")));
                    let pty = place.ty(&body.local_decls, tcx).ty;
                    to.push(("ty", J::s(cx.ty(pty))));
                    succ.push(target.as_usize());
                }
                TerminatorKind::Call { func, args, target, fn_span, .. } => {
                    to.push(("k", J::s("call")));
                    if let Some((cid, gargs)) = func.const_fn_def() {
                        to.push(("callee", J::s(cx.path(cid))));
                        if !gargs.is_empty() {
                            to.push(("gargs", J::Arr(gargs.iter().map(|a| J::s(cx_garg(cx, a))).collect())));
                        }
                        if let Some(r) = resolve(cx, def_id, cid, gargs) {
                            to.push(("resolved", J::s(r)));
                        }
                    } else {
                        to.push(("callee", J::Null));
                        let fty = func.ty(&body.local_decls, tcx);
                        to.push(("fty", J::s(cx.ty(fty))));
                    }
                    let mut afn = Vec::new();
                    for a in args.iter() {
                        if let Some((aid, _)) = a.node.const_fn_def() {
                            afn.push(J::s(cx.path(aid)));
                        }
                    }
                    if !afn.is_empty() {
                        to.push(("args_fn", J::Arr(afn)));
                    }
                    to.push(("nargs", J::Num(args.len() as i128)));
                    let (_, fl, _) = cx.loc(*fn_span);
                    to.push(("fl", J::Num(fl)));
                    if let Some(t) = target {
                        succ.push(t.as_usize());
                    } else {
                        to.push(("diverges", J::Bool(true)));
                    }
                }
                TerminatorKind::TailCall { func, .. } => {
                    to.push(("k", J::s("tailcall")));
                    if let Some((cid, _)) = func.const_fn_def() {
                        to.push(("callee", J::s(cx.path(cid))));
                    }
                }
                TerminatorKind::Assert { msg, target, .. } => {
                    to.push(("k", J::s("assert")));
                    let ak = match &**msg {
                        mir::AssertKind::BoundsCheck { .. } => "bounds".to_string(),
                        mir::AssertKind::Overflow(op, ..) => format!("overflow:{op:?}"),
                        mir::AssertKind::OverflowNeg(_) => "overflow:Neg".to_string(),
                        mir::AssertKind::DivisionByZero(_) => "div0".to_string(),
                        mir::AssertKind::RemainderByZero(_) => "rem0".to_string(),
                        mir::AssertKind::MisalignedPointerDereference { .. } => "misaligned".to_string(),
                        mir::AssertKind::NullPointerDereference => "nullptr".to_string(),
                        other => format!("other:{}", std::mem::discriminant(other).to_owned_string()),
                    };
                    to.push(("ak", J::s(ak)));
                    succ.push(target.as_usize());
                }
                TerminatorKind::FalseEdge { real_target, .. } => {
                    to.push(("k", J::s("goto")));
                    succ.push(real_target.as_usize());
                }
                TerminatorKind::FalseUnwind { real_target, .. } => {
                    to.push(("k", J::s("goto")));
                    succ.push(real_target.as_usize());
                }
                TerminatorKind::Yield { resume, .. } => {
                    to.push(("k", J::s("yield")));
                    succ.push(resume.as_usize());
                }
                TerminatorKind::CoroutineDrop => to.push(("k", J::s("codrop"))),
                TerminatorKind::InlineAsm { targets, .. } => {
                    to.push(("k", J::s("asm")));
                    for t in targets.iter() {
                        succ.push(t.as_usize());
                    }
                }
            }
            to.push(("l", J::Num(tl)));
            if tx {
                to.push(("x", J::Num(1)));
                if let Some(mn) = cx.macro_name(term.source_info.span) {
                    to.push(("m", J::s(mn)));
                }
            }
            bo.push(("term", J::Obj(to)));
            bo.push(("succ", J::Arr(succ.into_iter().map(|s| J::Num(s as i128)).collect())));
            blocks.push(J::Obj(bo));
        }
        o.push(("blocks", J::Arr(blocks)));
        out.push(J::Obj(o));
    }
    out
}

trait DiscName {
    fn to_owned_string(&self) -> String;
}
impl<T> DiscName for std::mem::Discriminant<T> {
    fn to_owned_string(&self) -> String {
        format!("{self:?}")
    }
}

fn cx_garg<'tcx>(cx: &Cx<'tcx>, a: ty::GenericArg<'tcx>) -> String {
    use rustc_middle::ty::print::{with_crate_prefix, with_no_trimmed_paths, with_no_visible_paths};
    let s = with_no_trimmed_paths!(with_no_visible_paths!(with_crate_prefix!(a.to_string())));
    cx.fix(s)
}
