#!/bin/bash
# usage: runfacts.sh <repo> <outdir> <config-label> [cargo feature args...]
set -e
REPO=$1; OUT=$2; CFG=$3; shift 3
mkdir -p "$OUT"
T=$(mktemp -d /tmp/tomlfacts-target.XXXXXX)
trap 'rm -rf "$T"' EXIT
cd "$REPO"
LD_LIBRARY_PATH=$(rustc +nightly --print sysroot)/lib \
RUSTFLAGS="-Zmir-opt-level=0 -Awarnings" \
RUSTC_WORKSPACE_WRAPPER=/verif/tools/tomlfacts/target/debug/tomlfacts \
CARGO_TARGET_DIR=$T TOMLFACTS_OUT=$OUT TOMLFACTS_CONFIG=$CFG \
TOMLFACTS_CRATES=toml_edit,toml,toml_write,toml_datetime,serde_spanned \
CARGO_NET_OFFLINE=true cargo +nightly check --offline "$@"
