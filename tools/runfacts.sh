#!/bin/bash
# usage: runfacts.sh <repo> <outdir> <config-label> [cargo feature args...]
# Runs `cargo +nightly check` on <repo> with the tomlfacts driver as RUSTC_WORKSPACE_WRAPPER.
# Dependencies are built once into a shared target directory; the fingerprints of the workspace
# members are deleted first so that cargo re-runs the wrapper on them for every call (cargo's
# freshness cache would otherwise replay old output and skip the driver).
set -e
REPO=$1; OUT=$2; CFG=$3; shift 3
mkdir -p "$OUT"
VERIF_DIR=$(cd "$(dirname "$0")/.." && pwd)
T="${VERIF_TARGET_DIR:-$VERIF_DIR/.cache/target-shared}"          # (the matrix runs give every worker a copy of its own: the lock below serialises the builds of one directory)
mkdir -p "$T"
exec 9>"$T/.lock"
flock 9
rm -rf "$T"/debug/.fingerprint/toml-* "$T"/debug/.fingerprint/toml_edit-* "$T"/debug/.fingerprint/toml_write-* \
       "$T"/debug/.fingerprint/toml_datetime-* "$T"/debug/.fingerprint/serde_spanned-* 2>/dev/null || true
cd "$REPO"
LD_LIBRARY_PATH=$(rustc +nightly --print sysroot)/lib \
RUSTFLAGS="-Zmir-opt-level=0 -Awarnings" \
RUSTC_WORKSPACE_WRAPPER="$VERIF_DIR/tools/tomlfacts/target/debug/tomlfacts" \
CARGO_TARGET_DIR=$T TOMLFACTS_OUT=$OUT TOMLFACTS_CONFIG=$CFG \
TOMLFACTS_CRATES=toml_edit,toml,toml_write,toml_datetime,serde_spanned \
CARGO_NET_OFFLINE=true cargo +nightly check --offline "$@"
