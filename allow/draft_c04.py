#!/usr/bin/env python3
"""One-off helper used while reviewing: drafts allow/C04-panics.json from the current inventory with a reason per
group taken from the table below (first matching row).  Groups without a matching row get reason TODO and must be
reviewed by hand; the check never calls this script."""
import json, os, sys
sys.path.insert(0, os.path.dirname(os.path.dirname(os.path.abspath(__file__))))
from verif.core import Facts
from verif.cg import CallGraph
from verif.rules_c04 import inventory

RULES = [
 # (fn contains, kind, what contains, reason)
 ('Datetime as core::str::traits::FromStr', 'assert', 'overflow', 'digit() yields 0..=9 (ASCII digits only: C12/R3b, C11/R3), so y1*1000+.., m1*10+m2, sign*(hours*60+minutes) and 10^(8-i) with i < 9 stay far inside u16 / u8 / i16 / u32'),
 ('Datetime as core::str::traits::FromStr', 'assert', 'rem0', 'year % 4 / % 100 / % 400: constant non-zero divisors'),
 ('Datetime as core::str::traits::FromStr', 'index', '', 'whole[end..] with end = index of the first non-digit byte (or len): an ASCII boundary inside `whole`'),
 ('datetime::digit', 'assert', 'overflow:Sub', 'c as u8 - b\'0\' under the is_ascii_digit() guard (C12/R3b): c >= b\'0\''),
 ('Offset as core::fmt::Display', 'assert', '', 'minutes / 60, % 60 with constant divisor; minutes *= -1 on an i16 that both parsers bound by +-1439 (C12/R1)'),
 ('next_value_seed', 'panic', '', 'serde protocol misuse only (next_value_seed before next_key_seed); serde-derived visitors always alternate key / value'),
 ('SerializeDatetime', 'panic', '', 'serializer-side (not input driven): datetimes are serialized as structs, never as maps'),
 ('TomlError as core::fmt::Display', 'assert', '', 'line + 1, column + 1, span.end - span.start on a span with start <= end produced by winnow / span merging (C14/R1); clamps checked by C15/R4'),
 ('TomlError as core::fmt::Display', 'unwrap', 'expect', 'nth(line): `line` counts the newlines before the (clamped) index of the same text, and split(\'\\n\') yields newlines + 1 pieces (C15/R4 line-lookup)'),
 ('translate_position', '', '', 'guarded by the early return on empty input and index.min(len - 1) (C15/R4): every slice bound is <= len and line_start <= index'),
 ('TomlError::new', 'unwrap', '', 'the input was a &str, so the bytes winnow hands back are valid UTF-8'),
 ('TomlError::add_key', 'vec-op', '', 'Vec::insert(0, ..): index 0 is always in bounds'),
 ('IntoIterator>::into_iter', 'unwrap', '', 'filter(is_value) / filter(is_table) precedes the unwrap of into_value() / into_table()'),
 ('InlineTable::iter', 'unwrap', '', 'filter(!is_none) precedes as_value().unwrap(); inline tables only hold values or placeholders (C07/R4)'),
 ('decorate_inline_table', 'unwrap', '', 'filter(is_value) precedes as_value_mut().unwrap()'),
 ('decorate_table', 'unwrap', '', 'filter(is_value) precedes as_value_mut().unwrap()'),
 ('InlineOccupiedEntry', 'unwrap', '', 'entry() normalises the stored item to Item::Value before building the occupied entry'),
 ('InlineVacantEntry', 'unwrap', '', 'inserts Item::Value(value) and immediately reads it back as a value'),
 ('display_repr', 'unwrap', '', 'default_repr() always carries an explicit (non-spanned) raw string, so as_raw().as_str() is Some'),
 ('DocumentMut::as_table', 'unwrap', '', 'root is constructed as Item::Table and no API replaces it by another variant'),
 ('impl core::fmt::Display for toml_edit::document::DocumentMut', 'unwrap', '', 'visit_nested_tables only fails if the callback fails; the callback pushes to a Vec and returns Ok'),
 ('encode_key_path', 'unwrap', 'expect', 'callers pass a non-empty key path (header paths and get_values() paths contain at least the leaf key)'),
 ('encode_key_path', 'assert', 'overflow:Add', 'i + 1 with i < path length'),
 ('encode_table', 'assert', 'overflow:Sub', 'len - 1 is evaluated only inside the loop over `len` children, so len >= 1'),
 ('parser::datetime::date_', 'unwrap', 'expect', 'input of s.parse::<u8 / u16>() is 2 or 4 ASCII digits (unsigned_digits::<N, N>, C01/R3): fits the integer type'),
 ('parser::datetime::time_', 'unwrap', 'expect', 'input of s.parse::<u8>() is exactly 2 ASCII digits (C01/R3): at most 99'),
 ('parser::datetime::full_date_', 'assert', 'rem0', 'constant non-zero divisors 4 / 100 / 400'),
 ('parser::datetime::time_offset', 'assert', 'overflow', 'hours <= 23, minutes <= 59 (C01/R2): hours as i16 * 60 + minutes <= 1439'),
 ('parser::datetime::time_offset', 'panic', '', 'unreachable arm: the sign byte comes from one_of((b\'+\', b\'-\')) (C01/R1)'),
 ('parser::datetime::time_secfrac', 'assert', 'overflow:Sub', 'SCALE.len() - 1 on a 10-element static'),
 ('parser::datetime::time_secfrac', 'index', '', 'repr[0..max_digits] under max_digits < repr.len(), repr is ASCII digits'),
 ('parser::document::', 'refcell', '', 'the parse state is borrowed only inside the map / try_map closures of one expression at a time; no closure re-enters the parser while holding the borrow'),
 ('parser::table::', 'refcell', '', 'borrowed only inside the try_map closure after the header has been lexed; not re-entrant'),
 ('parser::document::parse_keyval', 'unwrap', 'expect', 'key() is separated(1.., ..) (C01/R3, C05/R4): the path has at least one segment'),
 ('parser::inline_table::keyval', 'unwrap', 'expect', 'key() is separated(1.., ..): the path has at least one segment'),
 ('parser::key::key', 'unwrap', 'expect', 'first_mut / last_mut of a path produced by separated(1.., ..)'),
 ('CustomError::duplicate_key', '', '', 'called with i = path.len() - 1 on a non-empty path (debug_assert!(!path.is_empty()) in the callers; key() yields >= 1 segment): path[i], path[..i] in bounds; as_repr().unwrap() under cfg(display) on a parsed key that always carries its repr'),
 ('CustomError::extend_wrong_type', '', '', 'called with the loop index i of `for (i, key) in path.iter().enumerate()`: i < path.len() (asserted)'),
 ('parser::numbers::true_', 'assert', 'bounds', 'TRUE[0] on the constant b"true"'),
 ('parser::numbers::false_', 'assert', 'bounds', 'FALSE[0] on the constant b"false"'),
 ('parser::numbers::special_float', 'panic', '', 'unreachable arm: the sign byte comes from one_of((b\'+\', b\'-\'))'),
 ('RecursionCheck::enter', 'assert', 'overflow:Add', 'current < LIMIT (80) whenever enter succeeds; the increment happens before the comparison on a usize'),
 ('RecursionCheck::exit', 'assert', 'overflow:Sub', 'exit is paired with a successful or failed enter that already incremented (C05/R2)'),
 ('ParseState::descend_path', 'assert', 'overflow:Sub', 'array.len() - 1: arrays of tables stored in the tree are never empty (push on creation in finalize_table; debug_assert)'),
 ('ParseState::descend_path', 'unwrap', '', 'get_mut(len - 1) on a non-empty array of tables'),
 ('ParseState::descend_path', 'panic', '', 'debug_assert!(!array.is_empty()) and unreachable!() for Item::None, which the parser never stores'),
 ('ParseState::finalize_table', 'panic', 'assert', 'assert!(root.is_empty()): the root section is finalized first, before anything was attached to `root` (the state starts with current_table = root section, path empty)'),
 ('ParseState::', 'assert', 'overflow:Sub', 'path.len() - 1 on a header path with >= 1 segment (key() is separated(1.., ..); debug_assert!(!path.is_empty()))'),
 ('ParseState::', 'assert', 'overflow:Add', 'current_table_position += 1: one per header, bounded by the input length'),
 ('ParseState::', 'index', '', 'path[..len - 1] / path[len - 1] on a non-empty header path'),
 ('ParseState::', 'panic', 'assert', 'debug_assert!s on internal call order (header path non-empty, previous section finalized)'),
 ('trivia::from_utf8_unchecked', 'unwrap', 'expect', 'debug-assertion build only: the bytes are ASCII at every call site (C04/R3)'),
 ('trivia::ws_newline', 'index', '', '&b"\\n"[..]: full-range slice of a constant'),
 ('RawString::', 'panic', '', 'input.get(span) is None only for a span that is not on char boundaries of the same input; spans come from winnow on that input (C14/R1) and ImDocument keeps the source it was parsed from'),
 ('table::decorate_table', 'unwrap', '', 'filter(is_value) precedes the unwrap'),
 ('toml_write::string::write_toml_value', 'assert', 'overflow:Add', 'i + 1, seq += 1 bounded by the string length (i32 / usize)'),
 ('toml_write::string::write_toml_value', 'index', '', 'stream[0..unescaped_end], stream[end..], stream[1..]: the loop breaks only on ASCII bytes (C10/R1 fallback-bytes-ascii), so every cut is on a char boundary and <= len'),
 ('toml_write::string::write_toml_value', 'unwrap', '', 'first() after !stream.is_empty()'),
 ('toml::value::SerializeMap', 'unwrap', 'expect', 'serializer-side protocol (serialize_value before serialize_key), not input driven'),
 ('toml::value::Value as core::fmt::Display', 'unwrap', '', 'KNOWN LIMIT: Display for toml::Value unwraps serialization (fails for unsupported shapes such as a None inside Value cannot occur: Value has no None); not input driven'),
 ('toml::ser::internal::write_', 'unwrap', '', 'write! into a String cannot fail'),
 ('impl core::fmt::Display for toml::map::Map', 'unwrap', 'expect', 'serializing a Table of Values cannot hit an unsupported shape'),
 ('as core::ops::index::Index', '', '', 'Index impls panic on a missing key / index by contract (API misuse, not reachable from parsing or printing)'),
 ('Index>::index', 'index', '', 'delegation between the Index helper impls (returns Option)'),
 ('toml::value::Value::get', 'index', '', 'calls the Option-returning helper trait'),
 ('toml_edit::index::', '', '', 'Index / IndexMut impls panic on a missing key by contract (API misuse, not reachable from parsing or printing)'),
 ('validate_struct_keys', 'index', '', 'indexing a Vec of extra fields after checking it is non-empty'),
 ('Datetime::type_name', 'panic', '', 'unreachable!: both parsers only build date / time / offset combinations listed in the match (offset requires date and time)'),
 ('SerializeInlineTable as serde::ser::SerializeMap>::serialize_value', 'unwrap', '', 'serializer-side protocol (key taken before value), not input driven'),
]

def main():
    f = Facts('default'); cg = CallGraph(f)
    roots, reach, sites, where = inventory(f, cg)
    out = []
    todo = 0
    for (fn, kind, what), n in sorted(sites.items()):
        reason = None
        for a, b, c, r in RULES:
            if a in fn and (not b or b == kind) and (not c or c in what):
                reason = r; break
        if reason is None:
            reason = 'TODO'; todo += 1
        out.append({'fn': fn, 'kind': kind, 'what': what, 'count': n, 'reason': reason})
    json.dump({'comment': 'Reviewed potential panic sites reachable from the entry points (C04/R1). Key = (fn, kind, what); count = reviewed multiplicity.', 'sites': out},
              open(os.path.join(os.path.dirname(os.path.abspath(__file__)), 'C04-panics.json'), 'w'), indent=1)
    print(len(out), 'groups,', todo, 'TODO')
    for e in out:
        if e['reason'] == 'TODO': print(e)

if __name__ == '__main__':
    main()
