use serde::{Deserialize, Serialize};
use toml_write::ToTomlValue as _;
#[derive(Serialize, Deserialize, Debug, PartialEq)]
struct D { d: toml::value::Datetime }
#[derive(Serialize, Deserialize, Debug, PartialEq)]
enum E { St { a: i64 } }
#[derive(Serialize, Deserialize, Debug, PartialEq)]
#[serde(untagged)]
enum Mixed { S(String), E(E) }
#[derive(Serialize, Deserialize, Debug, PartialEq)]
struct M { v: Vec<Mixed> }
#[derive(Serialize, Deserialize, Debug, PartialEq)]
struct N { v: Vec<Option<i64>> }
fn main() {
    // F1
    println!("F1 {:?}", "a = -9e99999".parse::<toml_edit::DocumentMut>().is_err());
    println!("F1b {:?}", "a = -inf".parse::<toml_edit::DocumentMut>().is_ok());
    // F2
    let m = M { v: vec![Mixed::S("s".into()), Mixed::E(E::St { a: 4 })] };
    let s = toml_edit::ser::to_string_pretty(&m).unwrap();
    println!("F2 {s:?} plain {:?}", toml_edit::ser::to_string(&m).unwrap());
    println!("F2 toml pretty {:?}", toml::to_string_pretty(&m).unwrap());
    // F3
    let mut doc = "a = {}".parse::<toml_edit::DocumentMut>().unwrap();
    let _ = &mut doc["a"]["b"];
    let t = doc["a"].as_table_like().unwrap();
    println!("F3 len {} count {} get {:?}", t.len(), t.iter().count(), t.get("b").is_some());
    // F11
    let mut t = toml_edit::Table::new();
    let _ = &mut t["x"];
    println!("F11 {}", t.into_iter().count());
    // F4
    for s in ["24:00:00", "1979-05-27T07:32:00+24:00", "1979-05-27T07:32:00+10:99", "23:59:60", "1979-05-27T07:32:00-23:59"] {
        println!("F4 {s} standalone {:?} doc {:?}", s.parse::<toml::value::Datetime>().is_ok(), format!("a = {s}").parse::<toml_edit::DocumentMut>().is_ok());
    }
    // F5
    let d = D { d: "1979-05-27T07:32:00Z".parse().unwrap() };
    println!("F5 {:?}", toml::Value::try_from(&d));
    println!("F5b {:?}", toml::Value::try_from(&d).unwrap() == toml::to_string(&d).unwrap().parse::<toml::Value>().unwrap());
    // F6
    let v: toml::Value = "d = 1979-05-27T07:32:00Z".parse().unwrap();
    println!("F6 {:?}", v.clone().try_into::<D>());
    println!("F6b {:?}", v.clone().try_into::<toml::Value>().unwrap() == v);
    let t: toml::Table = "d = 1979-05-27T07:32:00Z".parse().unwrap();
    println!("F6c {:?}", t.try_into::<D>());
    // F7
    println!("F7 {}", toml::Value::Datetime("1979-05-27".parse().unwrap()).to_string());
    println!("F7b {}", toml::Value::Array(vec![toml::Value::Datetime("1979-05-27".parse().unwrap())]));
    // F8
    for f in [1.0f32, f32::NAN, -0.0, 0.1, f32::INFINITY, -f32::NAN, 1e20] {
        println!("F8 {}", f.to_toml_value());
    }
    // F12 (C04): 300 consecutive quotes overflowed the u8 run counters of ValueMetrics (panic with overflow checks on)
    let v: toml::Value = format!("a = '{}'", "\"".repeat(300)).parse().unwrap();
    println!("F12 printed {} bytes", v.to_string().len());
    // F10
    println!("F10 {:?} text {:?}", toml::Value::try_from(N { v: vec![Some(1), None] }), toml::to_string(&N { v: vec![Some(1), None] }));
}
