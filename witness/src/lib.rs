//! E6 — compile-fail witnesses (type-level facts), each paired with a compiling twin that differs only in the
//! offending line.  Run with `cargo +nightly test --doc` (error codes are only checked on nightly); the crate names
//! are used as an external user would.  One item per witness; the doc-test name is the item name.

/// A parsed, immutable document cannot be edited: no `as_table_mut` on `ImDocument`.
/// ```compile_fail,E0599
/// let doc: toml_edit::ImDocument<String> = "a = 1".parse().unwrap();
/// let mut doc = doc;
/// doc.as_table_mut().insert("b", toml_edit::value(2));
/// ```
pub fn w01_imdocument_is_immutable() {}

/// Twin of w01: the editable document has `as_table_mut`.
/// ```no_run
/// let doc: toml_edit::ImDocument<String> = "a = 1".parse().unwrap();
/// let mut doc = doc.into_mut();
/// doc.as_table_mut().insert("b", toml_edit::value(2));
/// ```
pub fn w01_twin() {}

/// Spans cannot be forged from outside the crate: `RawString::with_span` is crate-private.
/// ```compile_fail,E0624
/// let r = toml_edit::RawString::with_span(0..1);
/// let _ = r;
/// ```
pub fn w02_rawstring_span_is_private() {}

/// Twin of w02: explicit raw strings can be built.
/// ```no_run
/// let r = toml_edit::RawString::from("x");
/// let _ = r;
/// ```
pub fn w02_twin() {}

/// An inline table only takes values: an `Item` is not accepted by `InlineTable::insert`.
/// ```compile_fail,E0308
/// let mut t = toml_edit::InlineTable::new();
/// t.insert("k", toml_edit::Item::None);
/// ```
pub fn w03_inline_table_takes_values_only() {}

/// Twin of w03.
/// ```no_run
/// let mut t = toml_edit::InlineTable::new();
/// t.insert("k", toml_edit::Value::from(1));
/// ```
pub fn w03_twin() {}

/// An array only takes values: an `Item` is not accepted by `Array::push`.
/// ```compile_fail,E0277
/// let mut a = toml_edit::Array::new();
/// a.push(toml_edit::Item::None);
/// ```
pub fn w04_array_takes_values_only() {}

/// Twin of w04.
/// ```no_run
/// let mut a = toml_edit::Array::new();
/// a.push(1);
/// ```
pub fn w04_twin() {}

/// A default string style always exists: `as_default` is not optional.
/// ```compile_fail,E0308
/// let s: Option<toml_write::TomlString<'_>> = toml_write::TomlStringBuilder::new("x").as_default();
/// let _ = s;
/// ```
pub fn w05_default_string_style_is_total() {}

/// Twin of w05.
/// ```no_run
/// let s: toml_write::TomlString<'_> = toml_write::TomlStringBuilder::new("x").as_default();
/// let _ = s;
/// ```
pub fn w05_twin() {}

/// A default key style always exists.
/// ```compile_fail,E0308
/// let s: Option<toml_write::TomlKey<'_>> = toml_write::TomlKeyBuilder::new("x").as_default();
/// let _ = s;
/// ```
pub fn w06_default_key_style_is_total() {}

/// Twin of w06.
/// ```no_run
/// let s: toml_write::TomlKey<'_> = toml_write::TomlKeyBuilder::new("x").as_default();
/// let _ = s;
/// ```
pub fn w06_twin() {}

/// The span of a table is not writable from outside (private field).
/// ```compile_fail,E0616
/// let mut t = toml_edit::Table::new();
/// t.span = Some(0..1);
/// ```
pub fn w07_table_span_is_private() {}

/// Twin of w07: the span can be read.
/// ```no_run
/// let t = toml_edit::Table::new();
/// let _ = t.span();
/// ```
pub fn w07_twin() {}

/// The literal literal-style builder may refuse: `as_literal` is optional (a style is refused, not emitted wrongly).
/// ```compile_fail,E0308
/// let s: toml_write::TomlString<'_> = toml_write::TomlStringBuilder::new("x").as_literal();
/// let _ = s;
/// ```
pub fn w08_literal_style_may_refuse() {}

/// Twin of w08.
/// ```no_run
/// let s: Option<toml_write::TomlString<'_>> = toml_write::TomlStringBuilder::new("x").as_literal();
/// let _ = s;
/// ```
pub fn w08_twin() {}
