"""C02 — decoded data is exactly what the document says (decided part: the
value-mapping tables).  See DESIGN.md section 4, C02."""
from .core import run_property, AnalysisIncomplete, walk, peel, last_seg, calls_in, callee_all
from .den import Unanalysable, Interp, fmt_set, INF
from .abnf import Abnf
from . import parsemodel as pm
from .parsemodel import P, term, short

PROP = 'C02'

ESCAPES = {ord('b'): 0x08, ord('t'): 0x09, ord('n'): 0x0A, ord('f'): 0x0C, ord('r'): 0x0D, ord('"'): 0x22, ord('\\'): 0x5C}


def value_arg(t):
    """HIR argument of the innermost `.value(x)` adapter of a term"""
    for x in [t] + []:
        pass
    stack = [t]
    while stack:
        x = stack.pop()
        if x.get('op') == 'map' and x.get('kind') == 'value':
            return x['node']['args'][0]
        if x.get('op') == 'map':
            stack.append(x['p'])
    return None


def r1_escapes(rep, g, a):
    R = rep.rule('C02/R1', 'escape_seq_char maps every single-letter escape to the code point TOML 1.0.0 assigns', floor=7)
    facts = g.facts
    t = term(g, 'strings::escape_seq_char')
    disp = pm.find_dispatch(g, t)
    loc = facts.loc(facts.body(P + 'strings::escape_seq_char'))
    rows, _ = pm.dispatch_table(g, disp)
    for letter, cp in ESCAPES.items():
        arm = [r for r in rows if letter in r[0]]
        if not arm:
            rep.bad(R, f'escape {chr(letter)!r}', 'no dispatch arm', loc)
            continue
        va = value_arg(arm[0][1]['p'])
        try:
            got = g.ev.integer(va) if va is not None else None
        except Unanalysable:
            got = None
        rep.check(R, f'escape {chr(letter)!r}', got == cp, f'\\{chr(letter)} -> U+{cp:04X}',
                  f'escape `\\{chr(letter)}` decodes to {("U+%04X" % got) if got is not None else "an unanalysable value"}, TOML 1.0.0 says U+{cp:04X}', loc)


def r2_scalar_guard(rep, g, facts):
    R = rep.rule('C02/R2', 'unicode escapes become chars only through the checked char::from_u32; no unchecked conversion, '
                 'transmute or `as char` from a wider integer anywhere in the parser', floor=3)
    hb = facts.body(P + 'strings::hexescape')
    names = [c for n in calls_in(hb['body']) for c in callee_all(n)] + [n.get('path') for n in walk(hb['body']) if n.get('k') == 'path']
    has = any(x and (x.endswith('char>::from_u32') or x == 'core::char::from_u32' or x.endswith('::from_u32')) and 'unchecked' not in x for x in names)
    rep.check(R, 'strings::hexescape|from_u32', has, 'hexescape converts with char::from_u32 (None for surrogates / > 0x10FFFF)',
              'hexescape no longer converts through the checked char::from_u32', facts.loc(hb))
    # the None case must become an error: ok_or / ok_or_else / match on the Option inside try_map
    okor = any(n.get('k') == 'mcall' and n.get('name') in ('ok_or', 'ok_or_else') and 'Option<char>' in (peel(n['recv']).get('t') or '') for n in walk(hb['body']))
    rep.check(R, 'strings::hexescape|none-is-error', okor, 'from_u32(..).ok_or(OutOfRange) inside try_map',
              'the None result of char::from_u32 is not turned into an error', facts.loc(hb))
    bad = []
    for d, b in facts.bodies.items():
        if not d.startswith(P):
            continue
        for n in walk(b['body']):
            for c in callee_all(n) if n.get('k') in ('call', 'mcall') else []:
                if 'from_u32_unchecked' in c or 'transmute' in c or 'from_digit' in c and False:
                    bad.append((d, c, n.get('l')))
            if n.get('k') == 'cast' and n.get('t') == 'char' and (peel(n['a']).get('t') not in ('u8',)):
                bad.append((d, 'as char', n.get('l')))
    rep.check(R, 'parser|no-unchecked-char', not bad, 'no unchecked char construction in toml_edit::parser', f'unchecked char construction: {bad[:3]}')


def r3_radix(rep, g, a):
    R = rep.rule('C02/R3', 'integer: each radix prefix converts with the matching radix, the default arm parses base 10 into '
                 'i64, and each arm strips exactly `_`', floor=8)
    facts = g.facts
    t = term(g, 'numbers::integer')
    disp = pm.find_dispatch(g, t)
    loc = facts.loc(facts.body(P + 'numbers::integer'))
    exp = {a.literal('hex-prefix'): 16, a.literal('oct-prefix'): 8, a.literal('bin-prefix'): 2, None: 10}
    for arm in disp['arms']:
        try:
            bp = pm.bytes_pattern(g.ev, arm['pat'])
        except Unanalysable as e:
            rep.incomplete(R, 'numbers::integer|pattern', str(e), loc)
            continue
        if bp not in exp:
            continue
        radix = exp[bp]
        fl = [x for x in pm.filters(g, arm['p']) if x[0] == 'try_map']
        clo = pm.closure_of(fl[0][2].get('filt')) if fl else None
        key = f'numbers::integer|prefix {bp!r}'
        if clo is None:
            rep.bad(R, key + '|radix', 'no try_map closure converting the digits', loc)
            continue
        got = None
        target = None
        for n in calls_in(clo['body']):
            cs = callee_all(n)
            if any(c.endswith('from_str_radix') for c in cs):
                try:
                    got = g.ev.integer(n['args'][1])
                except Unanalysable:
                    got = None
                target = [c for c in cs if c.endswith('from_str_radix')][0]
            if n.get('k') == 'mcall' and n.get('name') == 'parse' and (n.get('gargs') or [''])[0]:
                got = 10
                target = n['gargs'][0]
        tgt_ok = target is not None and ('i64' in target)
        rep.check(R, key + '|radix', got == radix and tgt_ok, f'radix {radix} into i64',
                  f'literals with prefix {bp!r} are converted with radix {got} via `{target}`, expected radix {radix} into i64', loc)
        strips = [n for n in calls_in(clo['body']) if n.get('k') == 'mcall' and n.get('name') == 'replace']
        good = False
        if len(strips) == 1:
            s = strips[0]
            try:
                good = g.ev.integer(s['args'][0]) == ord('_') and peel(s['args'][1]).get('v') == ''
            except Unanalysable:
                good = False
        rep.check(R, key + '|strip-underscore', good, "replace('_', \"\")", 'the arm does not strip exactly the underscores before converting', loc)


def r4_special_floats(rep, g, a):
    R = rep.rule('C02/R4', 'inf -> +infinity, nan -> NaN with positive sign, sign table + / none -> f, - -> -f', floor=4)
    facts = g.facts
    va = value_arg(term(g, 'numbers::inf'))
    p = peel(va).get('path') if va else None
    rep.check(R, 'numbers::inf|value', bool(p) and p.endswith('f64>::INFINITY'), 'f64::INFINITY', f'`inf` decodes to `{p}`', facts.loc(facts.body(P + 'numbers::inf')))
    va = value_arg(term(g, 'numbers::nan'))
    ok = False
    if va:
        n = peel(va)
        if n.get('k') == 'mcall' and n.get('name') == 'copysign':
            r = peel(n['recv'])
            sgn = peel(n['args'][0])
            ok = (r.get('path') or '').endswith('f64>::NAN') and sgn.get('lk') == 'float' and float(sgn.get('v')) > 0
    rep.check(R, 'numbers::nan|value', ok, 'f64::NAN.copysign(1.0)', '`nan` does not decode to a NaN with positive sign', facts.loc(facts.body(P + 'numbers::nan')))
    loc = facts.loc(facts.body(P + 'numbers::special_float'))
    from .den import ParseValueInterp
    some = 'core::option::Option::Some'
    none = 'core::option::Option::None'
    res = {}
    try:
        sb = facts.body(P + 'numbers::special_float')
        inp = [p_['name'] for p_ in sb.get('params', []) if p_.get('k') == 'p_bind']
        for name, sgn in (('+', ('ctor', some, (ord('+'),))), ('none', ('ctor', none)), ('-', ('ctor', some, (ord('-'),)))):
            pv = ParseValueInterp(g.ev, [sgn, 7])
            r = pv.run(sb['body'], {n_: ('input',) for n_ in inp})
            res[name] = r[2][0] if isinstance(r, tuple) and len(r) == 3 and r[0] == 'ctor' and r[1].endswith('Result::Ok') else r
        rep.check(R, 'numbers::special_float|sign-table', res == {'+': 7, 'none': 7, '-': -7}, '+/none -> f, - -> -f',
                  f'sign table of special floats is {res} for f = 7', loc)
    except Unanalysable as e:
        rep.incomplete(R, 'numbers::special_float|sign-table', f'cannot tabulate: {e}', loc)
    # ordinary floats: text with `_` removed goes to str::parse::<f64>
    fb = facts.body(P + 'numbers::float')
    pf = [n for n in calls_in(fb['body']) if n.get('k') == 'mcall' and n.get('name') == 'parse']
    okp = any('f64' in (n.get('t') or '') for n in pf)
    rep.check(R, 'numbers::float|parse-f64', okp, 'replace(\'_\', "").parse::<f64>()', 'decimal floats are no longer converted by str::parse::<f64>', facts.loc(fb))


def r5_fraction(rep, g, facts):
    R = rep.rule('C02/R5', 'fractional seconds: SCALE[n] == 10^(9-n) for n = 1..=9 and digits beyond 9 are cut off (truncation)', floor=3)
    b = facts.body(P + 'datetime::time_secfrac')
    loc = facts.loc(b)
    try:
        scale = g.ev.array({'k': 'path', 'res': 'Static', 'path': P + 'datetime::time_secfrac::SCALE'})
        ok = len(scale) == 10 and all(scale[n] == 10 ** (9 - n) for n in range(1, 10))
        rep.check(R, 'time_secfrac|SCALE', ok, 'SCALE[n] == 10^(9-n)', f'SCALE table is {scale}', loc)
    except Unanalysable:
        # no such table in this tree (the scale may be computed, or spelled as a match): the values below decide
        rep.ok(R, 'time_secfrac|SCALE', 'no SCALE table; the scaling is judged on the values the conversion computes (truncate / scaling)', loc)
    # the conversion closure itself, evaluated on digit strings of 1..=14 digits: the value is the first min(n, 9) digits scaled to nanoseconds
    # (whatever the syntactic form of the truncation: `if max < len { repr = &repr[0..max] }`, `&repr[..len.min(max)]`, ...)
    from .den import FxInterp
    t = term(g, 'datetime::time_secfrac')
    fl = [x for x in pm.filters(g, t) if x[0] in ('try_map', 'verify_map', 'map')]
    clos = [pm.closure_of(x[2].get('filt')) for x in fl]
    clos = [c for c in clos if c is not None]
    if len(clos) != 1:
        rep.incomplete(R, 'time_secfrac|closure', f'{len(clos)} conversion closures found in time_secfrac (expected the one try_map)', loc)
        return
    it = FxInterp(g.ev)
    digits = '12345678987654'
    bad = None
    try:
        for n in range(1, len(digits) + 1):
            txt = digits[:n]
            r = it.apply(('closure', clos[0], {}), [txt])
            want = int(txt[:9]) * 10 ** (9 - min(n, 9))
            got = r[2][0] if isinstance(r, tuple) and len(r) == 3 and r[0] == 'ctor' and r[1].endswith('Result::Ok') else r
            if got != want and bad is None:
                bad = (txt, got, want)
    except Unanalysable as e:
        rep.incomplete(R, 'time_secfrac|truncate', f'cannot evaluate the conversion closure: {e}', loc)
        return
    rounding = [c for n in calls_in(b['body']) for c in callee_all(n) if last_seg(c) in ('round', 'ceil')]
    rep.check(R, 'time_secfrac|truncate', bad is None and not rounding, 'first min(n, 9) digits, scaled by 10^(9-n); further digits dropped',
              (f'a fraction written `.{bad[0]}` becomes {bad[1]} ns, expected {bad[2]} ns (first nine digits, truncated, scaled)' if bad else 'a rounding call appeared'), loc)
    rep.check(R, 'time_secfrac|scaling', bad is None, 'value * 10^(9 - digits)', 'the digits are no longer scaled by SCALE[number of digits]', loc)

def r6_newlines(rep, g, a):
    R = rep.rule('C02/R6', 'multi-line strings: newline content yields "\\n", line continuation yields "", CRLF is normalised '
                 'to LF in literal bodies, and the newline right after the opening delimiter is dropped in both forms', floor=5)
    facts = g.facts
    t = term(g, 'strings::mlb_content')
    alts = [x for x in g.subterms(t) if x['op'] == 'alt']
    loc = facts.loc(facts.body(P + 'strings::mlb_content'))
    want = {P + 'trivia::newline': '\n', P + 'strings::mlb_escaped_nl': ''}
    for it in (alts[0]['items'] if alts else []):
        m = g.mentions(it)
        for fn, lit in want.items():
            if m == [fn]:
                clo = None
                x = it
                while x['op'] == 'map':
                    if x['kind'] == 'map':
                        clo = pm.closure_of(x['node']['args'][0])
                    x = x['p']
                lits = [n.get('v') for n in walk(clo['body']) if n.get('k') == 'lit' and n.get('lk') == 'str'] if clo else None
                rep.check(R, f'strings::mlb_content|{last_seg(fn)}', lits == [lit], f'{last_seg(fn)} contributes {lit!r}',
                          f'{last_seg(fn)} contributes {lits} to the decoded string, expected {lit!r}', loc)
                want[fn] = None
    for fn, v in want.items():
        if v is not None:
            rep.bad(R, f'strings::mlb_content|{last_seg(fn)}', f'alternative for {last_seg(fn)} not found', loc)
    # ml literal: replace("\r\n", "\n")
    b = facts.body(P + 'strings::ml_literal_string')
    reps = [n for n in calls_in(b['body']) if n.get('k') == 'mcall' and n.get('name') == 'replace']
    ok = len(reps) == 1 and peel(reps[0]['args'][0]).get('v') == '\r\n' and peel(reps[0]['args'][1]).get('v') == '\n'
    conts = [n for n in calls_in(b['body']) if n.get('k') == 'mcall' and n.get('name') == 'contains']
    okc = all(peel(n['args'][0]).get('v') == '\r\n' for n in conts)
    rep.check(R, 'strings::ml_literal_string|crlf', ok and okc, 'replace("\\r\\n", "\\n")', 'the multi-line literal body does not normalise exactly CRLF to LF', facts.loc(b))
    # opt(newline) right after the opening delimiter
    for fn in ('strings::ml_basic_string', 'strings::ml_literal_string'):
        t = term(g, fn)
        order = []
        for x in g.subterms(t):
            if x['op'] == 'lit':
                order.append('delim')
            elif x['op'] == 'opt':
                p = x['p']
                order.append('opt(newline)' if p['op'] == 'ref' and p['fn'] == P + 'trivia::newline' else 'opt(?)')
            elif x['op'] == 'ref' and x['fn'].endswith('_body'):
                order.append('body')
        seq = [o for o in order if o != 'newline']
        rep.check(R, f'{fn}|first-newline', seq[:3] == ['delim', 'opt(newline)', 'body'], 'delim [newline] body',
                  f'`{fn}` is {seq}: the newline (LF or CRLF) following the opening delimiter is not dropped', facts.loc(facts.body(P + fn)))


def r7_storage(rep, facts):
    from .shared import order_ops
    R2 = rep.rule('C02/R7b', 'no order-breaking storage operation (swap_remove*, IndexMap::remove, sort_unstable*, swap_indices) in '
                  'toml_edit / toml library code: source order survives building the tree', floor=2)
    order_ops(rep, R2, facts)
    R = rep.rule('C02/R7', 'tables are insertion-ordered maps and arrays are vectors (source order is kept by the storage types)', floor=4)
    al = facts.aliases.get('toml_edit::table::KeyValuePairs', {}).get('ty', '')
    rep.check(R, 'KeyValuePairs', al.startswith('indexmap::map::IndexMap<toml_edit::key::Key, toml_edit::item::Item'),
              al, f'KeyValuePairs is `{al}`, not an insertion-ordered IndexMap<Key, Item>')
    for adt, field, ty in (('toml_edit::table::Table', 'items', 'indexmap::map::IndexMap<toml_edit::key::Key, toml_edit::item::Item>'),
                           ('toml_edit::inline_table::InlineTable', 'items', 'indexmap::map::IndexMap<toml_edit::key::Key, toml_edit::item::Item>'),
                           ('toml_edit::array::Array', 'values', 'alloc::vec::Vec<toml_edit::item::Item>'),
                           ('toml_edit::array_of_tables::ArrayOfTables', 'values', 'alloc::vec::Vec<toml_edit::item::Item>')):
        a = facts.adts.get(adt)
        if not a:
            rep.incomplete(R, f'{adt}.{field}', 'type not found')
            continue
        f = [x for x in a['variants'][0]['fields'] if x['name'] == field]
        got = f[0]['ty'] if f else None
        rep.check(R, f'{adt}.{field}', got is not None and got.startswith(ty.rstrip('>')), str(got), f'`{adt}.{field}` has type `{got}`, expected `{ty}`')


VISIT_EXPECT = {
    'String': 'visit_string', 'Integer': 'visit_i64', 'Float': 'visit_f64', 'Boolean': 'visit_bool', 'Datetime': 'visit_map',
    'Array': 'ArrayDeserializer', 'InlineTable': 'TableDeserializer', 'Table': 'TableDeserializer', 'ArrayOfTables': 'ArrayDeserializer',
    'None': 'visit_none',
}
VISITOR_EXPECT = {'visit_bool': 'Boolean', 'visit_i64': 'Integer', 'visit_u64': 'Integer', 'visit_u32': 'Integer', 'visit_i32': 'Integer',
                  'visit_f64': 'Float', 'visit_str': 'String', 'visit_string': 'String', 'visit_seq': 'Array'}


def deepest_variant(p):
    out = None
    for x in walk(p):
        if x.get('k') in ('p_tuplestruct', 'p_struct', 'path') and x.get('path'):
            out = x['path']
        if x.get('k') == 'p_expr' and x['e'].get('path'):
            out = x['e']['path']
    return out


def r8_serde_table(rep, facts):
    R = rep.rule('C02/R8', 'tree -> serde: every Item/Value variant reaches the visitor method of its own type; toml::Value\'s '
                 'visitor builds the variant of the same type', floor=18)
    d = "<toml_edit::de::value::ValueDeserializer as serde::de::Deserializer<'de>>::deserialize_any"
    b = facts.body(d)
    loc = facts.loc(b)
    # decided by evaluating deserialize_any on one node of every kind with the visitor calls recorded (the walk into the array / table
    # deserializers is followed); the reading of the match below is the fallback
    semantic = False
    try:
        from .den import RecInterp, EvalPanic, Evaluator
        pn = [p_['name'] for p_ in b['params'] if p_.get('k') == 'p_bind']
        V, I = 'toml_edit::value::Value::', 'toml_edit::item::Item::'
        fm = lambda x: ('struct', 'toml_edit::repr::Formatted', {'value': x, 'repr': ('opaque',), 'decor': ('opaque',)})
        box = lambda ty, field: ('struct', ty, {field: (), 'span': ('opaque',)})
        cases = {'None': (('ctor', I + 'None'), 'visit_none', None), 'String': (('ctor', I + 'Value', (('ctor', V + 'String', (fm('text'),)),)), 'visit_string', 'text'),
                 'Integer': (('ctor', I + 'Value', (('ctor', V + 'Integer', (fm(7),)),)), 'visit_i64', 7), 'Float': (('ctor', I + 'Value', (('ctor', V + 'Float', (fm(1.5),)),)), 'visit_f64', 1.5),
                 'Boolean': (('ctor', I + 'Value', (('ctor', V + 'Boolean', (fm(True),)),)), 'visit_bool', True),
                 'Datetime': (('ctor', I + 'Value', (('ctor', V + 'Datetime', (fm(('a date-time',)),)),)), 'visit_map', 'DatetimeDeserializer'),
                 'Array': (('ctor', I + 'Value', (('ctor', V + 'Array', (box('toml_edit::array::Array', 'values'),)),)), 'visit_seq', 'ArraySeqAccess'),
                 'InlineTable': (('ctor', I + 'Value', (('ctor', V + 'InlineTable', (box('toml_edit::inline_table::InlineTable', 'items'),)),)), 'visit_map', 'TableMapAccess'),
                 'Table': (('ctor', I + 'Table', (box('toml_edit::table::Table', 'items'),)), 'visit_map', 'TableMapAccess'),
                 'ArrayOfTables': (('ctor', I + 'ArrayOfTables', (box('toml_edit::array_of_tables::ArrayOfTables', 'values'),)), 'visit_seq', 'ArraySeqAccess')}
        hooks = {'visit_none', 'visit_string', 'visit_str', 'visit_borrowed_str', 'visit_i64', 'visit_u64', 'visit_f64', 'visit_bool', 'visit_map', 'visit_seq', 'visit_some', 'visit_unit',
                 'visit_enum', 'visit_newtype_struct', 'visit_i32', 'visit_u32', 'visit_f32', 'visit_char', 'visit_bytes'}
        rows = {}
        for name, (item, want_hook, want_arg) in cases.items():
            it = RecInterp(Evaluator(facts), hooks, stubs={'span': ('opaque',)})
            it.run_body(b, {pn[0]: ('struct', 'ValueDeserializer', {'input': item, 'validate_struct_keys': False}), pn[1]: ('opaque',), '@assign': {}})
            rows[name] = [(nm, (a[0] if not isinstance(a[0], tuple) else last_seg(a[0][1]) if len(a[0]) > 1 and isinstance(a[0][1], str) else a[0]) if a else None) for nm, a in it.calls]
        for name, (item, want_hook, want_arg) in cases.items():
            got = rows[name]
            ok = got == [(want_hook, want_arg)]
            rep.check(R, f'deserialize_any|{name}', ok, f'{name} -> {want_hook}({want_arg if want_arg is not None else ""})',
                      f'`{name}` is presented to serde through {got}, expected exactly {want_hook}({want_arg if want_arg is not None else ""})', loc)
        rep.ok(R, 'deserialize_any|Datetime|map-access', 'visit_map(DatetimeDeserializer::new(..)) (see the Datetime row)', loc)
        rep.ok(R, 'deserialize_any|all-variants', f'{len(cases)} node kinds evaluated', loc)
        semantic = True
    except (Unanalysable, EvalPanic, KeyError, IndexError, TypeError) as e:
        rep.notes.append(f'ValueDeserializer::deserialize_any could not be evaluated ({e}); its match is read structurally.')
    ms = [n for n in walk(b['body']) if n.get('k') == 'match' and n.get('src') == 'Normal']
    m = None
    for x in ms:
        if len(x['arms']) >= 8:
            m = x
    if semantic:
        pass
    elif m is None:
        rep.incomplete(R, 'deserialize_any|match', 'variant dispatch not found', loc)
    else:
        seen = set()
        for arm in m['arms']:
            v = last_seg(deepest_variant(arm['pat']) or '')
            seen.add(v)
            names = set()
            for n in walk(arm['body']):
                if n.get('k') == 'mcall':
                    names.add(n.get('name'))
                    if n.get('name') == 'into_deserializer':
                        names.add(last_seg((n.get('t') or '').split('<')[0]))
                if n.get('k') == 'call':
                    names.add(last_seg(strip_t((peel(n.get('f', {})).get('path') or ''))))
            exp = VISIT_EXPECT.get(v)
            visits = {x for x in names if x and x.startswith('visit_')}
            ok = exp is not None and exp in names and (visits <= {exp})
            rep.check(R, f'deserialize_any|{v}', ok, f'{v} -> {exp}', f'`{v}` is presented to serde through {sorted(visits) or sorted(names)}, expected {exp}', loc)
            if v == 'Datetime':
                okd = any('DatetimeDeserializer' in (peel(n.get('f', {})).get('path') or '') for n in walk(arm['body']) if n.get('k') == 'call')
                rep.check(R, 'deserialize_any|Datetime|map-access', okd, 'visit_map(DatetimeDeserializer::new(..))', 'Datetime is not presented through DatetimeDeserializer', loc)
        missing = set(VISIT_EXPECT) - seen
        rep.check(R, 'deserialize_any|all-variants', not missing, 'all variants dispatched', f'variants without an arm: {missing}', loc)
    for dz, meth, vis in (('toml_edit::de::array::ArrayDeserializer', 'deserialize_any', 'visit_seq'), ('toml_edit::de::table::TableDeserializer', 'deserialize_any', 'visit_map')):
        dd = f"<{dz} as serde::de::Deserializer<'de>>::{meth}"
        if not facts.has_body(dd):
            rep.incomplete(R, f'{dz}|{meth}', 'not found')
            continue
        names = {n.get('name') for n in walk(facts.body(dd)['body']) if n.get('k') == 'mcall' and (n.get('name') or '').startswith('visit_')}
        rep.check(R, f'{last_seg(dz)}|{meth}', names == {vis}, vis, f'{last_seg(dz)}::{meth} calls {names}', facts.loc(facts.body(dd)))
    pre = "<<toml::value::Value as serde::de::Deserialize<'de>>::deserialize::ValueVisitor as serde::de::Visitor<'de>>::"
    for meth, variant in VISITOR_EXPECT.items():
        if not facts.has_body(pre + meth):
            rep.incomplete(R, f'ValueVisitor|{meth}', 'not found')
            continue
        b = facts.body(pre + meth)
        ctors = {last_seg(n.get('path')) for n in walk(b['body']) if n.get('k') == 'path' and (n.get('res') or '').startswith('Ctor') and 'toml::value::Value::' in (n.get('path') or '')}
        rep.check(R, f'ValueVisitor|{meth}', ctors == {variant}, f'{meth} -> Value::{variant}', f'ValueVisitor::{meth} builds {ctors}, expected Value::{variant}', facts.loc(b))


def strip_t(p):
    return p


def bind_pattern(g, pat, t, out):
    """bind the variables of a closure parameter pattern to the named parsers at the same position of the parser term"""
    while t['op'] == 'map' and t['kind'] in ('cut', 'trace', 'context', 'backtrack'):
        t = t['p']
    k = pat.get('k')
    if k == 'p_tuple' and t['op'] == 'seq' and t.get('out') is None and len(pat['pats']) == len(t['items']):
        for pp, tt in zip(pat['pats'], t['items']):
            bind_pattern(g, pp, tt, out)
        return
    if k == 'p_bind':
        inner = t
        opt = False
        if inner['op'] == 'opt':
            opt = True
            inner = inner['p']
        while inner['op'] == 'map' and inner['kind'] in ('cut', 'trace', 'context'):
            inner = inner['p']
        if inner['op'] == 'ref':
            out[pat['name']] = ('opt:' if opt else '') + last_seg(inner['fn'])
        elif inner['op'] == 'tok':
            out[pat['name']] = 'tok'
        elif inner['op'] == 'seq':
            out[pat['name']] = 'tuple'
        return



def r9b_offset_values(rep, g, facts):
    R = rep.rule('C02/R9b', 'offset value table: `Z` / `z` decode to Offset::Z and a numeric offset to Offset::Custom { minutes: +-(60 * hh + mm) } for every '
                 'value including +00:00 and -00:00 (which are not `Z`): decided by evaluating the value time_offset computes from the outputs of its sub-parsers', floor=2)
    from .den import ParseValueInterp
    b = facts.body(P + 'datetime::time_offset')
    loc = facts.loc(b)
    inp = [p_['name'] for p_ in b.get('params', []) if p_.get('k') == 'p_bind']
    bad = None
    try:
        for z in (ord('Z'), ord('z')):
            pv = ParseValueInterp(g.ev, [z], choices=[0])
            r = pv.run(b['body'], {n_: ('input',) for n_ in inp})
            v = r[2][0] if isinstance(r, tuple) and len(r) == 3 and r[1].endswith('Result::Ok') else r
            if not (isinstance(v, tuple) and v[0] == 'ctor' and v[1].endswith('Offset::Z')) and bad is None:
                bad = (chr(z), v)
        rep.check(R, 'time_offset|Z', bad is None, 'Z / z -> Offset::Z', f'`{bad[0]}` decodes to {bad[1]}' if bad else '', loc)
        bad = None
        n = 0
        for sg, sv in ((ord('+'), 1), (ord('-'), -1)):
            for hh in (0, 7, 23):
                for mm in (0, 30, 59):
                    n += 1
                    pv = ParseValueInterp(g.ev, [sg, hh, ord(':'), mm], choices=[1])
                    r = pv.run(b['body'], {n_: ('input',) for n_ in inp})
                    v = r[2][0] if isinstance(r, tuple) and len(r) == 3 and r[1].endswith('Result::Ok') else r
                    want = sv * (60 * hh + mm)
                    okv = isinstance(v, tuple) and v[0] == 'struct' and v[1].endswith('Offset::Custom') and v[2].get('minutes') == want
                    if not okv and bad is None:
                        bad = (f'{chr(sg)}{hh:02}:{mm:02}', v, want)
        rep.check(R, 'time_offset|numeric', bad is None, f'{n} (sign, hh, mm) combinations -> Offset::Custom {{ minutes }}',
                  f'the offset `{bad[0]}` decodes to {bad[1]}, expected Offset::Custom {{ minutes: {bad[2]} }} (a numeric offset of zero is not `Z`)' if bad else '', loc)
    except Unanalysable as e:
        rep.incomplete(R, 'time_offset|numeric', f'cannot evaluate time_offset: {e}', loc)


def r9_wiring(rep, g, facts):
    R = rep.rule('C02/R9', 'date-time assembly wiring: every field of Time / Date / Datetime is initialised from the binding produced by the parser of '
                 'that field (the offset value itself is R9b)', floor=8)
    # partial_time: Time { hour, minute, second, nanosecond }
    t = term(g, 'datetime::partial_time')
    loc = facts.loc(facts.body(P + 'datetime::partial_time'))
    maps = [x for x in g.subterms(t) if x['op'] == 'map' and x['kind'] == 'map']
    want = {'hour': 'time_hour', 'minute': 'time_minute', 'second': 'time_second', 'nanosecond': 'opt:time_secfrac'}
    if maps:
        clo = pm.closure_of(maps[0]['node']['args'][0])
        b = {}
        bind_pattern(g, clo['params'][0], maps[0]['p'], b)
        st = [n for n in walk(clo['body']) if n.get('k') == 'struct' and (n.get('adt') or '').endswith('datetime::Time')]
        got = {}
        if st:
            for f in st[0]['fields']:
                vs = [x['path'] for x in walk(f['e']) if x.get('k') == 'path' and x.get('res') == 'Local']
                got[f['name']] = b.get(vs[0]) if vs else None
        for fld, fn in want.items():
            rep.check(R, f'partial_time|Time.{fld}', got.get(fld) == fn, f'{fld} <- {got.get(fld)}', f'`Time.{fld}` is filled from the result of `{got.get(fld)}`, expected `{fn}` (fields swapped)', loc)
    else:
        # written as statements (`let hour = time_hour.parse_next(input)?; let (minute, _, second, nanosecond) = cut_err((..)).parse_next(input)?; Ok(Time { .. })`):
        # each local is bound to the parser that produced it, through tuple patterns position by position
        pb = facts.body(P + 'datetime::partial_time')
        binds = {}

        def parser_name(n_):
            n_ = peel(n_)
            if n_.get('k') == 'call' and last_seg((peel(n_.get('f', {})).get('path') or '')) == 'opt' and n_.get('args'):
                inner = parser_name(n_['args'][0])
                return 'opt:' + inner if inner else None
            if n_.get('k') == 'path' and n_.get('res') in ('Fn', 'AssocFn'):
                return last_seg(n_.get('path'))
            return None
        for st_ in walk(pb['body']):
            if st_.get('k') != 'let' or 'init' not in st_:
                continue
            pat = st_['pat']
            if pat.get('k') == 'p_bind':
                names_ = [parser_name(c_) for c_ in walk(st_['init']) if c_.get('k') == 'path' and c_.get('res') in ('Fn', 'AssocFn') and last_seg(c_.get('path') or '').startswith('time_')]
                if len(names_) == 1:
                    binds[pat['name']] = names_[0]
            elif pat.get('k') == 'p_tuple':
                tups = [c_ for c_ in walk(st_['init']) if c_.get('k') == 'tup' and len(c_.get('elems', [])) == len(pat['pats'])]
                if tups:
                    for sub, el in zip(pat['pats'], tups[0]['elems']):
                        if sub.get('k') == 'p_bind':
                            binds[sub['name']] = parser_name(el)
        st = [n for n in walk(pb['body']) if n.get('k') == 'struct' and (n.get('adt') or '').endswith('datetime::Time')]
        if st and binds:
            got = {}
            for f in st[0]['fields']:
                vs = [x['path'] for x in walk(f['e']) if x.get('k') == 'path' and x.get('res') == 'Local']
                got[f['name']] = binds.get(vs[0]) if vs else None
            for fld, fn in want.items():
                rep.check(R, f'partial_time|Time.{fld}', got.get(fld) == fn, f'{fld} <- {got.get(fld)}', f'`Time.{fld}` is filled from the result of `{got.get(fld)}`, expected `{fn}` (fields swapped)', loc)
        else:
            rep.incomplete(R, 'partial_time|map', 'assembly closure not found', loc)
    # full_date_: Date { year, month, day }
    b = facts.body(P + 'datetime::full_date_')
    from .rules_c01 import binding_of_parser
    binds = {binding_of_parser(b['body'], 'date_fullyear'): 'date_fullyear', binding_of_parser(b['body'], 'date_month'): 'date_month', binding_of_parser(b['body'], 'date_mday'): 'date_mday'}
    st = [n for n in walk(b['body']) if n.get('k') == 'struct' and (n.get('adt') or '').endswith('datetime::Date')]
    want = {'year': 'date_fullyear', 'month': 'date_month', 'day': 'date_mday'}
    got = {}
    if st:
        for f in st[0]['fields']:
            vs = [x['path'] for x in walk(f['e']) if x.get('k') == 'path' and x.get('res') == 'Local']
            got[f['name']] = binds.get(vs[0]) if vs else None
    for fld, fn in want.items():
        rep.check(R, f'full_date_|Date.{fld}', got.get(fld) == fn, f'{fld} <- {got.get(fld)}', f'`Date.{fld}` is filled from `{got.get(fld)}`, expected `{fn}`', facts.loc(b))
    # date_time: (full_date, opt((time_delim, partial_time, opt(time_offset))))
    t = term(g, 'datetime::date_time')
    loc = facts.loc(facts.body(P + 'datetime::date_time'))
    alts = [x for x in g.subterms(t) if x['op'] == 'alt']
    first = alts[0]['items'][0] if alts else None
    ok = False
    detail = 'first alternative not found'
    if first is not None:
        x = first
        clo = None
        while x['op'] == 'map':
            if x['kind'] == 'map':
                clo = pm.closure_of(x['node']['args'][0])
                inner = x['p']
            x = x['p']
        if clo is not None:
            structs = [n for n in walk(clo['body']) if n.get('k') == 'struct' and (n.get('adt') or '').endswith('datetime::Datetime')]
            # the arm with a time: pattern Some((_, time, offset))
            full = [n for n in structs if all(any(y.get('k') == 'path' and y.get('res') == 'Local' for y in walk(f['e'])) for f in n['fields'])]
            names = {}
            for n in full[:1]:
                for f in n['fields']:
                    vs = [y['path'].split('#')[0] for y in walk(f['e']) if y.get('k') == 'path' and y.get('res') == 'Local']
                    names[f['name']] = vs[0] if vs else None
            seq_names = [last_seg(x['fn']) for x in g.subterms(inner) if x['op'] == 'ref']
            ok = names == {'date': 'date', 'time': 'time', 'offset': 'offset'} and seq_names[:1] == ['full_date'] and 'partial_time' in seq_names and 'time_offset' in seq_names
            detail = f'{names}, parsers {seq_names}'
    rep.check(R, 'date_time|Datetime fields', ok, detail, f'Datetime assembly changed: {detail}', loc)
    # time_offset: sign * (hours * 60 + minutes) — decided by R9b on the values the function computes


def r10_visitor_identity(rep, facts):
    R = rep.rule('C02/R10', 'the visitor that builds toml::Value from a deserializer stores every scalar it is handed unchanged: floats bit for bit (sign of zero and of '
                 'NaN included), integers and booleans as given.  Decided by evaluating the visit_* methods on representative values', floor=3)
    from .den import FloatInterp, FxInterp as _Fx, FLOAT_REPS, EvalPanic, Evaluator, Unanalysable

    class FloatFx(FloatInterp, _Fx):
        """float evaluation with assignments (`value = value.copysign(1.0)`)"""
    import math
    import struct
    pre = "<<toml::value::Value as serde::de::Deserialize<'de>>::deserialize::ValueVisitor as serde::de::Visitor<'de>>::"
    bits = lambda x: struct.pack('>d', x)
    for meth, variant, samples in (('visit_f64', 'Float', list(FLOAT_REPS.items())), ('visit_i64', 'Integer', [(str(v), v) for v in (-2 ** 63, -1, 0, 1, 2 ** 63 - 1)]),
                                   ('visit_bool', 'Boolean', [('true', True), ('false', False)])):
        d = pre + meth
        if not facts.has_body(d):
            rep.incomplete(R, meth, f'`{d}` not found')
            continue
        b = facts.body(d)
        bad = []
        try:
            for name, v in samples:
                it = FloatFx(Evaluator(facts))
                try:
                    r = it.apply_fn(b, [('self',), v])
                except EvalPanic as ex:
                    bad.append(f'{name}: panics ({ex})')
                    continue
                got = r[2][0] if isinstance(r, tuple) and r[:2] == ('ctor', 'core::result::Result::Ok') and len(r) == 3 else None
                inner = got[2][0] if isinstance(got, tuple) and got[:2] == ('ctor', 'toml::value::Value::' + variant) and len(got) == 3 else None
                same = inner is not None and type(inner) is type(v) and (bits(inner) == bits(v) if isinstance(v, float) else inner == v)
                if not same:
                    bad.append(f'{name} is stored as {inner!r}' if inner is not None else f'{name} gives {r!r}')
        except Unanalysable as e:
            rep.incomplete(R, meth, f'cannot evaluate: {e}', facts.loc(b))
            continue
        rep.check(R, meth, not bad, f'{len(samples)} values stored unchanged in Value::{variant}', f'`ValueVisitor::{meth}` alters what it was handed: {"; ".join(bad[:3])} '
                  f'(the decoded toml::Value differs from what the document says)', facts.loc(b))


def rules(rep, facts):
    feats = set(facts.crates.get('toml_edit', {}).get('features', []))
    if 'toml_edit' not in facts.crates or 'parse' not in feats:
        rep.notes.append(f'configuration {facts.config}: parser not compiled, rules skipped.')
        return
    g = pm.model(facts)
    a = Abnf()
    r1_escapes(rep, g, a)
    r2_scalar_guard(rep, g, facts)
    r3_radix(rep, g, a)
    r4_special_floats(rep, g, a)
    r5_fraction(rep, g, facts)
    r6_newlines(rep, g, a)
    r7_storage(rep, facts)
    if 'toml' in facts.crates and facts.has_body("<toml_edit::de::value::ValueDeserializer as serde::de::Deserializer<'de>>::deserialize_any"):
        r8_serde_table(rep, facts)
    r9_wiring(rep, g, facts)
    r9b_offset_values(rep, g, facts)
    if 'toml' in facts.crates and facts.has_body("<<toml::value::Value as serde::de::Deserialize<'de>>::deserialize::ValueVisitor as serde::de::Visitor<'de>>::visit_f64"):
        r10_visitor_identity(rep, facts)
    # what a string decodes to is assembled piece by piece (content runs, escapes, trimmed line continuations): every piece parser has to consume
    # exactly its ABNF production, or text meant to be trimmed becomes content (and vice versa) although the string as a whole is still accepted
    from .rules_c01 import r10_regular_language
    r10_regular_language(rep, g, a, only_prefix='strings::', rid='C02/R12')
    # the tree the parser builds for a model document equals the tree an independent decoder gives (semantic actions and parser state evaluated end to end; shared with C09/R10)
    from .rules_events import r_verdicts
    r_verdicts(rep, facts, rid='C02/R14')
    if 'toml' in facts.crates:
        r13_value_visit_map(rep, facts, facts.config)
        if facts.config == 'default':
            from .core import Facts
            r13_value_visit_map(rep, Facts('preserve_order'), 'preserve_order')
    if 'toml_datetime' in facts.crates:
        # the serde route hands every date-time over as text and reads it back with Datetime::from_str: what that parser returns is what is decoded
        from .rules_c12 import r4_truncation
        r4_truncation(rep, facts)
        rep.relabel('C12/R4', 'C02/R11', 'date-times keep every field across the serde bridge (text form re-read by the standalone parser): ')


def r13_value_visit_map(rep, facts, label):
    """toml::Value's own visitor builds the table of a map access: entry by entry, in the order the access hands them out"""
    R = rep.rule('C02/R13', 'the table that `toml::Value` builds from a map access holds exactly the entries handed out, each key with its own value, in the order read (the reference map of the '
                 'configuration: key-sorted by default, insertion-ordered under preserve_order); a repeated key is refused, an empty access is an empty table.  Evaluated on model '
                 'accesses with the keys `c`, `a`, `b` / none / `c`, `c`', floor=3)
    from .den import Evaluator, EvalPanic
    from .places import MapObj, keyname, deref, SOME, NONE
    from .dedrive import DeInterp, ok, is_ok
    d = "<<toml::value::Value as serde::de::Deserialize<'de>>::deserialize::ValueVisitor as serde::de::Visitor<'de>>::visit_map"
    if not facts.has_body(d):
        rep.incomplete(R, f'{label}|visit_map', f'`{d}` not found')
        return
    b = facts.body(d)
    sorted_ = 'preserve_order' not in set(facts.crates['toml'].get('features', []))

    class AccessInterp(DeInterp):
        def _mcall(self, e, env):
            name = e.get('name') or ''
            if name in ('next_key_seed', 'next_key', 'next_value', 'next_value_seed', 'next_entry', 'size_hint'):
                recv = deref(self.val(e['recv'], env))
                if isinstance(recv, list) and recv and recv[0] == 'map-access':
                    st = recv[1]
                    if name == 'next_key_seed':
                        seed = self.val(e['args'][0], env)
                        if st['pos'] >= len(st['pairs']):
                            return ok(('ctor', NONE))
                        st['want'] = 'value'
                        r = self.trait_like('serde::de::DeserializeSeed', seed, 'deserialize', [('prim-de', st['pairs'][st['pos']][0])])
                        return ok(('ctor', SOME, (r[2][0],))) if is_ok(r) else r
                    if name == 'next_key':
                        if st['pos'] >= len(st['pairs']):
                            return ok(('ctor', NONE))
                        st['want'] = 'value'
                        return ok(('ctor', SOME, (st['pairs'][st['pos']][0],)))
                    if name == 'next_value':
                        if st.get('want') != 'value':
                            raise EvalPanic('next_value without a key')
                        st['want'] = 'key'
                        st['pos'] += 1
                        return ok(st['pairs'][st['pos'] - 1][1])
                    if name == 'size_hint':
                        return ('ctor', SOME, (len(st['pairs']) - st['pos'],))
                    raise Unanalysable(f'`{name}` on the model map access')
            return super()._mcall(e, env)

    V = lambda k: ('elem', 'value-of-' + k)
    for keys, want in ((('c', 'a', 'b'), 'table'), ((), 'empty'), (('c', 'c'), 'refused')):
        key = f'{label}|{",".join(keys) or "no entries"}'
        acc = ['map-access', {'pairs': [(k, V(k)) for k in keys], 'pos': 0}]
        try:
            r = AccessInterp(Evaluator(facts)).apply_fn(b, [('ctor', d.split(' as ')[0].lstrip('<'), ()), acc])
        except EvalPanic as ex:
            rep.bad(R, key, f'`ValueVisitor::visit_map` panics on the keys {list(keys)}: {ex}', facts.loc(b))
            continue
        except (Unanalysable, TypeError, IndexError, KeyError, AttributeError) as ex:
            rep.incomplete(R, key, f'cannot evaluate `ValueVisitor::visit_map` on the keys {list(keys)}: {type(ex).__name__} {ex}', facts.loc(b))
            continue
        r = deref(r)
        if want == 'refused':
            rep.check(R, key, not is_ok(r), 'a repeated key is refused', f'`ValueVisitor::visit_map` accepts a map access that hands out the key `c` twice: {r!r}'[:300], facts.loc(b))
            continue
        got = None
        if is_ok(r):
            v = deref(r[2][0])
            if isinstance(v, tuple) and v[0] == 'ctor' and v[1] == 'toml::value::Value::Table':
                m = deref(v[2][0])
                m = deref(m[2].get('map')) if isinstance(m, tuple) and m[0] == 'struct' else m
                if isinstance(m, MapObj):
                    got = [(keyname(k), deref(x)) for k, x in m.pairs]
        ref = [(k, V(k)) for k in (sorted(keys) if sorted_ else keys)]
        rep.check(R, key, got == ref, f'entries {[k for k, _ in ref]} each with its own value',
                  f'`ValueVisitor::visit_map` given the entries {list(keys)} in this order builds {got if got is not None else r!r}; the {"key-sorted" if sorted_ else "insertion-ordered"} '
                  f'reference table holds {ref}'[:600], facts.loc(b))


def run(tier):
    return run_property(PROP, tier, rules, configs_thorough=['default', 'perf', 'preserve_order', 'unbounded'])
