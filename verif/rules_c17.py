"""C17 — serialization is deterministic, canonical and insensitive to map order (decided
part: the three emission passes partition the entries, values before sub-tables, stable
sort only, purity, the two formatters agree)."""
import copy

from .core import run_property, AnalysisIncomplete, walk, peel, last_seg, calls_in, callee_all, strip_generics
from .cg import CallGraph
from .den import Evaluator, Interp, Unanalysable
from .shared import order_ops
from . import serdemodel as sm

PROP = 'C17'
NONE = ('ctor', 'core::option::Option::None')
SOME = 'core::option::Option::Some'


class AVal:
    """abstract toml::Value: kind + elements"""

    def __init__(self, kind, elems=()):
        self.kind = kind
        self.elems = list(elems)

    def __repr__(self):
        if self.kind == 'array':
            return '[' + ','.join(map(repr, self.elems)) + ']'
        return self.kind


class ValueInterp(Interp):
    """pure evaluation of predicates over abstract toml::Value trees (is_table / is_array / as_array / iter / any / all / map / unwrap_or)"""

    def val(self, e, env):
        k = e.get('k')
        if k == 'closure':
            return ('closure', e, dict(env))
        if k == 'path' and e.get('res') in ('Fn', 'AssocFn') and (e.get('path') or '').startswith('toml::value::Value::'):
            return ('fnpath', last_seg(e['path']))
        if k == 'mcall':
            name = e.get('name')
            recv = self.val(e['recv'], env)
            if isinstance(recv, AVal):
                if name == 'is_table':
                    return recv.kind == 'table'
                if name == 'is_array':
                    return recv.kind == 'array'
                if name in ('is_str', 'is_integer', 'is_float', 'is_bool', 'is_datetime'):
                    return recv.kind == 'scalar'
                if name == 'as_array':
                    return ('ctor', SOME, (recv.elems,)) if recv.kind == 'array' else NONE
                if name == 'as_table':
                    return ('ctor', SOME, (recv,)) if recv.kind == 'table' else NONE
            if isinstance(recv, list):
                if name in ('iter', 'into_iter'):
                    return recv
                if name == 'is_empty':
                    return len(recv) == 0
                if name == 'len':
                    return len(recv)
                if name in ('any', 'all'):
                    f = self.val(e['args'][0], env)
                    rs = [self.call_closure(f, [x]) for x in recv]
                    return any(rs) if name == 'any' else all(rs)
            if isinstance(recv, tuple) and recv[:1] == ('ctor',):
                if name == 'map':
                    if recv == NONE:
                        return NONE
                    f = self.val(e['args'][0], env)
                    return ('ctor', SOME, (self.call_closure(f, [recv[2][0]]),))
                if name == 'unwrap_or':
                    d = self.val(e['args'][0], env)
                    return d if recv == NONE else recv[2][0]
                if name == 'is_some':
                    return recv != NONE
                if name == 'is_none':
                    return recv == NONE
                if name in ('is_some_and', 'map_or'):
                    if name == 'map_or':
                        d = self.val(e['args'][0], env)
                        f = self.val(e['args'][1], env)
                        return d if recv == NONE else self.call_closure(f, [recv[2][0]])
                    f = self.val(e['args'][0], env)
                    return False if recv == NONE else self.call_closure(f, [recv[2][0]])
        return super().val(e, env)

    def matches(self, p, v, env):
        if isinstance(v, AVal) and p.get('k') in ('p_tuplestruct', 'p_struct', 'p_expr') :
            path = p.get('path') or (p.get('e') or {}).get('path') or ''
            if path.startswith('toml::value::Value::'):
                variant = last_seg(path)
                kind = {'Array': 'array', 'Table': 'table'}.get(variant, 'scalar')
                if v.kind != kind:
                    return False
                pats = p.get('pats') or [f['pat'] for f in p.get('fields', [])]
                if pats:
                    payload = v.elems if kind == 'array' else v
                    return self.matches(pats[0], payload, env)
                return True
        if isinstance(v, AVal) and p.get('k') in ('p_ref', 'p_deref'):
            return self.matches(p['pat'], v, env)
        return super().matches(p, v, env)

    def call_closure(self, f, args):
        if isinstance(f, tuple) and f[0] == 'fnpath' and len(args) == 1 and isinstance(args[0], AVal):
            return self.val({'k': 'mcall', 'name': f[1], 'recv': {'k': 'path', 'res': 'Local', 'path': '@x'}, 'args': []}, {'@x': args[0]})
        if not (isinstance(f, tuple) and f[0] == 'closure'):
            raise Unanalysable('not a closure')
        _, node, env = f
        env = dict(env)
        for p, a in zip(node.get('params', []), args):
            if not self.matches(p, a, env):
                raise Unanalysable('closure parameter pattern')
        return self.run(node['body'], env)


KINDS = {
    'scalar': AVal('scalar'), 'empty array': AVal('array'), 'array of scalars': AVal('array', [AVal('scalar'), AVal('scalar')]),
    'array of arrays': AVal('array', [AVal('array', [AVal('scalar')])]), 'array of tables': AVal('array', [AVal('table'), AVal('table')]),
    'mixed array (scalar, table)': AVal('array', [AVal('scalar'), AVal('table')]), 'mixed array (table, scalar)': AVal('array', [AVal('table'), AVal('scalar')]),
    'table': AVal('table'),
}


def r1_passes(rep, facts, rid='C17/R1'):
    # decided first on what Serialize for Value writes for a table with one entry of every kind (evaluated); the reading of the three loops below
    # is the fallback when the function cannot be evaluated
    from .rules_c13 import r7_value_passes
    before = len(rep.violations)
    r7_value_passes(rep, facts, rid=rid)
    fresh = [v for v in rep.violations[before:] if v['kind'] == 'analysis-incomplete' and v['rule'] == rid]
    if not fresh:
        return
    rep.violations[:] = [v for v in rep.violations if v not in fresh]
    rep.rules.pop(rid, None)
    R = rep.rule(rid, 'the three emission passes of Serialize for toml::Value partition the entries: for every kind of value (scalar, empty / plain / '
                 'nested / table / mixed arrays, table) exactly one loop predicate holds, in the order values, arrays containing tables, tables', floor=9)
    d = facts.method('serde::ser::Serialize', 'toml::value::Value', 'serialize')
    b = facts.body(d)
    loc = facts.loc(b)
    # a pass = a `for` over the table's entries whose body calls serialize_entry; its predicate is the conjunction of the `filter` closures on the
    # iterated expression (followed through let bindings) and of the `if` conditions around the serialize_entry call
    from .shared import local_origins, conditions_above
    org = local_origins(b['body'])
    it = ValueInterp(Evaluator(facts))
    preds = []
    for mt in walk(b['body']):
        if mt.get('k') != 'match' or 'ForLoopDesugar' not in (mt.get('src') or ''):
            continue
        loops = [n for arm in mt['arms'] for n in walk(arm['body']) if n.get('k') == 'loop']
        if not loops:
            continue
        lp = loops[0]
        entries = [y for y in walk(lp) if y.get('k') == 'mcall' and y.get('name') == 'serialize_entry']
        if len(entries) != 1:
            continue
        # the loop variable holding the value: second binder of the `(k, v)` pattern
        vars_ = []
        for arm in [a for m2 in walk(lp) if m2.get('k') == 'match' and 'ForLoopDesugar' in (m2.get('src') or '') for a in m2['arms']]:
            bs = [p['name'] for p in walk(arm['pat']) if p.get('k') == 'p_bind']
            if len(bs) >= 2:
                vars_ = bs
        if len(vars_) < 2:
            continue
        vvar = vars_[1]
        conds = list(conditions_above(lp, entries[0]))
        # filters on the iterated expression
        expr = mt['scrut']
        filters = []
        seen = 0
        stack = [expr]
        while stack and seen < 40:
            x = stack.pop()
            seen += 1
            x = peel(x)
            if x.get('k') == 'call':
                stack.extend(x.get('args', []))
            elif x.get('k') == 'mcall':
                if x.get('name') == 'filter' and x.get('args'):
                    filters.append(peel(x['args'][0]))
                stack.append(x['recv'])
            elif x.get('k') == 'path' and x.get('res') == 'Local' and x.get('path') in org:
                stack.append(org[x['path']])

        def pred(av, conds=conds, filters=filters, vvar=vvar):
            for c in conds:
                if not it.run(c, {vvar: av}):
                    return False
            for f in filters:
                if f.get('k') != 'closure':
                    raise Unanalysable('filter argument is not a closure')
                if not it.call_closure(('closure', f, {}), [(('key',), av)]):
                    return False
            return True
        preds.append(pred)
    rep.check(R, 'passes|count', len(preds) == 3, f'{len(preds)} guarded emission loops', f'expected three guarded emission loops over the table, found {len(preds)}', loc)
    if len(preds) != 3:
        return
    expected_pass = {'scalar': 0, 'empty array': 0, 'array of scalars': 0, 'array of arrays': 0, 'array of tables': 1, 'mixed array (scalar, table)': 1,
                     'mixed array (table, scalar)': 1, 'table': 2}
    for kname, av in KINDS.items():
        try:
            hits = [i for i, pr in enumerate(preds) if pr(av)]
        except Unanalysable as e:
            rep.incomplete(R, f'kind {kname}', f'cannot evaluate the pass predicates: {e}', loc)
            continue
        rep.check(R, f'kind {kname}', hits == [expected_pass[kname]], f'emitted by pass {hits}',
                  f'a {kname} is emitted by passes {hits} (expected exactly pass {expected_pass[kname]}): ' +
                  ('the entry is silently dropped from the output' if not hits else 'the entry is emitted twice or after a table header, which changes or invalidates the document'), loc)


def r5_formatters(rep, facts):
    R = rep.rule('C17/R5', 'the two post-processing formatters (toml::fmt::DocumentFormatter, toml_edit::ser::pretty::Pretty) agree: same overridden hooks, '
                 'same promotion protocol, same decor clearing, same implicit-table rule, same array layout threshold', floor=4)
    ovs = {}
    for imp in facts.impls:
        if (imp.get('trait') or '').endswith('visit_mut::VisitMut'):
            ovs[imp['self_ty']] = {it['name']: it['def'] for it in imp['items'] if facts.has_body(it['def'])}
    a, b = 'toml::fmt::DocumentFormatter', 'toml_edit::ser::pretty::Pretty'
    if a not in ovs or b not in ovs:
        rep.notes.append(f'configuration {facts.config}: one of the formatters is not compiled; twin rule skipped.')
        return
    rep.check(R, 'hooks', set(ovs[a]) == set(ovs[b]), f'{sorted(ovs[a])}', f'DocumentFormatter overrides {sorted(ovs[a])}, Pretty overrides {sorted(ovs[b])}')
    from .rules_c07 import promotion_model
    from .den import Unanalysable as _Un, EvalPanic as _Ep
    try:
        ca, cb = promotion_model(facts, a), promotion_model(facts, b)
        rep.check(R, 'visit_item_mut|promotion on the model table', not ca and not cb, 'both promote exactly what lies outside values',
                  f'run over the model table, DocumentFormatter: {ca[:1] or "as expected"}, Pretty: {cb[:1] or "as expected"}')
    except (_Un, _Ep, TypeError, KeyError, IndexError, AttributeError, ValueError):
        sa, sb = sm.promotion_summary(facts, ovs[a]['visit_item_mut']), sm.promotion_summary(facts, ovs[b]['visit_item_mut'])
        for key in ('restores_after_recursion', 'sets_flag_from_node', 'recurses'):
            rep.check(R, f'visit_item_mut|{key}', sa[key] == sb[key] is True, f'{sa[key]} / {sb[key]}', f'promotion protocol differs on `{key}`: DocumentFormatter {sa[key]}, Pretty {sb[key]}')
        rep.check(R, 'visit_item_mut|guarded', all(g for _, g in sa['promotions']) and all(g for _, g in sb['promotions']), 'both guard the promotion', f'guards: {sa["promotions"]} / {sb["promotions"]}')

    def summary(d):
        bb = facts.body(d)
        calls = [n.get('name') for n in walk(bb['body']) if n.get('k') == 'mcall' and n.get('name') in
                 ('clear', 'set_implicit', 'is_empty', 'set_trailing', 'set_trailing_comma', 'set_prefix', 'contains', 'len')]
        lits = sorted(str(peel(x).get('v')) for n in walk(bb['body']) if n.get('k') == 'mcall' and n.get('name') in ('set_implicit', 'set_trailing', 'set_trailing_comma', 'set_prefix')
                      for x in n.get('args', []) if peel(x).get('k') == 'lit')
        rng = []
        ev = Evaluator(facts)
        for n in walk(bb['body']):
            if n.get('k') == 'mcall' and n.get('name') == 'contains':
                try:
                    rng.append(ev.range(n['recv']))
                except Unanalysable:
                    rng.append('?')
        return sorted(calls), lits, rng
    from .den import RecInterp, EvalPanic

    def effects(ty, d, n_elems, multiline):
        """what the hook does to a node with n_elems children: the recorded setter calls, in order (the formatter's own flags all false, except
        `multiline_array`, which Pretty does not have: it always lays arrays out over several lines)"""
        bb = facts.body(d)
        pn = [p_['name'] for p_ in bb.get('params', []) if p_.get('k') == 'p_bind']
        adt = facts.adts.get(ty) or {}
        fields = {f['name']: (multiline if f['name'] == 'multiline_array' else False) for v in adt.get('variants', []) for f in v.get('fields', [])}
        it = RecInterp(Evaluator(facts), {'clear', 'set_implicit', 'set_trailing', 'set_trailing_comma', 'set_prefix', 'set_suffix', 'set_dotted', 'fmt'},
                       {'visit_table_mut', 'visit_value_mut', 'visit_array_mut', 'visit_item_mut', 'visit_table_like_mut'},
                       stubs={'len': n_elems, 'is_empty': n_elems == 0, 'decor_mut': ('opaque',), 'iter_mut': tuple(('item', i) for i in range(n_elems)),
                              'get_values': tuple((('k', i), ('v', i)) for i in range(n_elems))})
        try:
            it.run_body(bb, {pn[0]: ('struct', ty, fields), pn[1]: ('struct', 'node', {}), '@assign': {}})
        except EvalPanic:
            pass
        return [(nm, tuple(x for x in args if isinstance(x, (str, bool, int)))) for nm, args in it.calls if not nm.startswith('visit_')]
    for hook in ('visit_table_mut', 'visit_value_mut', 'visit_array_mut'):
        if hook in ovs[a] and hook in ovs[b]:
            try:
                diffs = []
                for n_el in (0, 1, 2, 3):
                    x, y = effects(a, ovs[a][hook], n_el, True), effects(b, ovs[b][hook], n_el, True)
                    if x != y:
                        diffs.append(f'on a node with {n_el} children DocumentFormatter (multiline_array) does {x}, Pretty does {y}')
                rep.check(R, hook, not diffs, 'same effects on nodes with 0..3 children', f'`{hook}` differs: ' + '; '.join(diffs[:2]))
            except Unanalysable:
                x, y = summary(ovs[a][hook]), summary(ovs[b][hook])
                rep.check(R, hook, x == y, f'{x}', f'`{hook}` differs: DocumentFormatter {x}, Pretty {y}')
    # the implicit-table rule itself: a table's header is hidden exactly when the table has entries of any kind (`!node.is_empty()` on the
    # visited table): an empty table keeps its header, because it is only visible through it
    from .shared import conditions_above
    for ty in (a, b):
        d = ovs[ty].get('visit_table_mut')
        if d is None:
            continue
        bb = facts.body(d)
        params = [p.get('name') for p in bb.get('params', []) if p.get('k') == 'p_bind']
        sets = [n for n in walk(bb['body']) if n.get('k') == 'mcall' and n.get('name') == 'set_implicit']
        ok = len(sets) == 1
        how = f'{len(sets)} set_implicit call(s)'
        if ok:
            conds = conditions_above(bb['body'], sets[0])
            arg = peel(sets[0]['args'][0]) if sets[0].get('args') else {}
            ok = len(conds) == 1 and arg.get('k') == 'lit' and arg.get('v') is True
            if ok:
                c = peel(conds[0])
                inner = peel(c.get('a', {})) if c.get('k') == 'unary' and c.get('op') == '!' else {}
                recv = peel(inner.get('recv', {})) if inner.get('k') == 'mcall' and inner.get('name') == 'is_empty' else {}
                ok = recv.get('k') == 'path' and recv.get('path') in params
                how = 'set_implicit(true) under `!node.is_empty()`' if ok else 'set_implicit(true) under a different condition'
        rep.check(R, f'{ty}|implicit-iff-non-empty', ok, how, f'`{last_seg(ty)}::visit_table_mut`: {how}; the header of a table is hidden on another condition than '
                  f'"the table has entries", so an empty table disappears from the pretty output (or a header that carries values is hidden)', facts.loc(bb))


def rules(rep, facts):
    if 'toml' in facts.crates and facts.has_method('serde::ser::Serialize', 'toml::value::Value', 'serialize'):
        r1_passes(rep, facts)
    if 'toml' in facts.crates and 'toml_edit' in facts.crates and {'parse', 'serde'} <= set(facts.crates['toml_edit'].get('features', [])):
        from .rules_c13 import r3_enum_access
        from .rules_c07 import r7_forwarding
        r3_enum_access(rep, facts)
        rep.relabel('C13/R3', 'C17/R7', 'what the serializers write for enum variants is read back in every spelling: ')
        r7_forwarding(rep, facts, rid='C17/R8')
        from .rules_c13 import r1_wrappers
        r1_wrappers(rep, facts)
        rep.relabel('C13/R1', 'C17/R11', 'what to_string writes, from_str reads back through the same specialised methods (a wrapper that leaves one to deserialize_any refuses text the serializer produced): ')
        from .rules_c07 import r2c_key_stash
        from .rules_c11 import r7_widening
        r2c_key_stash(rep, facts, rid='C17/R9')
        r7_widening(rep, facts, rid='C17/R10')
        # "the text decodes to v": an entry dropped without an error (a None somewhere below the value swallowed as if the value itself were None)
        # makes the output decode to another value
        from .rules_c07 import r2_none_policy, r2b_flag_locality, r12_variant_tag
        r2_none_policy(rep, facts, prefixes=('toml_edit::ser', 'toml::ser'))       # the text serializers; the Value route (toml::value) is C07 / C13 matter
        rep.relabel('C07/R2', 'C17/R12', 'nothing is dropped from the output without an error: ')
        r2b_flag_locality(rep, facts)
        rep.relabel('C07/R2b', 'C17/R13', '')
        r12_variant_tag(rep, facts)
        rep.relabel('C07/R12', 'C17/R14', '')
        from .rules_serdeflow import r_value_serializers
        r_value_serializers(rep, facts, 'C17/R15', routes=('edit',), judge='oracle')
        from .rules_serdeflow import r_round_trip
        r_round_trip(rep, facts, 'C17/R16', routes=('edit',))
    if 'toml_write' in facts.crates:
        # "the text is valid and decodes to v" for the leaves: every string and key goes through the toml_write builders, and what they write
        # has to be a string of the grammar that decodes to the same text (seeded change C17-m16: DEL not counted as needing an escape)
        from .rules_c10 import r5_totality, r9_written_text, Abnf as _Abnf
        _a = _Abnf()
        r5_totality(rep, facts, _a)
        rep.relabel('C10/R5', 'C17/R20', 'every string or key is written in a style the grammar accepts for it: ')
        r9_written_text(rep, facts, _a)
        rep.relabel('C10/R9', 'C17/R20b', 'every string or key is written as text that reads back: ')
    if 'toml' in facts.crates:
        from .rules_c16 import map_identity
        R6 = rep.rule('C17/R6', 'the decoded text equals the value whatever order the serializer emitted the entries in: equality of toml::Map is the '
                      'backing map\'s own equality (order-insensitive for IndexMap under preserve_order)', floor=1)
        map_identity(rep, R6, facts)
    feats = set(facts.crates.get('toml_edit', {}).get('features', []))
    if 'toml_edit' in facts.crates and 'display' in feats:
        from .rules_c06 import r3_values_first, r4_purity
        r3_values_first(rep, facts)
        if 'C06/R3' in rep.rules:
            rep.rules['C17/R2'] = rep.rules.pop('C06/R3')
            for v in rep.violations:
                if v['rule'] == 'C06/R3':
                    v['rule'] = 'C17/R2'
                    v['key'] = v['key'].replace('C06/R3', 'C17/R2')
        R3 = rep.rule('C17/R3', 'stable sort only / no order-breaking operation in toml_edit and toml', floor=2)
        order_ops(rep, R3, facts)
        r4_purity(rep, facts, CallGraph(facts), rid='C17/R4')
        if 'serde' in feats:
            r5_formatters(rep, facts)


def run(tier):
    return run_property(PROP, tier, rules, configs_quick=('default', 'preserve_order'), configs_thorough=['default', 'perf', 'preserve_order', 'perf_preserve_order', 'toml_display', 'toml_display_po'])
