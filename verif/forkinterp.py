"""Path-forking abstract interpreter over a tiny value domain.

Used to decide *which shapes of a result a hand-written function can produce*: values are
True / False, SOME / NONE (an Option whose payload is irrelevant), structs of such values, and OPAQUE for
everything else (numbers, characters, iterators, results of unknown calls).  Control flow on an OPAQUE condition
forks; `?` and fallible helpers continue on the success side (the error side leaves the function with Err, which
has no shape); loops are skipped after forgetting (OPAQUE) every local they assign.  No code of the repository is
run: the typed HIR tree is walked structurally, once per path.  The result over-approximates the feasible paths
(two OPAQUE conditions that are correlated in reality are forked independently)."""
from .core import walk, peel, last_seg

OPAQUE = ('opaque',)
SOME = ('some',)
NONE = ('none',)
MAX_PATHS = 20000


class TooManyPaths(Exception):
    pass


class _Return(Exception):
    def __init__(self, v):
        self.v = v


class _Break(Exception):
    pass


class ForkInterp:
    def __init__(self):
        self.results = []
        self.paths = 0

    # ------------------------------------------------------------------
    def run(self, body, params=()):
        env = {}
        for p in params:
            for n in walk(p):
                if n.get('k') == 'p_bind':
                    env[n['name']] = OPAQUE
        self.results = []
        self.paths = 0
        # continuation-passing style nests deeply on long statement sequences: run on a thread with a large stack
        import sys
        import threading
        err = []

        def work():
            try:
                self._explore(lambda e, k: self.ev(body, e, k), env, self._finish)
            except BaseException as ex:   # noqa: reported to the caller
                err.append(ex)
        old = sys.getrecursionlimit()
        sys.setrecursionlimit(200000)
        threading.stack_size(512 * 1024 * 1024)
        t = threading.Thread(target=work)
        t.start()
        t.join()
        threading.stack_size(0)
        sys.setrecursionlimit(old)
        if err:
            raise err[0]
        return self.results

    def _finish(self, v, env):
        self.paths += 1
        if self.paths > MAX_PATHS:
            raise TooManyPaths()
        self.results.append(v)

    def _explore(self, f, env, k):
        try:
            f(env, k)
        except _Return as r:
            self._finish(r.v, env)

    # continuation-passing evaluation: ev(node, env, k) calls k(value, env) once per path
    def ev(self, e, env, k):
        if e is None:
            return k((), env)
        kind = e.get('k')
        if kind == 'block' and e.get('inl') and not e.get('_inl_seen'):
            # the body of a helper expanded at its call (verif/normalise.py): a `return` inside it continues after the call, it does not end the path
            outer = getattr(self, '_retk', None)

            def kk(v, env2):
                saved = getattr(self, '_retk', None)
                self._retk = outer
                try:
                    return k(v, env2)
                finally:
                    self._retk = saved
            self._retk = kk
            try:
                e2 = dict(e)
                e2['_inl_seen'] = True
                return self.ev(e2, env, kk)
            finally:
                self._retk = outer
        if kind == 'block':
            stmts = list(e.get('stmts', []))
            tail = e.get('expr')

            def step(i, env):
                if i == len(stmts):
                    if tail is None:
                        return k((), env)
                    return self.ev(tail, env, k)
                return self.ev(stmts[i], env, lambda _v, env2: step(i + 1, env2))
            return step(0, dict(env))
        if kind == 'semi':
            return self.ev(e['e'], env, lambda _v, env2: k((), env2))
        if kind == 'let':
            if 'init' not in e:
                env = dict(env)
                self.bind(e['pat'], OPAQUE, env)
                return k((), env)

            def after(v, env2):
                env3 = dict(env2)
                self.bind(e['pat'], v, env3)
                return k((), env3)
            return self.ev(e['init'], env, after)
        if kind == 'lit':
            if e.get('lk') == 'bool':
                return k(bool(e['v']), env)
            return k(OPAQUE, env)
        if kind == 'path':
            if e.get('res') == 'Local':
                return k(env.get(e['path'], OPAQUE), env)
            p = e.get('path') or ''
            if p.endswith('Option::None'):
                return k(NONE, env)
            return k(OPAQUE, env)
        if kind in ('addrof', 'cast', 'deref'):
            return self.ev(e.get('a') or e.get('e'), env, k)
        if kind == 'unary':
            def after(v, env2):
                if e.get('op') == '!' and isinstance(v, bool):
                    return k(not v, env2)
                if e.get('op') in ('*', 'deref'):
                    return k(v, env2)
                return k(OPAQUE, env2)
            return self.ev(e['a'], env, after)
        if kind == 'binary':
            op = e.get('op')

            def after_a(a, env2):
                if op == '&&' and a is False:
                    return k(False, env2)
                if op == '||' and a is True:
                    return k(True, env2)

                def after_b(b, env3):
                    if op == '&&':
                        if a is True:
                            return k(b if isinstance(b, bool) else OPAQUE, env3)
                        return k(False if b is False else OPAQUE, env3)
                    if op == '||':
                        if a is False:
                            return k(b if isinstance(b, bool) else OPAQUE, env3)
                        return k(True if b is True else OPAQUE, env3)
                    if op in ('==', '!=') and isinstance(a, bool) and isinstance(b, bool):
                        return k((a == b) if op == '==' else (a != b), env3)
                    if op in ('==', '!=') and a in (SOME, NONE) and b in (SOME, NONE) and NONE in (a, b):
                        # comparison with None decides; Some(x) == Some(y) does not
                        if a == NONE and b == NONE:
                            return k(op == '==', env3)
                        return k(op != '==', env3)
                    return k(OPAQUE, env3)
                return self.ev(e['b'], env2, after_b)
            return self.ev(e['a'], env, after_a)
        if kind == 'if':
            cond = e['cond']

            def branch(c, env2):
                if c is True:
                    return self.ev(e['then'], env2, k)
                if c is False:
                    return self.ev(e['else'], env2, k) if 'else' in e else k((), env2)
                self.ev(e['then'], env2, k)
                return self.ev(e['else'], env2, k) if 'else' in e else k((), env2)
            if cond.get('k') == 'letexpr':
                def after(v, env2):
                    pat = cond['pat']
                    m = self.matches(pat, v)
                    if m is True:
                        env3 = dict(env2)
                        self.bind(pat, v, env3)
                        return self.ev(e['then'], env3, k)
                    if m is False:
                        return self.ev(e['else'], env2, k) if 'else' in e else k((), env2)
                    env3 = dict(env2)
                    self.bind(pat, OPAQUE, env3)
                    self.ev(e['then'], env3, k)
                    return self.ev(e['else'], env2, k) if 'else' in e else k((), env2)
                return self.ev(cond['init'], env, after)
            return self.ev(cond, env, branch)
        if kind == 'match':
            src = e.get('src') or ''
            if 'TryDesugar' in src:
                sc = e['scrut']
                inner = sc['args'][0] if sc.get('k') == 'call' and sc.get('args') else sc
                # success side only: the error side returns Err (no shape)
                def after_try(v, env2):
                    if v == ('err',):
                        # `?` on a value known to be Err: this path leaves the function (or the expanded helper) with the error
                        retk = getattr(self, '_retk', None)
                        if retk:
                            return retk(v, env2)
                        self._finish(v, env2)
                        return None
                    return k(self.unwrap_ok(v), env2)
                return self.ev(inner, env, after_try)

            def after(v, env2):
                decided = False
                for arm in e['arms']:
                    m = self.matches(arm['pat'], v)
                    if m is False:
                        continue
                    env3 = dict(env2)
                    self.bind(arm['pat'], v if m is True else OPAQUE, env3)
                    if arm.get('guard') is not None:
                        def with_guard(g, env4, arm=arm, m=m):
                            if g is False:
                                return None
                            self.ev(arm['body'], env4, k)
                            return 'taken' if (g is True and m is True) else None
                        taken = []
                        self.ev(arm['guard'], env3, lambda g, env4, arm=arm, m=m: taken.append(with_guard(g, env4)))
                        if 'taken' in taken:
                            decided = True
                            break
                        continue
                    self.ev(arm['body'], env3, k)
                    if m is True:
                        decided = True
                        break
                return None
            return self.ev(e['scrut'], env, after)
        if kind == 'assign':
            l = peel(e['lhs'])

            def after(v, env2):
                env3 = dict(env2)
                if l.get('k') == 'path' and l.get('res') == 'Local':
                    env3[l['path']] = v
                return k((), env3)
            return self.ev(e['rhs'], env, after)
        if kind == 'assignop':
            l = peel(e['lhs'])
            env2 = dict(env)
            if l.get('k') == 'path' and l.get('res') == 'Local':
                env2[l['path']] = OPAQUE
            return k((), env2)
        if kind == 'loop':
            env2 = dict(env)
            for n in walk(e):
                if n.get('k') in ('assign', 'assignop'):
                    l = peel(n['lhs'])
                    if l.get('k') == 'path' and l.get('res') == 'Local':
                        env2[l['path']] = OPAQUE
            # a `return` inside the loop is a path of its own
            retk = getattr(self, '_retk', None)
            for n in walk(e):
                if n.get('k') == 'ret' and 'v' in n:
                    self.ev(n['v'], env2, (lambda v, env3: retk(v, env3)) if retk else (lambda v, env3: self._finish(v, env3)))
            return k((), env2)
        if kind == 'ret':
            retk = getattr(self, '_retk', None)
            if 'v' not in e:
                if retk:
                    return retk((), env)
                self._finish((), env)
                return None
            return self.ev(e['v'], env, (lambda v, env2: retk(v, env2)) if retk else (lambda v, env2: self._finish(v, env2)))
        if kind == 'break':
            return None
        if kind == 'call':
            f = peel(e.get('f', {}))
            p = f.get('path') or ''
            args = e.get('args', [])

            def with_args(vals, env2):
                if f.get('res', '').startswith('Ctor') or p.endswith('::Some') or p.endswith('::Ok') or p.endswith('::Err'):
                    if p.endswith('Option::Some'):
                        return k(SOME, env2)
                    if p.endswith('Result::Ok'):
                        return k(('ok', vals[0] if vals else ()), env2)
                    if p.endswith('Result::Err'):
                        return k(('err',), env2)
                    return k(OPAQUE, env2)
                return k(OPAQUE, env2)
            return self.ev_list(args, env, with_args)
        if kind == 'mcall':
            name = e.get('name')

            def with_recv(r, env2):
                def with_args(vals, env3):
                    if name == 'is_some' and r in (SOME, NONE):
                        return k(r == SOME, env3)
                    if name == 'is_none' and r in (SOME, NONE):
                        return k(r == NONE, env3)
                    if name in ('clone', 'as_ref', 'as_mut', 'take', 'copied', 'cloned', 'map', 'and_then') and r in (SOME, NONE):
                        return k(r if name != 'and_then' or r == NONE else OPAQUE, env3)
                    return k(OPAQUE, env3)
                return self.ev_list(e.get('args', []), env2, with_args)
            return self.ev(e['recv'], env, with_recv)
        if kind == 'struct':
            fields = e.get('fields', [])

            def with_vals(vals, env2):
                return k(('struct', last_seg(e.get('path') or ''), {f['name']: v for f, v in zip(fields, vals)}), env2)
            return self.ev_list([f['e'] for f in fields], env, with_vals)
        if kind == 'tup':
            return self.ev_list(e['elems'], env, lambda vals, env2: k(('tup', tuple(vals)), env2))
        if kind == 'field':
            def after(v, env2):
                if isinstance(v, tuple) and v and v[0] == 'struct':
                    return k(v[2].get(e.get('name'), OPAQUE), env2)
                return k(OPAQUE, env2)
            return self.ev(e['base'], env, after)
        if kind == 'closure':
            return k(OPAQUE, env)
        if kind == 'letexpr':
            return self.ev(e['init'], env, lambda v, env2: k(OPAQUE, env2))
        # index, array, range, ... : evaluate nothing, opaque
        return k(OPAQUE, env)

    def ev_list(self, items, env, k):
        def step(i, acc, env2):
            if i == len(items):
                return k(acc, env2)
            return self.ev(items[i], env2, lambda v, env3: step(i + 1, acc + [v], env3))
        return step(0, [], env)

    @staticmethod
    def unwrap_ok(v):
        if isinstance(v, tuple) and v and v[0] == 'ok':
            return v[1]
        return OPAQUE

    # ------------------------------------------------------------------ patterns
    def matches(self, p, v):
        """True / False / None (unknown)"""
        k = p.get('k')
        if k in ('p_wild', 'p_bind') and 'sub' not in p:
            return True
        if k == 'p_bind':
            return self.matches(p['sub'], v)
        path = p.get('path') or ''
        if k in ('p_tuplestruct', 'p_struct', 'p_path'):
            if path.endswith('Option::Some'):
                return True if v == SOME else False if v == NONE else None
            if path.endswith('Option::None'):
                return True if v == NONE else False if v == SOME else None
            return None
        if k == 'p_expr':
            e = p['e']
            if e.get('k') == 'lit' and e.get('lk') == 'bool' and isinstance(v, bool):
                return bool(e['v']) == v
            if e.get('k') == 'path' and (e.get('path') or '').endswith('Option::None'):
                return True if v == NONE else False if v == SOME else None
            return None
        if k == 'p_tuple':
            if isinstance(v, tuple) and v and v[0] == 'tup' and len(v[1]) == len(p.get('pats', [])):
                rs = [self.matches(pp, vv) for pp, vv in zip(p['pats'], v[1])]
                if any(r is False for r in rs):
                    return False
                return True if all(r is True for r in rs) else None
            return None
        if k == 'p_or':
            rs = [self.matches(x, v) for x in p['pats']]
            if any(r is True for r in rs):
                return True
            return False if all(r is False for r in rs) else None
        return None

    def bind(self, p, v, env):
        k = p.get('k')
        if k == 'p_bind':
            env[p['name']] = v
            if 'sub' in p:
                self.bind(p['sub'], v, env)
            return
        if k == 'p_tuple' and isinstance(v, tuple) and v and v[0] == 'tup' and len(v[1]) == len(p.get('pats', [])):
            for pp, vv in zip(p['pats'], v[1]):
                self.bind(pp, vv, env)
            return
        if k == 'p_struct' and isinstance(v, tuple) and v and v[0] == 'struct':
            for f in p.get('fields', []):
                self.bind(f['pat'], v[2].get(f['name'], OPAQUE), env)
            return
        if k in ('p_ref', 'p_deref') and 'pat' in p:
            return self.bind(p['pat'], v, env)
        for n in walk(p):
            if n.get('k') == 'p_bind':
                env[n['name']] = OPAQUE


def option_shape(v, fields):
    """('S'|'N'|'?') per field of a struct value"""
    if isinstance(v, tuple) and v and v[0] == 'ok':
        v = v[1]
    if not (isinstance(v, tuple) and v and v[0] == 'struct'):
        return None
    out = []
    for f in fields:
        x = v[2].get(f, OPAQUE)
        out.append('S' if x == SOME else 'N' if x == NONE else '?')
    return tuple(out)
