"""G-IR: the combinator model.  Every function of `toml_edit::parser` is turned into a
grammar term from its typed HIR (resolved paths, so renamed imports do not matter).

The summaries of winnow's combinators encoded here are those of its documentation:

  take_while(m..=n, C)  m..n bytes from class C          one_of(C) / none_of(C) / any   one byte
  literal (u8, &[u8], &str, char used as a parser)        take(n) n arbitrary bytes      rest  everything
  (a, b, ..) / preceded / terminated / delimited / separated_pair   sequence (output = marked member)
  alt((a, b, ..))  ordered choice       opt(p)  p or nothing      peek(p)/not(p)  no consumption
  repeat(m..n, p) / separated(m..n, p, sep)    cut_err(p)  p (error kind only)   eof / empty / fail
  p.map / value / void / span / with_span / context / trace / by_ref     same language as p
  p.take()   output = consumed slice      p.verify / try_map / verify_map   filter on p's output
  p.and_then(q)   q runs on p's output slice
A parser parameter or an unmodelled construct is TOP; TOP reaching a rule's question makes
that rule fail closed."""
from .core import walk, peel, last_seg, callee_all, AnalysisIncomplete
from .den import Evaluator, Unanalysable, INF, ALL

PARSER_TRAIT = 'winnow::parser::Parser::'
SAME_LANG = {'map', 'value', 'void', 'span', 'with_span', 'context', 'by_ref', 'default_value', 'output_into',
             'err_into', 'complete_err'}
FILTERS = {'verify', 'try_map', 'verify_map', 'parse_to'}


def T(op, **kw):
    kw['op'] = op
    return kw


class Gir:
    def __init__(self, facts, prefix='toml_edit::parser::'):
        self.facts = facts
        self.ev = Evaluator(facts)
        self.prefix = prefix
        self.terms = {}
        self.fn_inputs = {}
        self.errors = []
        for d, b in facts.bodies.items():
            if d.startswith(prefix) and b['kind'] in ('Fn', 'AssocFn') and '::test::' not in d:
                self.terms[d] = None
        for d in list(self.terms):
            self.terms[d] = self.fn_term(d)

    # ------------------------------------------------------------------ conversion
    def is_parser_fn(self, d):
        f = self.facts.fns.get(d)
        if not f:
            return False
        out = f.get('output', '')
        return ('ErrMode' in out and 'Result' in out) or 'impl winnow::parser::Parser' in out or 'Parser<' in out

    def fn_term(self, d):
        b = self.facts.bodies[d]
        params = b.get('params', [])
        inputs = set()
        pparams = {}
        f = self.facts.fns.get(d, {})
        for i, p in enumerate(params):
            if p.get('k') == 'p_bind':
                t = p.get('t', '')
                if 'Stateful<' in t and t.startswith('&mut'):
                    inputs.add(p['name'])
                elif 'impl winnow::parser::Parser' in t or 'impl Parser' in t or 'ModalParser' in t:
                    pparams[p['name']] = T('param', name=p['name'])
        ctx = {'inputs': inputs, 'env': dict(pparams), 'fn': d}
        body = b['body']
        out = f.get('output', '')
        if inputs:
            return self.stmt(body, ctx)
        if 'Parser' in out:
            # function returning a parser (closure capturing state)
            return self.conv(body, ctx)
        return None

    def conv(self, e, ctx):
        """expression in parser position -> term"""
        e = peel(e)
        k = e.get('k')
        l = e.get('l')
        if k == 'block':
            # block evaluating to a parser: { <stmts>; expr }
            if e.get('expr') is not None:
                if e.get('stmts') and (e.get('inl') or all(peel(st_).get('k') == 'let' for st_ in e['stmts'])):
                    # a helper expanded at its call (verif/normalise.py): `let param = <argument>;` binds the helper's parser parameters to the caller's parsers
                    ctx = dict(ctx, env=dict(ctx['env']))
                    for st in e['stmts']:
                        st = peel(st)
                        if st.get('k') == 'let' and st.get('init') is not None and (st.get('pat') or {}).get('k') == 'p_bind':
                            ctx['vals'] = dict(ctx.get('vals') or {})
                            ctx['vals'][st['pat']['name']] = st['init']          # (a byte class or a number held in a local of the helper)
                            ty_ = st['pat'].get('t') or st['init'].get('t') or ''
                            if 'Parser' in ty_ or 'ErrMode' in ty_ or 'fn(' in ty_ or peel(st['init']).get('k') in ('mcall', 'closure', 'path', 'call', 'tup'):
                                try:
                                    ctx['env'][st['pat']['name']] = self.conv(st['init'], ctx)
                                except Exception:
                                    pass
                return self.conv(e['expr'], ctx)
            return T('top', why='block without value', l=l)
        if k == 'mcall':
            names = callee_all(e)
            name = e.get('name')
            is_parser_method = any(n.startswith(PARSER_TRAIT) for n in names)
            if is_parser_method or name in ('parse_next',):
                recv = self.conv(e['recv'], ctx)
                if name == 'parse_next' or name == 'parse_peek':
                    return recv
                if name in SAME_LANG:
                    return T('map', kind=name, p=recv, node=e, l=l)
                if name == 'take' or name == 'recognize':
                    return T('map', kind='take', p=recv, node=e, l=l)
                if name in FILTERS:
                    return T('map', kind=name, p=recv, node=e, l=l, filt=e['args'][0] if e.get('args') else None)
                if name == 'and_then':
                    return T('and_then', p=recv, q=self.conv(e['args'][0], ctx), node=e, l=l)
                if name == 'flat_map':
                    return T('seq', items=[recv, T('top', why='flat_map', l=l)], out=None, l=l)
                return T('top', why=f'unmodelled Parser method `{name}`', l=l)
            return T('top', why=f'method `{name}` in parser position', l=l)
        if k == 'call':
            f = peel(e.get('f', {}))
            p = f.get('path') or ''
            seg = last_seg(p)
            args = e.get('args', [])
            if p.startswith('winnow::'):
                return self.winnow_call(seg, p, args, e, ctx)
            if seg == 'check_recursion' and p.startswith(self.prefix):
                return T('checkrec', p=self.conv(args[0], ctx), node=e, l=l)
            if p.startswith(self.prefix) or p in self.terms:
                # local function returning a parser; parser-typed arguments are converted
                cargs = []
                for a in args:
                    t = (a.get('t') or '')
                    if 'Parser' in t or 'winnow::' in t and 'RefCell' not in t:
                        cargs.append(self.conv(a, ctx))
                    else:
                        cargs.append(None)
                return T('call', fn=p, args=cargs, gargs=f.get('args'), node=e, l=l)
            return T('top', why=f'call of `{p}` in parser position', l=l)
        if k == 'path':
            res = e.get('res', '')
            p = e.get('path', '')
            if res in ('Fn', 'AssocFn'):
                if p.startswith('winnow::'):
                    return self.winnow_call(last_seg(p), p, None, e, ctx)
                return T('ref', fn=p, gargs=e.get('args'), l=l)
            if res == 'Local':
                if p in ctx['env']:
                    return ctx['env'][p]
                return T('param', name=p, l=l)
            if res.startswith('Const') or res.startswith('Static') or res.startswith('AssocConst'):
                return self.literal(e, ctx)
            return T('top', why=f'path `{p}` ({res}) in parser position', l=l)
        if k == 'tup':
            return T('seq', items=[self.conv(x, ctx) for x in e['elems']], out=None, l=l)
        if k in ('lit', 'index', 'cast'):
            return self.literal(e, ctx)
        if k == 'closure':
            params = e.get('params', [])
            inputs = set(ctx['inputs'])
            for p in params:
                if p.get('k') == 'p_bind' and 'Stateful<' in (p.get('t') or ''):
                    inputs.add(p['name'])
            c2 = {'inputs': inputs, 'env': dict(ctx['env']), 'fn': ctx['fn']}
            return T('map', kind='scope', p=self.stmt(e['body'], c2), node=e, l=l)
        return T('top', why=f'`{k}` in parser position', l=l)

    def literal(self, e, ctx):
        t = e.get('t') or ''
        try:
            if t == 'u8' or t == 'char':
                v = self.ev.integer(e)
                return T('lit', bytes=(v,), l=e.get('l'), node=e)
            return T('lit', bytes=self.ev.bytes(e), l=e.get('l'), node=e)
        except Unanalysable as ex:
            return T('top', why=f'literal: {ex}', l=e.get('l'))

    def cls(self, e, l, ctx=None):
        try:
            # (a class held in a local — `let digits = DIGIT;` of an expanded helper — is the class it was bound to)
            return self.ev.byteset(e, (ctx or {}).get('vals'))
        except Unanalysable as ex:
            self.errors.append((l, str(ex)))
            return None

    def rng(self, e, env=None):
        try:
            return self.ev.range(e, env)
        except Unanalysable as ex:
            # symbolic (const generic) bounds stay symbolic
            return ('sym', e)

    def winnow_call(self, seg, p, args, e, ctx):
        l = e.get('l')
        if args is None:
            # bare function item used as a parser: any, rest, eof, empty, fail
            if seg == 'any':
                return T('tok', min=1, max=1, set=ALL, kind='any', l=l, node=e)
            if seg == 'rest':
                return T('tok', min=0, max=INF, set=ALL, kind='rest', l=l, node=e)
            if seg == 'eof':
                return T('eof', l=l)
            if seg == 'empty':
                return T('empty', l=l)
            if seg == 'fail':
                return T('fail', l=l)
            return T('top', why=f'winnow item `{p}`', l=l)
        if seg == 'take_while':
            r = self.rng(args[0])
            s = self.cls(args[1], l, ctx)
            if s is None:
                return T('top', why='unanalysable class', l=l)
            if r and r[0] == 'sym':
                return T('tok', min=('sym', r[1]), max=('sym', r[1]), set=s, kind='take_while', l=l, node=e, rng=r[1])
            return T('tok', min=r[0], max=r[1], set=s, kind='take_while', l=l, node=e)
        if seg in ('take_till', 'take_until'):
            return T('tok', min=0, max=INF, set=ALL, kind=seg, l=l, node=e)
        if seg == 'one_of':
            s = self.cls(args[0], l, ctx)
            if s is None:
                return T('top', why='unanalysable class', l=l)
            return T('tok', min=1, max=1, set=s, kind='one_of', l=l, node=e)
        if seg == 'none_of':
            s = self.cls(args[0], l, ctx)
            if s is None:
                return T('top', why='unanalysable class', l=l)
            return T('tok', min=1, max=1, set=ALL - s, kind='none_of', l=l, node=e, excl=s)
        if seg == 'take':
            try:
                n = self.ev.integer(args[0])
            except Unanalysable:
                return T('top', why='take(n) with unknown n', l=l)
            return T('tok', min=n, max=n, set=ALL, kind='take', l=l, node=e)
        if seg == 'literal':
            return self.literal(args[0], ctx)
        if seg == 'alt':
            inner = peel(args[0])
            if inner.get('k') in ('tup', 'array'):
                return T('alt', items=[self.conv(x, ctx) for x in inner['elems']], l=l, node=e)
            return T('top', why='alt over non-tuple', l=l)
        if seg == 'opt':
            return T('opt', p=self.conv(args[0], ctx), l=l)
        if seg == 'peek':
            return T('peek', p=self.conv(args[0], ctx), l=l)
        if seg == 'not':
            return T('not', p=self.conv(args[0], ctx), l=l)
        if seg == 'cut_err':
            return T('map', kind='cut', p=self.conv(args[0], ctx), node=e, l=l)
        if seg == 'backtrack_err':
            return T('map', kind='backtrack', p=self.conv(args[0], ctx), node=e, l=l)
        if seg == 'trace':
            return T('map', kind='trace', p=self.conv(args[1], ctx), node=e, l=l)
        if seg == 'preceded':
            return T('seq', items=[self.conv(args[0], ctx), self.conv(args[1], ctx)], out=1, l=l)
        if seg == 'terminated':
            return T('seq', items=[self.conv(args[0], ctx), self.conv(args[1], ctx)], out=0, l=l)
        if seg == 'delimited':
            return T('seq', items=[self.conv(a, ctx) for a in args[:3]], out=1, l=l)
        if seg == 'separated_pair':
            return T('seq', items=[self.conv(a, ctx) for a in args[:3]], out=None, l=l)
        if seg == 'repeat':
            r = self.rng(args[0])
            if r[0] == 'sym':
                return T('top', why='repeat with symbolic bounds', l=l)
            return T('rep', min=r[0], max=r[1], p=self.conv(args[1], ctx), l=l, node=e)
        if seg in ('separated', 'separated_foldl1', 'separated_foldr1'):
            r = self.rng(args[0])
            if r[0] == 'sym':
                return T('top', why='separated with symbolic bounds', l=l)
            return T('sep', min=r[0], max=r[1], p=self.conv(args[1], ctx), sep=self.conv(args[2], ctx), l=l, node=e)
        if seg == 'repeat_till':
            r = self.rng(args[0])
            return T('seq', items=[T('rep', min=0, max=INF, p=self.conv(args[1], ctx), l=l), self.conv(args[2], ctx)], out=None, l=l)
        if seg in ('eof', 'empty', 'fail', 'any', 'rest'):
            return self.winnow_call(seg, p, None, e, ctx)
        return T('top', why=f'unmodelled winnow combinator `{p}`', l=l)

    # statement-form bodies -------------------------------------------------
    def is_input(self, e, ctx):
        e = peel(e)
        return e.get('k') == 'path' and e.get('res') == 'Local' and e.get('path') in ctx['inputs']

    @staticmethod
    def _early_return_recovery(stmts):
        """`let res = p.parse_next(input); if !matches!(res, Err(Backtrack(_))) { return res; } input.reset(..); q ...`
        = ordered choice between p and what follows.  Returns (index of the let, index of the if) or None."""
        for i, s in enumerate(stmts):
            if s.get('k') != 'let' or (s.get('pat') or {}).get('k') != 'p_bind' or 'init' not in s:
                continue
            if 'core::result::Result<' not in ((s['pat'].get('t') or '') + (s['init'].get('t') or '')):
                continue
            if s['init'].get('k') == 'match' and 'TryDesugar' in (s['init'].get('src') or ''):
                continue
            name = s['pat']['name']
            for j in range(i + 1, len(stmts)):
                sj = stmts[j]
                while sj.get('k') == 'semi':
                    sj = sj['e']
                if sj.get('k') != 'if' or 'else' in sj:
                    continue
                then = sj['then']
                rets = [n for n in walk(then) if n.get('k') == 'ret']
                if len(rets) != 1 or 'v' not in rets[0]:
                    continue
                rv = peel(rets[0]['v'])
                if not (rv.get('k') == 'path' and rv.get('path') == name):
                    continue
                cond_nodes = list(walk(sj['cond']))
                mentions = any(n.get('k') == 'path' and n.get('path') == name for n in cond_nodes)
                backtrack = any('Backtrack' in (n.get('path') or '') for n in cond_nodes)
                if mentions and backtrack:
                    return i, j
        return None

    def stmt(self, e, ctx):
        """term of an expression evaluated for its effect on the input stream"""
        if e is None:
            return T('empty')
        k = e.get('k')
        l = e.get('l')
        if k == 'block':
            items = []
            stmts = e.get('stmts', [])
            rec = self._early_return_recovery(stmts)
            if rec is not None:
                i, j = rec
                for s in stmts[:i]:
                    items.append(self.stmt(s, ctx))
                first = self.stmt(stmts[i]['init'], ctx)
                rest = {'k': 'block', 'stmts': stmts[j + 1:], 'l': l}
                if e.get('expr') is not None:
                    rest['expr'] = e['expr']
                items.append(T('alt', items=[first, self.stmt(rest, ctx)], l=l, recovered=True))
                items = [i for i in items if (i['op'] != 'empty' or i.get('brk')) and not i.get('absorbed')]
                if not items:
                    return T('empty')
                return items[0] if len(items) == 1 else T('seq', items=items, out=None, l=l, stmtform=True)
            for s in stmts:
                items.append(self.stmt(s, ctx))
            if e.get('expr') is not None:
                items.append(self.stmt(e['expr'], ctx))
            items = [i for i in items if (i['op'] != 'empty' or i.get('brk')) and not i.get('absorbed')]
            if not items:
                return T('empty')
            if len(items) == 1:
                return items[0]
            return T('seq', items=items, out=None, l=l, stmtform=True)
        if k == 'let':
            t = self.stmt(e['init'], ctx) if 'init' in e else T('empty')
            pat = e.get('pat', {})
            if pat.get('k') == 'p_bind' and 'init' in e:
                ctx.setdefault('vals', {})[pat['name']] = e['init']
                ini = peel(e['init'])
                ity = (ini.get('t') or pat.get('t') or '')
                if ini.get('k') in ('tup', 'call', 'mcall', 'path') and not any(self.is_input(a, ctx) for a in (ini.get('args') or [])) and \
                        ('winnow::' in ity or 'Parser' in ity) and not ity.lstrip('&').startswith(('core::result::Result', 'core::option::Option', 'alloc::', 'core::ops::')) and \
                        ini.get('name') not in ('parse_next', 'parse_peek'):
                    # `let separated = (one_of(b'_'), cut_err(..));` — a parser held in a local, run where the local is used
                    try:
                        ctx['env'][pat['name']] = self.conv(e['init'], ctx)
                        return T('empty')
                    except Exception:
                        pass
            if pat.get('k') == 'p_bind' and t['op'] != 'empty':
                ctx['env']['@' + pat['name']] = t
            if 'else' in e and t['op'] != 'empty':
                # `let Some(x) = opt(p).parse_next(input)? else { break }`: what follows runs iff the pattern matched, the else block otherwise
                # (the same shape as `if let Some(x) = .. { } else { break }`)
                b = self.stmt(e['else'], ctx)
                r = T('seq', items=[t, T('alt', items=[T('empty'), b], l=l, stmtform=True)], out=None, l=l, stmtform=True)
                if pat.get('k') == 'p_tuplestruct' and (pat.get('path') or '').endswith('Option::Some'):
                    r['iflet'] = 'Some'
                return r
            return t
        if k == 'semi':
            return self.stmt(e['e'], ctx)
        if k == 'match':
            src = e.get('src', '')
            if 'TryDesugar' in src:
                sc = e['scrut']
                if sc.get('k') == 'call' and sc.get('args'):
                    return self.stmt(sc['args'][0], ctx)
                return self.stmt(sc, ctx)
            sc = peel(e['scrut'])
            # dispatch: match on a local bound to a parser output
            if sc.get('k') == 'path' and sc.get('res') == 'Local' and ('@' + sc['path']) in ctx['env'] and 'core::result::Result<' in (sc.get('t') or ''):
                # `let res = p.parse_next(input); match res { Err(Backtrack(_)) => { input.reset(..); q.parse_next(input) } res => res }`
                # = ordered choice between p and the recovering arms
                st = ctx['env']['@' + sc['path']]
                alts = [dict(st)]
                st['absorbed'] = True
                for a in e['arms']:
                    at = self.stmt(a['body'], ctx)
                    if at['op'] != 'empty':
                        alts.append(at)
                return T('alt', items=alts, l=l, recovered=True)
            if sc.get('k') == 'path' and sc.get('res') == 'Local' and ('@' + sc['path']) in ctx['env']:
                arms = []
                for a in e['arms']:
                    arms.append({'pat': a['pat'], 'guard': a.get('guard'), 'p': self.stmt(a['body'], ctx), 'l': a.get('l')})
                dn = T('dispatch', scrut=ctx['env']['@' + sc['path']], arms=arms, l=l, node=e, bound=True)
                # remember on the scrutinee term (already emitted by the preceding `let`) which dispatch consumes its output
                inner = dn['scrut']
                while inner.get('op') in ('map', 'opt', 'peek'):
                    inner = inner['p']
                if inner.get('op') == 'tok':
                    inner['dispatch_ref'] = dn
                return dn
            st = self.stmt(e['scrut'], ctx)
            arms = []
            for a in e['arms']:
                arms.append({'pat': a['pat'], 'guard': a.get('guard'), 'p': self.stmt(a['body'], ctx), 'l': a.get('l')})
            if st['op'] != 'empty':
                return T('dispatch', scrut=st, arms=arms, l=l, node=e, bound=False)
            alts = [a['p'] for a in arms]
            if all(a['op'] == 'empty' for a in alts):
                return T('empty')
            return T('alt', items=alts, l=l, stmtform=True)
        if k == 'mcall':
            name = e.get('name')
            names = callee_all(e)
            if name in ('parse_next', 'parse_peek') and e.get('args') and self.is_input(e['args'][0], ctx):
                return self.conv(e['recv'], ctx)
            items = [self.stmt(e['recv'], ctx)] + [self.stmt(a, ctx) for a in e.get('args', [])]
            # input.reset / checkpoint / state.* are not consumption
            items = [i for i in items if i['op'] != 'empty']
            if not items:
                return T('empty')
            return items[0] if len(items) == 1 else T('seq', items=items, out=None, l=l, stmtform=True)
        if k == 'call':
            f = peel(e.get('f', {}))
            p = f.get('path') or ''
            args = e.get('args', [])
            # direct call of a parser function: f(input)
            if f.get('k') == 'path' and f.get('res') in ('Fn', 'AssocFn') and args and any(self.is_input(a, ctx) for a in args):
                if p in self.terms or p.startswith(self.prefix):
                    return T('ref', fn=p, gargs=f.get('args'), l=l)
                if p.startswith('winnow::error::'):
                    return T('empty')  # error construction at the current position, no consumption
                return T('top', why=f'input passed to `{p}`', l=l)
            if f.get('k') == 'path' and f.get('res') == 'Local' and args and any(self.is_input(a, ctx) for a in args):
                return ctx['env'].get(f['path'], T('param', name=f['path'], l=l))
            items = [self.stmt(a, ctx) for a in args]
            items = [i for i in items if i['op'] != 'empty']
            if not items:
                return T('empty')
            return items[0] if len(items) == 1 else T('seq', items=items, out=None, l=l, stmtform=True)
        if k == 'if':
            c = self.stmt(e['cond'], ctx)
            a = self.stmt(e['then'], ctx)
            b = self.stmt(e['else'], ctx) if 'else' in e else T('empty')
            nonempty = lambda x: x['op'] != 'empty' or x.get('brk')
            alt = T('alt', items=[a, b], l=l, stmtform=True) if (nonempty(a) or nonempty(b)) else T('empty')
            items = [i for i in (c, alt) if i['op'] != 'empty']
            if not items:
                return T('empty')
            if len(items) == 1:
                return items[0]
            r = T('seq', items=items, out=None, l=l, stmtform=True)
            cond = e['cond']
            if cond.get('k') == 'letexpr' and (cond.get('pat') or {}).get('k') == 'p_tuplestruct':
                # `if let Some(x) = opt(p).parse_next(input)? { a } else { b }`: a runs iff p matched (used by verif/regular.py)
                pp = cond['pat'].get('path') or ''
                if pp.endswith('Option::Some'):
                    r['iflet'] = 'Some'
            return r
        if k == 'letexpr':
            return self.stmt(e['init'], ctx)
        if k == 'loop':
            b = self.stmt(e['body'], ctx)
            if b['op'] == 'empty':
                return T('empty')
            return T('rep', min=0, max=INF, p=b, l=l, node=e, handloop=True)
        if k == 'break':
            t = self.stmt(e['v'], ctx) if 'v' in e else T('empty')
            if t['op'] == 'empty':
                return T('empty', brk=True, l=l)
            return T('seq', items=[t, T('empty', brk=True, l=l)], out=None, l=l, stmtform=True)
        if k == 'ret':
            t = self.stmt(e['v'], ctx) if 'v' in e else T('empty')
            v = peel(e.get('v') or {})
            vp = (peel(v.get('f', {})).get('path') or '') if v.get('k') == 'call' else ''
            flag = 'ok' if vp.endswith('Result::Ok') else 'err' if vp.endswith('Result::Err') else None
            if flag is None or (e.get('x') and 'QuestionMark' in (e.get('m') or '')):
                return t
            marker = T('empty', brk=True, ret=flag, l=l)     # leaves the enclosing function (see verif/regular.py)
            if t['op'] == 'empty':
                return marker
            return T('seq', items=[t, marker], out=None, l=l, stmtform=True)
        if k == 'closure':
            return T('empty')
        if k in ('binary', 'assign', 'assignop'):
            items = [self.stmt(e.get('a') or e.get('lhs'), ctx), self.stmt(e.get('b') or e.get('rhs'), ctx)]
            items = [i for i in items if i['op'] != 'empty']
            if not items:
                return T('empty')
            return items[0] if len(items) == 1 else T('seq', items=items, out=None, l=l, stmtform=True)
        if k in ('unary', 'addrof', 'cast', 'field', 'index'):
            return self.stmt(e.get('a') or e.get('base'), ctx)
        if k in ('tup', 'array'):
            items = [self.stmt(x, ctx) for x in e['elems']]
            items = [i for i in items if i['op'] != 'empty']
            if not items:
                return T('empty')
            return items[0] if len(items) == 1 else T('seq', items=items, out=None, l=l, stmtform=True)
        if k == 'struct':
            items = [self.stmt(x['e'], ctx) for x in e.get('fields', [])]
            items = [i for i in items if i['op'] != 'empty']
            if not items:
                return T('empty')
            return items[0] if len(items) == 1 else T('seq', items=items, out=None, l=l, stmtform=True)
        return T('empty')

    # ------------------------------------------------------------------ traversal
    def subterms(self, t):
        """pre-order walk over a term (not following refs)"""
        stack = [t]
        while stack:
            x = stack.pop()
            if not isinstance(x, dict) or 'op' not in x:
                continue
            yield x
            op = x['op']
            if op in ('seq', 'alt'):
                stack.extend(reversed(x['items']))
            elif op in ('opt', 'peek', 'not', 'map', 'rep', 'checkrec'):
                stack.append(x['p'])
            elif op == 'sep':
                stack.append(x['sep'])
                stack.append(x['p'])
            elif op == 'and_then':
                stack.append(x['q'])
                stack.append(x['p'])
            elif op == 'dispatch':
                for a in reversed(x['arms']):
                    stack.append(a['p'])
                if not x.get('bound'):
                    stack.append(x['scrut'])
            elif op == 'call':
                for a in reversed(x['args']):
                    if a is not None:
                        stack.append(a)

    def resolve(self, t):
        """term a ref/call stands for (None if unknown)"""
        if t['op'] in ('ref', 'call'):
            return self.terms.get(t['fn'])
        return None

    def generic_env(self, t):
        """bind const generic parameters of the referenced fn from the ref's generic args"""
        fn = t.get('fn')
        f = self.facts.fns.get(fn)
        if not f or not t.get('gargs'):
            return {}
        names = [g for g in f.get('generics', []) if not g.startswith("'")]
        vals = [g for g in t['gargs'] if not g.startswith("'")]
        env = {}
        for n, v in zip(names, vals):
            v = v.replace('_usize', '').replace('usize', '').strip()
            try:
                env[n] = int(v)
            except ValueError:
                if 'MAX' in v or v == '18446744073709551615':
                    env[n] = INF
        # 18446744073709551615 parses as int; normalise to INF
        for n, v in list(env.items()):
            if v == 18446744073709551615:
                env[n] = INF
        return env

    def value_env(self, t):
        """generic_env plus the integer arguments of a call of a parser-building function (`hexescape(4)` instead of `hexescape::<4>`), bound to its parameters"""
        env = dict(self.generic_env(t)) if t.get('gargs') else {}
        if t.get('op') == 'call' and isinstance(t.get('node'), dict):
            b = self.facts.bodies.get(t.get('fn'), {})
            for p, a in zip(b.get('params', []), t['node'].get('args', [])):
                if p.get('k') == 'p_bind' and (p.get('t') or '') in ('usize', 'u8', 'u16', 'u32', 'u64', 'isize', 'i32', 'i64'):
                    try:
                        env[p['name']] = self.ev.integer(a)
                    except Unanalysable:
                        pass
        return env

    # ------------------------------------------------------------------ attributes (least fixpoints)
    def _fix(self, name, fn_attr, bottom):
        memo = {d: bottom for d in self.terms}
        for _ in range(30):
            changed = False
            for d, t in self.terms.items():
                if t is None:
                    continue
                v = fn_attr(t, memo)
                if v != memo[d]:
                    memo[d] = v
                    changed = True
            if not changed:
                break
        setattr(self, '_' + name, memo)
        return memo

    def nullable_map(self):
        if hasattr(self, '_nullable'):
            return self._nullable
        return self._fix('nullable', self._nullable_t, False)

    def _nullable_t(self, t, memo):
        op = t['op']
        if op == 'tok':
            m = t['min']
            return m == 0 if not isinstance(m, tuple) else False
        if op == 'lit':
            return len(t['bytes']) == 0
        if op in ('eof', 'empty', 'opt', 'peek', 'not'):
            return True
        if op == 'fail':
            return False
        if op == 'seq':
            return all(self._nullable_t(x, memo) for x in t['items'])
        if op == 'alt':
            return any(self._nullable_t(x, memo) for x in t['items'])
        if op == 'rep':
            return t['min'] == 0 or self._nullable_t(t['p'], memo)
        if op == 'sep':
            return t['min'] == 0 or self._nullable_t(t['p'], memo)
        if op in ('map', 'checkrec'):
            return self._nullable_t(t['p'], memo)
        if op == 'and_then':
            return self._nullable_t(t['p'], memo)
        if op == 'dispatch':
            sn = True if t.get('bound') else self._nullable_t(t['scrut'], memo)
            return sn and any(self._nullable_t(a['p'], memo) for a in t['arms'])
        if op in ('ref', 'call'):
            return memo.get(t['fn'], True)
        return True  # param / top: unknown -> may be nullable

    def consumed_map(self):
        if hasattr(self, '_consumed'):
            return self._consumed
        return self._fix('consumed', self._consumed_t, frozenset())

    def _consumed_t(self, t, memo):
        op = t['op']
        if op == 'tok':
            return t['set']
        if op == 'lit':
            return frozenset(t['bytes'])
        if op in ('eof', 'empty', 'fail', 'peek', 'not'):
            return frozenset()
        if op in ('seq', 'alt'):
            s = frozenset()
            for x in t['items']:
                s |= self._consumed_t(x, memo)
            return s
        if op in ('opt', 'rep', 'map', 'checkrec'):
            return self._consumed_t(t['p'], memo)
        if op == 'sep':
            return self._consumed_t(t['p'], memo) | self._consumed_t(t['sep'], memo)
        if op == 'and_then':
            return self._consumed_t(t['p'], memo)
        if op == 'dispatch':
            s = frozenset() if t.get('bound') else self._consumed_t(t['scrut'], memo)
            for a in t['arms']:
                s |= self._consumed_t(a['p'], memo)
            return s
        if op == 'ref':
            return memo.get(t['fn'], ALL) if t['fn'] in self.terms else ALL
        if op == 'call':
            s = memo.get(t['fn'], ALL) if t['fn'] in self.terms else ALL
            # a parser parameter of the callee consumes whatever the argument consumes: the callee's
            # own summary already contains TOP for its parameters, so refine: substitute arguments
            return s
        return ALL  # param / top

    def output_set(self, t):
        """bytes that can occur in the slice a term outputs (ALL when unknown)"""
        cm = self.consumed_map()
        op = t['op']
        if op == 'tok':
            return t['set']
        if op == 'lit':
            return frozenset(t['bytes'])
        if op == 'map':
            if t['kind'] == 'take':
                return self._consumed_t(t['p'], cm)
            if t['kind'] in ('cut', 'backtrack', 'trace', 'context', 'by_ref', 'verify', 'complete_err', 'scope'):
                return self.output_set(t['p'])
            return ALL
        if op == 'seq' and t.get('out') is not None:
            return self.output_set(t['items'][t['out']])
        if op == 'and_then':
            return self.output_set(t['q'])
        if op == 'alt':
            s = frozenset()
            for x in t['items']:
                s |= self.output_set(x)
            return s
        if op == 'checkrec':
            return self.output_set(t['p'])
        return ALL

    def first_map(self):
        if hasattr(self, '_first'):
            return self._first
        self.nullable_map()
        return self._fix('first', self._first_t, frozenset())

    def _first_t(self, t, memo):
        nm = self._nullable
        op = t['op']
        if op == 'tok':
            mx = t['max']
            if not isinstance(mx, tuple) and mx == 0:
                return frozenset()
            return t['set']
        if op == 'lit':
            return frozenset(t['bytes'][:1])
        if op in ('eof', 'empty', 'fail', 'not'):
            return frozenset()
        if op == 'peek':
            return frozenset()
        if op == 'seq':
            s = frozenset()
            for x in t['items']:
                if x.get('op') == 'tok' and x.get('kind') == 'any' and x.get('dispatch_ref') is not None and (x['min'], x['max']) == (1, 1):
                    # a consumed byte that is dispatched on: the first byte is one whose arm can succeed
                    acc = frozenset()
                    for sset, arm in self.dispatch_rows(x['dispatch_ref']):
                        can = self._nullable_t(arm['p'], nm) or bool(self._first_t(arm['p'], memo))
                        if can:
                            acc |= (sset if sset is not None else ALL)
                    s |= acc
                    break
                s |= self._first_t(x, memo)
                # a peek in front constrains but does not consume; keep scanning through nullable members
                if not self._nullable_t(x, nm):
                    break
            return s
        if op == 'alt':
            s = frozenset()
            for x in t['items']:
                s |= self._first_t(x, memo)
            return s
        if op in ('opt', 'rep', 'map', 'checkrec'):
            return self._first_t(t['p'], memo)
        if op == 'sep':
            s = self._first_t(t['p'], memo)
            if self._nullable_t(t['p'], nm):
                s |= self._first_t(t['sep'], memo)
            return s
        if op == 'and_then':
            return self._first_t(t['p'], memo)
        if op == 'dispatch':
            s = frozenset() if t.get('bound') else self._first_t(t['scrut'], memo)
            if t.get('bound') or self._nullable_t(t['scrut'], nm):
                sc = t['scrut']
                peeked = False
                x = sc
                while x.get('op') in ('map', 'opt', 'peek'):
                    if x['op'] == 'peek':
                        peeked = True
                    x = x['p']
                rows = self.dispatch_rows(t) if (peeked and x.get('op') == 'tok' and (x['min'], x['max']) == (1, 1)) else None
                if rows is not None and all(r[0] is not None for r in rows):
                    # dispatch on a peeked byte: an arm can only start with bytes of its own pattern
                    for sset, a in rows:
                        s |= (self._first_t(a['p'], memo) & sset)
                else:
                    for a in t['arms']:
                        s |= self._first_t(a['p'], memo)
            return s
        if op in ('ref', 'call'):
            return memo.get(t['fn'], ALL) if t['fn'] in self.terms else ALL
        return ALL

    def dispatch_rows(self, disp):
        """[(byteset or None when the pattern is not a byte pattern, arm)] first-match"""
        from .den import pat_set, Unanalysable as U
        rest = set(range(256))
        rows = []
        for arm in disp['arms']:
            pat = arm['pat']
            if pat.get('k') == 'p_tuplestruct' and (pat.get('path') or '').endswith('Option::Some') and pat.get('pats'):
                pat = pat['pats'][0]
            try:
                sset = pat_set(self.ev, pat, rest) if arm.get('guard') is None else None
            except U:
                sset = None
            if sset is None:
                rows.append((None, arm))
            else:
                rows.append((frozenset(sset), arm))
                rest -= sset
        return rows

    # ------------------------------------------------------------------ k-prefix languages
    def prefix_sets(self, k=2):
        """{fn: frozenset of byte strings} — the prefixes (truncated to k bytes) of the texts each named parser can consume.
        Over-approximate where the model ignores value filters (verify / try_map) and lookahead (peek / not); exact on
        classes, literals, bounds, sequencing, choice and repetition."""
        key = f'_prefix{k}'
        if hasattr(self, key):
            return getattr(self, key)
        memo = {}
        self._pk = k
        self._pmemo = memo
        for _ in range(12):
            changed = False
            for d, t in self.terms.items():
                if t is None:
                    continue
                v = self._prefix_t(t, {}, (d, ()))
                if memo.get((d, ())) != v:
                    memo[(d, ())] = v
                    changed = True
            # instantiations discovered on the way
            for kk in list(memo):
                d, ga = kk
                if ga and self.terms.get(d) is not None:
                    v = self._prefix_t(self.terms[d], dict(ga), kk)
                    if memo.get(kk) != v:
                        memo[kk] = v
                        changed = True
            if not changed:
                break
        setattr(self, key, memo)
        return memo

    def _cat(self, A, B):
        k = self._pk
        out = set()
        trunc = {}
        for x in A:
            if len(x) >= k:
                out.add(x[:k])
                continue
            j = k - len(x)
            if j not in trunc:
                trunc[j] = {y[:j] for y in B}
            for y in trunc[j]:
                out.add(x + y)
        return frozenset(out)

    def _star(self, P, lo, hi):
        k = self._pk
        cur = frozenset([b''])
        res = set()
        n = 0
        # strings of n repetitions, n = 0.. ; stop when nothing new (prefixes are bounded by k)
        seen_levels = []
        while True:
            if n >= lo:
                res |= cur
            if hi != INF and n >= hi:
                break
            nxt = self._cat(cur, P)
            n += 1
            if nxt in seen_levels and n > lo:
                res |= nxt
                break
            seen_levels.append(nxt)
            cur = nxt
            if n > lo + k + 2:
                res |= cur
                break
        return frozenset(res)

    def _prefix_t(self, t, env, self_key):
        k = self._pk
        op = t['op']
        E = frozenset([b''])
        if op == 'tok':
            lo, hi = t['min'], t['max']
            if isinstance(lo, tuple):
                try:
                    lo, hi = self.ev.range(t['rng'], env)
                except Unanalysable:
                    lo, hi = 0, INF
            if t.get('exact') is not None:
                try:
                    lo = hi = self.ev.integer(t['exact'], env)
                except Unanalysable:
                    pass
            one = frozenset(bytes([b]) for b in t['set'])
            return self._star(one, lo, hi)
        if op == 'lit':
            return frozenset([bytes(t['bytes'])[:k]])
        if op in ('eof', 'empty', 'peek', 'not'):
            return E
        if op == 'fail':
            return frozenset()
        if op == 'seq':
            cur = E
            items = t['items']
            i = 0
            while i < len(items):
                x = items[i]
                if x.get('op') == 'tok' and x.get('kind') == 'any' and x.get('dispatch_ref') is not None and (x['min'], x['max']) == (1, 1) \
                        and i + 1 < len(items) and items[i + 1] is x['dispatch_ref']:
                    acc = set()
                    for sset, arm in self.dispatch_rows(x['dispatch_ref']):
                        pa = self._prefix_t(arm['p'], env, self_key)
                        heads = frozenset(bytes([b]) for b in (sset if sset is not None else ALL))
                        acc |= self._cat(heads, pa)
                    cur = self._cat(cur, frozenset(acc))
                    i += 2
                    continue
                cur = self._cat(cur, self._prefix_t(x, env, self_key))
                if not cur:
                    return cur
                i += 1
            return cur
        if op == 'alt':
            s = frozenset()
            for x in t['items']:
                s |= self._prefix_t(x, env, self_key)
            return s
        if op == 'opt':
            return E | self._prefix_t(t['p'], env, self_key)
        if op == 'rep':
            return self._star(self._prefix_t(t['p'], env, self_key), t['min'], t['max'])
        if op == 'sep':
            P = self._prefix_t(t['p'], env, self_key)
            S = self._prefix_t(t['sep'], env, self_key)
            more = self._star(self._cat(S, P), max(t['min'] - 1, 0), INF if t['max'] == INF else max(t['max'] - 1, 0))
            r = self._cat(P, more)
            if t['min'] == 0:
                r |= E
            return r
        if op == 'map':
            if t['kind'] == 'verify' and t['p'].get('op') == 'tok' and isinstance(t['p'].get('min'), tuple):
                # take_while(0..=N, C).verify(|b| b.len() == N): exactly N
                clo = peel(t.get('filt') or {})
                if clo.get('k') == 'closure':
                    for n in walk(clo['body']):
                        if n.get('k') == 'binary' and n.get('op') == '==' and peel(n['a']).get('k') == 'mcall' and peel(n['a']).get('name') == 'len':
                            inner = dict(t['p'])
                            inner['exact'] = n['b']
                            return self._prefix_t(inner, env, self_key)
            return self._prefix_t(t['p'], env, self_key)
        if op == 'checkrec':
            return self._prefix_t(t['p'], env, self_key)
        if op == 'and_then':
            return self._prefix_t(t['p'], env, self_key)
        if op == 'dispatch':
            sc = t['scrut']
            x = sc
            peeked = False
            while x.get('op') in ('map', 'opt', 'peek'):
                if x['op'] == 'peek':
                    peeked = True
                x = x['p']
            rows = self.dispatch_rows(t)
            acc = set()
            if peeked and x.get('op') == 'tok' and (x['min'], x['max']) == (1, 1) and all(r[0] is not None for r in rows):
                for sset, arm in rows:
                    pa = self._prefix_t(arm['p'], env, self_key)
                    acc |= {y for y in pa if (y and y[0] in sset) or (not y and False)}
                    # an arm that matches the empty string while a byte was peeked: the peeked byte belongs to what follows
                    if b'' in pa:
                        acc.add(b'')
                return frozenset(acc)
            for a in t['arms']:
                acc |= self._prefix_t(a['p'], env, self_key)
            if not t.get('bound'):
                return self._cat(self._prefix_t(sc, env, self_key), frozenset(acc))
            return frozenset(acc)
        if op in ('ref', 'call'):
            fn = t['fn']
            if fn not in self.terms or self.terms[fn] is None:
                return frozenset(bytes([b]) for b in ALL) | E  # unknown: anything
            ga = tuple(sorted(self.generic_env(t).items())) if op == 'ref' else ()
            kk = (fn, ga)
            if kk not in self._pmemo:
                self._pmemo[kk] = frozenset()
            return self._pmemo[kk]
        # param / top: anything
        return self._star(frozenset(bytes([b]) for b in ALL), 0, INF)

    def mentions(self, t, through_checkrec=True):
        """named parsers referenced by a term; with through_checkrec=False the
        sub-terms wrapped in check_recursion are skipped"""
        out = []
        stack = [t]
        while stack:
            x = stack.pop()
            if not isinstance(x, dict) or 'op' not in x:
                continue
            op = x['op']
            if op in ('ref', 'call'):
                out.append(x['fn'])
            if op == 'checkrec' and not through_checkrec:
                continue
            if op in ('seq', 'alt'):
                stack.extend(x['items'])
            elif op in ('opt', 'peek', 'not', 'map', 'rep', 'checkrec'):
                stack.append(x['p'])
            elif op == 'sep':
                stack.extend([x['p'], x['sep']])
            elif op == 'and_then':
                stack.extend([x['p'], x['q']])
            elif op == 'dispatch':
                if not x.get('bound'):
                    stack.append(x['scrut'])
                stack.extend(a['p'] for a in x['arms'])
            elif op == 'call':
                stack.extend(a for a in x['args'] if a is not None)
        return out

    def tops(self, t):
        return [x for x in self.subterms(t) if x['op'] in ('top',)]

    def describe(self, t, depth=0):
        """short textual rendering for evidence"""
        from .den import fmt_set
        op = t['op']
        if depth > 6:
            return '…'
        d = depth + 1
        if op == 'tok':
            rng = f"{t['min']}..{t['max']}" if not isinstance(t['min'], tuple) else 'sym'
            return f"{t['kind']}[{rng}]{fmt_set(t['set'])}"
        if op == 'lit':
            return 'lit' + repr(bytes(t['bytes']))
        if op in ('eof', 'empty', 'fail'):
            return op
        if op == 'seq':
            return '(' + ' '.join(self.describe(x, d) for x in t['items']) + ')'
        if op == 'alt':
            return '(' + ' / '.join(self.describe(x, d) for x in t['items']) + ')'
        if op in ('opt', 'peek', 'not', 'checkrec'):
            return f"{op}({self.describe(t['p'], d)})"
        if op == 'rep':
            return f"rep[{t['min']}..{t['max']}]({self.describe(t['p'], d)})"
        if op == 'sep':
            return f"sep[{t['min']}..{t['max']}]({self.describe(t['p'], d)},{self.describe(t['sep'], d)})"
        if op == 'map':
            return f"{self.describe(t['p'], d)}.{t['kind']}"
        if op == 'and_then':
            return f"{self.describe(t['p'], d)}.and_then({self.describe(t['q'], d)})"
        if op == 'dispatch':
            return f"dispatch({self.describe(t['scrut'], d)}; {len(t['arms'])} arms)"
        if op in ('ref', 'call'):
            g = t.get('gargs')
            return last_seg(t['fn']) + (f"<{','.join(g)}>" if g else '')
        if op == 'param':
            return f"${t['name']}"
        if op == 'top':
            return f"TOP[{t.get('why')}]"
        return op
