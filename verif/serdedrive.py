"""serdedrive.py — the serde data model as a driver for the structural interpreter.

A value of any `T: Serialize` is, to a Serializer, nothing but the sequence of data-model calls its `serialize` makes.  SerdeInterp lets a
model value ('sv', kind, ...) stand for such a T: whenever the evaluated workspace code calls `value.serialize(serializer)` on it, the driver
makes the calls serde's derive would make (serialize_struct + serialize_field.. + end, serialize_some, ...) on whatever serializer value it was
handed, resolving each call to the workspace impl of the serializer's type.  A whole serializer can so be evaluated on sample values of every
shape of the data model and its result compared with what the TOML mapping prescribes and with its twin on the other route.
"""
from .core import peel, last_seg, strip_generics
from .den import Unanalysable, EvalPanic, VecObj, IterObj
from .places import PlaceInterp, MapObj, deref, plain, keyname, SOME, NONE

OK, ERR = 'core::result::Result::Ok', 'core::result::Result::Err'
SER = 'serde::ser::Serializer'
INT_MAX = {'i8': 2**7 - 1, 'i16': 2**15 - 1, 'i32': 2**31 - 1, 'i64': 2**63 - 1, 'u8': 2**8 - 1, 'u16': 2**16 - 1, 'u32': 2**32 - 1, 'u64': 2**64 - 1, 'usize': 2**64 - 1, 'isize': 2**63 - 1,
           'i128': 2**127 - 1, 'u128': 2**128 - 1}
INT_MIN = {k: (0 if k.startswith('u') else -(v + 1)) for k, v in INT_MAX.items()}


def sv(kind, *payload):
    return ('sv', kind) + payload


def is_sv(v):
    return isinstance(v, tuple) and len(v) >= 2 and v[0] == 'sv'


def is_ok(r):
    return isinstance(r, tuple) and len(r) == 3 and r[0] == 'ctor' and r[1] == OK


def is_err(r):
    return isinstance(r, tuple) and len(r) == 3 and r[0] == 'ctor' and r[1] == ERR


def as_sv(v):
    """a primitive handed to `serialize` directly (a field name, a key) is the data-model value of its kind"""
    if is_sv(v):
        return v
    if isinstance(v, bool):
        return sv('bool', v)
    if isinstance(v, int):
        return sv('i64', v)
    if isinstance(v, float):
        return sv('f64', v)
    if isinstance(v, str):
        return sv('str', v)
    return None


class SerdeInterp(PlaceInterp):
    """PlaceInterp + the serde driver + the std conversions the serializers use (`into`, `try_into`, `to_string`, `to_owned`)"""
    MAX_DEPTH = 60

    def __init__(self, ev, record=(), record_fns=(), stubs=None):
        super().__init__(ev, record, record_fns, stubs)
        self.facts = ev.facts

    # -- impl lookup ---------------------------------------------------------------------------------------------------------
    def impl_method(self, trait, v, name):
        ty = self.type_of(v)
        if ty is None:
            raise Unanalysable(f'`{name}` of {trait} on a value without a modelled type ({plain(v)!r:.60})')
        hits = []
        for imp in self.facts.impls:
            if imp.get('trait') != trait:
                continue
            st = (imp.get('self_ty') or '')
            base = st.replace('&mut ', '').replace("&'a mut ", '').replace('&', '').strip().split('<')[0]
            if base == ty:
                for it in imp['items']:
                    if it['name'] == name and self.facts.has_body(it['def']):
                        hits.append((st, it['def']))
        if not hits:
            raise Unanalysable(f'no workspace impl of {trait}::{name} for `{ty}`')
        if len(hits) > 1:
            # several instantiations of a generic collector (SerializeVariant<SerializeValueArray> / <SerializeMap>): the trait picks one; otherwise by the inner field's type
            inner = deref(deref(v)[2].get('inner')) if isinstance(deref(v), tuple) and len(deref(v)) == 3 and isinstance(deref(v)[2], dict) else None
            ity = self.type_of(inner) if inner is not None else None
            narrowed = [h for h in hits if ity and ity in h[0]]
            if len(narrowed) == 1:
                hits = narrowed
            else:
                raise Unanalysable(f'ambiguous impl of {trait}::{name} for `{ty}`: {[h[0] for h in hits]}')
        return self.facts.body(hits[0][1])

    def call_trait(self, trait, recv, name, args):
        return self.apply_fn(self.impl_method(trait, recv, name), [recv] + list(args))

    # -- the driver ----------------------------------------------------------------------------------------------------------
    def drive(self, v, ser):
        """what `v.serialize(ser)` does for the model value v"""
        kind = v[1]
        S = lambda name, *a: self.call_trait(SER, ser, name, a)
        if kind in ('bool', 'i8', 'i16', 'i32', 'i64', 'u8', 'u16', 'u32', 'u64', 'f32', 'f64', 'char', 'str'):
            return S('serialize_' + kind, v[2])
        if kind == 'none':
            return S('serialize_none')
        if kind == 'some':
            return S('serialize_some', v[2])
        if kind == 'unit':
            return S('serialize_unit')
        if kind == 'unit_struct':
            return S('serialize_unit_struct', v[2])
        if kind == 'newtype_struct':
            return S('serialize_newtype_struct', v[2], v[3])
        if kind == 'unit_variant':
            return S('serialize_unit_variant', v[2], v[3], v[4])
        if kind == 'newtype_variant':
            return S('serialize_newtype_variant', v[2], v[3], v[4], v[5])
        if kind in ('seq', 'tuple', 'tuple_struct', 'tuple_variant'):
            elems = v[-1]
            if kind == 'seq':
                st, tr, m = S('serialize_seq', ('ctor', SOME, (len(elems),))), 'serde::ser::SerializeSeq', 'serialize_element'
            elif kind == 'tuple':
                st, tr, m = S('serialize_tuple', len(elems)), 'serde::ser::SerializeTuple', 'serialize_element'
            elif kind == 'tuple_struct':
                st, tr, m = S('serialize_tuple_struct', v[2], len(elems)), 'serde::ser::SerializeTupleStruct', 'serialize_field'
            else:
                st, tr, m = S('serialize_tuple_variant', v[2], v[3], v[4], len(elems)), 'serde::ser::SerializeTupleVariant', 'serialize_field'
            if not is_ok(st):
                return st
            col = st[2][0]
            for e in elems:
                r = self.call_trait(tr, col, m, [e])
                if not is_ok(r):
                    return r
            return self.call_trait(tr, col, 'end', [])
        if kind == 'map':
            st = S('serialize_map', ('ctor', SOME, (len(v[2]),)))
            if not is_ok(st):
                return st
            col = st[2][0]
            for k, x in v[2]:
                r = self.call_trait('serde::ser::SerializeMap', col, 'serialize_key', [k])
                if not is_ok(r):
                    return r
                r = self.call_trait('serde::ser::SerializeMap', col, 'serialize_value', [x])
                if not is_ok(r):
                    return r
            return self.call_trait('serde::ser::SerializeMap', col, 'end', [])
        if kind in ('struct', 'struct_variant'):
            fields = v[-1]
            if kind == 'struct':
                st, tr = S('serialize_struct', v[2], len(fields)), 'serde::ser::SerializeStruct'
            else:
                st, tr = S('serialize_struct_variant', v[2], v[3], v[4], len(fields)), 'serde::ser::SerializeStructVariant'
            if not is_ok(st):
                return st
            col = st[2][0]
            for f, x in fields:
                r = self.call_trait(tr, col, 'serialize_field', [f, x])
                if not is_ok(r):
                    return r
            return self.call_trait(tr, col, 'end', [])
        raise Unanalysable(f'serde model kind `{kind}`')

    # -- evaluation hooks ----------------------------------------------------------------------------------------------------
    def _mcall(self, e, env):
        name = e.get('name')
        if name == 'serialize' and len(e.get('args', [])) == 1:
            recv = deref(self.val(e['recv'], env))
            if as_sv(recv) is not None and self._workspace_method(e) is None:
                return self.drive(as_sv(recv), self.val(e['args'][0], env))
            return super()._mcall(dict(e, recv=self._bindnode(recv, env, e['recv'])), env)
        if name in ('push', 'push_str') and len(e.get('args', [])) == 1 and peel(e['recv']).get('k') == 'path' and peel(e['recv']).get('res') == 'Local' \
                and isinstance(env.get(peel(e['recv'])['path']), str):
            a = deref(self.val(e['args'][0], env))
            env[peel(e['recv'])['path']] += a if isinstance(a, str) else chr(a)
            return ()
        if name in ('push', 'push_str') and len(e.get('args', [])) == 1 and peel(e['recv']).get('k') in ('field', 'deref', 'path'):
            from .places import SlotRef
            try:
                slot = self.val(e['recv'], env)
            except Unanalysable:
                slot = None
            while isinstance(slot, SlotRef) and isinstance(slot.get(), SlotRef):
                slot = slot.get()
            if isinstance(slot, SlotRef) and isinstance(slot.get(), str):
                # a `&mut String` held in a field or a parameter: the text behind the reference grows
                a = deref(self.val(e['args'][0], env))
                slot.set(slot.get() + (a if isinstance(a, str) else chr(a)))
                return ()
        if name == 'parse' and not e.get('args') and 'Datetime' in (e.get('t') or ''):
            txt = deref(self.val(e['recv'], env))
            if isinstance(txt, str):
                # the text came from Display for Datetime (C12 decides that pair); here it stands for the date-time it denotes
                return ('ctor', OK, (('struct', 'toml_datetime::datetime::Datetime', {'text': txt}),))
        if name == 'encode_utf8' and len(e.get('args', [])) == 1:
            c = deref(self.val(e['recv'], env))
            return c if isinstance(c, str) else chr(c)
        if name in ('is_nan', 'is_sign_negative', 'is_sign_positive', 'is_infinite', 'is_finite', 'abs', 'copysign') :
            x = deref(self.val(e['recv'], env))
            if isinstance(x, float):
                import math
                if name == 'is_nan':
                    return math.isnan(x)
                if name == 'is_infinite':
                    return math.isinf(x)
                if name == 'is_finite':
                    return math.isfinite(x)
                if name == 'is_sign_negative':
                    return math.copysign(1.0, x) < 0
                if name == 'is_sign_positive':
                    return math.copysign(1.0, x) > 0
                if name == 'abs':
                    return abs(x)
                if name == 'copysign':
                    return math.copysign(x, deref(self.val(e['args'][0], env)))
        if name in ('into', 'try_into', 'to_string', 'to_owned', 'into_owned', 'as_str') and not e.get('args'):
            recv = deref(self.val(e['recv'], env))
            node = dict(e, recv=self._bindnode(recv, env, e['recv']))
            if name in ('into', 'try_into'):
                tgt = (e.get('t') or '').strip()
                if name == 'try_into':
                    # Result<T, E>
                    inner = tgt[tgt.index('<') + 1:].split(',')[0].strip() if '<' in tgt else ''
                    if isinstance(recv, int) and not isinstance(recv, bool) and inner in INT_MAX:
                        return ('ctor', OK, (recv,)) if INT_MIN[inner] <= recv <= INT_MAX[inner] else ('ctor', ERR, (('conversion-error', inner),))
                    raise Unanalysable(f'try_into to `{tgt}`')
                body = self._from_impl(tgt, recv, peel(e['recv']).get('t'))
                if body is not None:
                    return self.apply_fn(body, [recv])
                return recv
            if name in ('to_string', 'to_owned', 'into_owned', 'as_str') and isinstance(recv, (str, int, float)) and not isinstance(recv, bool):
                return recv if isinstance(recv, str) else repr(recv)
            if name == 'to_string' and isinstance(recv, tuple) and len(recv) == 3 and recv[0] == 'struct' and isinstance(recv[2], dict) and 'text' in recv[2]:
                return recv[2]['text']          # a modelled date-time prints as the text it was read from (C12 decides Display / FromStr)
            return super()._mcall(node, env)
        return super()._mcall(e, env)

    def val(self, e, env):
        k = e.get('k')
        if k == 'call':
            f = peel(e.get('f', {}))
            p = f.get('path') or ''
            seg = last_seg(strip_generics(p))
            if seg == 'serialize' and len(e.get('args', [])) == 2 and 'Serialize' in p:
                a0 = deref(self.val(e['args'][0], env))
                if as_sv(a0) is not None:
                    return self.drive(as_sv(a0), self.val(e['args'][1], env))
            if p.split('::<')[0] == 'core::hint::must_use' and len(e.get('args', [])) == 1:
                return self.val(e['args'][0], env)
            if p.split('::<')[0] == 'alloc::fmt::format':
                try:
                    return super().val(e, env)
                except Unanalysable:
                    return '<message>'          # the text of an error message: irrelevant to what is decided here
            if seg == 'try_from' and len(e.get('args', [])) == 1 and self._workspace_body(f) is None:
                a0 = deref(self.val(e['args'][0], env))
                tgt = (e.get('t') or '')
                inner = tgt[tgt.index('<') + 1:].split(',')[0].strip() if '<' in tgt else ''
                if isinstance(a0, int) and not isinstance(a0, bool) and inner in INT_MAX:
                    return ('ctor', OK, (a0,)) if INT_MIN[inner] <= a0 <= INT_MAX[inner] else ('ctor', ERR, (('conversion-error', inner),))
            if p.split('::<')[0] in ('alloc::string::String::new', 'alloc::string::String::with_capacity') :
                return ''
            if p.startswith('kstring::') and len(e.get('args', [])) == 1 and self._workspace_body(f) is None:
                a0 = deref(self.val(e['args'][0], env))
                if isinstance(a0, str):
                    return a0               # the `perf` feature's string type: a string is the text it holds
            if seg == 'from' and len(e.get('args', [])) == 1 and f.get('res') in ('AssocFn', 'Fn') and self._workspace_body(f) is None:
                a0 = deref(self.val(e['args'][0], env))
                body = self._from_impl(e.get('t') or '', a0, peel(e['args'][0]).get('t'))
                if body is not None:
                    return self.apply_fn(body, [a0])
                return a0
            # UFCS calls of the collector traits (`serde::ser::SerializeStruct::serialize_field(&mut self.inner, key, value)`)
            if p.startswith('serde::ser::Serialize') and seg in ('serialize_field', 'serialize_element', 'serialize_key', 'serialize_value', 'end', 'serialize_entry') and e.get('args'):
                tr = strip_generics(p).rsplit('::', 1)[0]
                args = [self.val(a, env) for a in e['args']]
                return self.call_trait(tr, args[0], seg, args[1:])
        if k == 'lit' and e.get('lk') == 'float':
            try:
                return float(str(e['v']).replace('_', '').replace('f64', '').replace('f32', ''))
            except ValueError:
                pass
        if k == 'repeat':
            import re
            mm = re.search(r';\s*(\d+)\]$', e.get('t') or '')
            if mm:
                x = self.val(e['a'], env)
                return tuple(x for _ in range(int(mm.group(1))))
        if k == 'cast':
            v = deref(self.val(e['a'], env))
            ty = (e.get('t') or '').strip()
            if ty in ('f64', 'f32') and isinstance(v, (int, float)) and not isinstance(v, bool):
                return float(v)
            return v
        return super().val(e, env)

    def _workspace_method(self, e):
        b = super()._workspace_method(e)
        return b
