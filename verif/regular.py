"""Regular-language comparison of parser functions with grammar rules.

TOML's grammar is regular once the one recursive reference (`val`, reached again through array and
inline-table) is treated as an opaque symbol.  Both the combinator model (verif/gir.py) of a parser
function and the ABNF rule it transcribes are therefore turned into finite automata over the alphabet
bytes ∪ {symbols}; the two automata are determinised on the fly over the coarsest partition of the bytes
that all their labels respect, and compared for *exact* language equality (or inclusion) — all lengths,
no bound.  A difference is reported as a shortest distinguishing word.

What the automaton of a function is: classes, literals, bounds, sequence, choice, option, repetition,
separated lists, first-byte dispatch (arms restricted to their pattern's bytes), const-generic bounds and
inlined calls with parser arguments are exact.  Lookahead (peek / not / eof) is dropped and value filters
(verify / try_map / and_then) are transparent, i.e. the automaton accepts a superset there; every such place
is listed in `approx` so that a rule can state on which functions the comparison is exact."""
from collections import defaultdict, deque

from .core import walk, peel
from .den import Unanalysable, INF, ALL


class Incomplete(Exception):
    pass


class NFA:
    def __init__(self):
        self.n = 0
        self.eps = defaultdict(list)
        self.tr = defaultdict(list)   # state -> [(label, dst)]; label = frozenset(bytes) | ('sym', name)

    def new(self):
        self.n += 1
        return self.n - 1

    def add(self, s, label, d, cons=None):
        """label None = epsilon; an epsilon may carry a lookahead constraint on what follows:
        a frozenset (the next byte exists and lies in the set) or 'eof' (no byte follows)"""
        if label is None:
            self.eps[s].append((d, cons))
        else:
            self.tr[s].append((label, d))

    @staticmethod
    def meet(c1, c2):
        """conjunction of two lookahead constraints; False when unsatisfiable"""
        if c1 is None:
            return c2
        if c2 is None:
            return c1
        if c1 == 'eof' or c2 == 'eof':
            return 'eof' if c1 == c2 else False
        m = c1 & c2
        return m if m else False

    def closure(self, configs):
        """configs: iterable of (state, constraint)"""
        seen = set(configs)
        stack = list(seen)
        while stack:
            s, c = stack.pop()
            for d, cons in self.eps.get(s, ()):
                m = self.meet(c, cons)
                if m is False:
                    continue
                cfg = (d, m)
                if cfg not in seen:
                    seen.add(cfg)
                    stack.append(cfg)
        return frozenset(seen)

    # fragments ------------------------------------------------------------
    def f_eps(self):
        s = self.new()
        return s, s

    def f_fail(self):
        return self.new(), self.new()

    def f_label(self, label):
        s, e = self.new(), self.new()
        self.add(s, label, e)
        return s, e

    def f_bytes(self, bs):
        s = cur = self.new()
        for b in bs:
            nx = self.new()
            self.add(cur, frozenset([b]) if isinstance(b, int) else frozenset(b), nx)
            cur = nx
        return s, cur

    def f_seq(self, frags):
        if not frags:
            return self.f_eps()
        s, e = frags[0]
        for s2, e2 in frags[1:]:
            self.add(e, None, s2)
            e = e2
        return s, e

    def f_alt(self, frags):
        s, e = self.new(), self.new()
        for s2, e2 in frags:
            self.add(s, None, s2)
            self.add(e2, None, e)
        return s, e

    def f_opt(self, frag):
        s, e = frag
        s0, e0 = self.new(), self.new()
        self.add(s0, None, s)
        self.add(e, None, e0)
        self.add(s0, None, e0)
        return s0, e0

    def f_rep(self, make, lo, hi):
        """make() builds a fresh copy of the body each time"""
        frags = []
        for _ in range(lo):
            frags.append(make())
        if hi == INF:
            s, e = make()
            s0 = self.new()
            e0 = self.new()
            self.add(s0, None, s)
            self.add(e, None, s0)
            self.add(s0, None, e0)
            frags.append((s0, e0))
        else:
            if hi - lo > 64:
                raise Incomplete(f'repetition bound {lo}..{hi} too wide to unroll')
            tail_end = self.new()
            cur_s = cur_e = None
            # optional copies nested: (x (x (x)?)?)?
            chain = []
            for _ in range(hi - lo):
                chain.append(make())
            nxt = None
            for s, e in reversed(chain):
                s0, e0 = self.new(), self.new()
                self.add(s0, None, s)
                self.add(s0, None, e0)
                if nxt is None:
                    self.add(e, None, e0)
                else:
                    self.add(e, None, nxt[0])
                    self.add(nxt[1], None, e0)
                nxt = (s0, e0)
            if nxt is not None:
                frags.append(nxt)
        return self.f_seq(frags)


def first_restrict(nfa, frag, sset):
    """`frag` under the lookahead "the next byte lies in sset" (a dispatch on a peeked byte: an arm that consumes
    nothing leaves the constraint to what follows)"""
    s, e = frag
    s0 = nfa.new()
    nfa.add(s0, None, s, frozenset(sset))
    return s0, e


def first_bytes(build):
    """first-byte set of the language of a fragment built by `build(nfa)` in a scratch automaton; None if it may be empty"""
    n = NFA()
    s, e = build(n)
    cl = n.closure([(s, None)])
    if any(st == e for st, _ in cl):
        return None
    out = set()
    for st, c in cl:
        for lab, _ in n.tr.get(st, ()):
            if isinstance(lab, frozenset):
                out |= (lab if c is None else (lab & c if c != 'eof' else frozenset()))
            else:
                return None
    return frozenset(out)


# --------------------------------------------------------------------------- ABNF side
class AbnfAutomata:
    def __init__(self, abnf, symbols):
        self.a = abnf
        self.symbols = symbols      # {rule name: symbol}

    def build(self, nfa, node, root=True, tail=frozenset(), ctx=None, depth=0):
        """tail: rules on the stack for which this position is a tail position (nothing follows inside them) — a
        reference to such a rule is right recursion and becomes a jump to its start"""
        ctx = ctx or {}
        if depth > 80:
            raise Incomplete('ABNF recursion not cut by a symbol')
        if isinstance(node, str):
            node = ('ref', node.lower())
        k = node[0]
        none = frozenset()
        if k == 'range':
            return nfa.f_label(self.a._bytes_of_range(node[1], node[2]))
        if k == 'seqv':
            return nfa.f_bytes(node[1])
        if k == 'str':
            return nfa.f_bytes([frozenset({ord(c.lower()), ord(c.upper())}) for c in node[1]])
        if k == 'alt':
            return nfa.f_alt([self.build(nfa, x, root, tail, ctx, depth + 1) for x in node[1]])
        if k == 'cat':
            n = len(node[1])
            return nfa.f_seq([self.build(nfa, x, False, tail if i == n - 1 else none, ctx, depth + 1) for i, x in enumerate(node[1])])
        if k == 'rep':
            if (node[1], node[2]) == (0, 1):
                return nfa.f_opt(self.build(nfa, node[3], False, tail, ctx, depth + 1))
            return nfa.f_rep(lambda: self.build(nfa, node[3], False, none, ctx, depth + 1), node[1], node[2])
        if k == 'ref':
            name = node[1]
            if name == 'end-of-input':
                s0, e0 = nfa.new(), nfa.new()
                nfa.add(s0, None, e0, 'eof')
                return s0, e0
            if name in self.symbols and not root:
                return nfa.f_label(('sym', self.symbols[name]))
            if name in ctx:
                if name in tail:
                    s0 = nfa.new()
                    nfa.add(s0, None, ctx[name])
                    return s0, nfa.new()
                raise Incomplete(f'ABNF rule `{name}` is recursive in a non-tail position and not a symbol')
            s_rule = nfa.new()
            ctx2 = dict(ctx)
            ctx2[name] = s_rule
            fs, fe = self.build(nfa, self.a.node(name), False, tail | {name}, ctx2, depth + 1)
            nfa.add(s_rule, None, fs)
            return s_rule, fe
        if k == 'sym':
            return nfa.f_label(('sym', node[1]))
        raise Incomplete(f'ABNF node {k}')

    def expr(self, text):
        """parse an ABNF expression (right-hand side) written in the checker"""
        return self.a._alt(self.a._tokens(text))


# --------------------------------------------------------------------------- model side
class GirAutomata:
    def __init__(self, g, symbols):
        self.g = g
        self.symbols = symbols      # {fn def path: symbol}
        self.approx = []            # (fn, kind, line) places where the automaton is a superset
        self.tops = []

    def build_fn(self, nfa, fn, consts=None):
        t = self.g.terms.get(fn)
        if t is None:
            raise Incomplete(f'no model of `{fn}`')
        return self.scoped(nfa, t, {'params': {}, 'consts': consts or {}, 'stack': (fn,), 'fn': fn})

    def scoped(self, nfa, t, env):
        """build a function / closure body: `return Ok(..)` jumps to its end, `return Err(..)` is a dead end"""
        end = nfa.new()
        env2 = dict(env)
        env2['fn_end'] = end
        env2['break_to'] = []
        s, e = self.build(nfa, t, env2)
        nfa.add(e, None, end)
        return s, end

    def _tok(self, nfa, t, env):
        lo, hi = t['min'], t['max']
        if isinstance(lo, tuple):
            try:
                lo, hi = self.g.ev.range(t['rng'], env['consts'])
            except Unanalysable as ex:
                raise Incomplete(f'symbolic bound in `{env["fn"]}`: {ex}')
        if t.get('exact') is not None:
            try:
                lo = hi = self.g.ev.integer(t['exact'], env['consts'])
            except Unanalysable as ex:
                raise Incomplete(f'symbolic length in `{env["fn"]}`: {ex}')
        if t.get('kind') in ('take_till', 'take_until', 'rest'):
            self.approx.append((env['fn'], t['kind'], t.get('l')))
        sset = frozenset(t['set'])
        return nfa.f_rep(lambda: nfa.f_label(sset), lo, hi)

    def build(self, nfa, t, env):
        op = t['op']
        if op == 'tok':
            return self._tok(nfa, t, env)
        if op == 'lit':
            return nfa.f_bytes(list(t['bytes']))
        if op == 'empty' and not t.get('brk'):
            return nfa.f_eps()
        if op == 'eof':
            s0, e0 = nfa.new(), nfa.new()
            nfa.add(s0, None, e0, 'eof')
            return s0, e0
        if op == 'peek':
            fb = first_bytes(lambda n: self.build(n, t['p'], env))
            if fb is None:
                self.approx.append((env['fn'], 'peek', t.get('l')))
                return nfa.f_eps()
            exact1 = t['p'].get('op') == 'tok' and (t['p'].get('min'), t['p'].get('max')) == (1, 1)
            if not exact1:
                self.approx.append((env['fn'], 'peek(first byte only)', t.get('l')))
            s0, e0 = nfa.new(), nfa.new()
            nfa.add(s0, None, e0, fb)
            return s0, e0
        if op == 'not':
            self.approx.append((env['fn'], 'not', t.get('l')))
            return nfa.f_eps()
        if op == 'empty' and t.get('ret'):
            s0 = nfa.new()
            if t['ret'] == 'ok':
                if env.get('fn_end') is None:
                    raise Incomplete(f'`{env["fn"]}`: return outside a modelled function')
                nfa.add(s0, None, env['fn_end'])
            return s0, nfa.new()
        if op == 'empty' and t.get('brk'):
            if not env.get('break_to'):
                raise Incomplete(f'`{env["fn"]}`: break outside a modelled loop')
            s0 = nfa.new()
            nfa.add(s0, None, env['break_to'][-1])
            return s0, nfa.new()
        if op == 'fail':
            return nfa.f_fail()
        if op == 'seq':
            items = t['items']
            if t.get('iflet') == 'Some' and len(items) == 2 and items[1].get('op') == 'alt' and len(items[1]['items']) == 2:
                c = items[0]
                inner = c
                while inner.get('op') == 'map' and inner['kind'] not in ('verify', 'try_map', 'verify_map', 'parse_to'):
                    inner = inner['p']
                if inner.get('op') == 'opt':
                    a, b = items[1]['items']
                    # `if let Some(_) = opt(p) { a } else { b }`: a runs after p matched, b when it did not (the "p does not match
                    # here" side condition of the else branch is dropped: superset)
                    return nfa.f_alt([nfa.f_seq([self.build(nfa, inner['p'], env), self.build(nfa, a, env)]), self.build(nfa, b, env)])
            frags = []
            i = 0
            while i < len(items):
                x = items[i]
                if x.get('op') == 'tok' and x.get('kind') == 'any' and x.get('dispatch_ref') is not None and (x['min'], x['max']) == (1, 1) \
                        and i + 1 < len(items) and items[i + 1] is x['dispatch_ref']:
                    alts = []
                    for sset, arm in self.g.dispatch_rows(x['dispatch_ref']):
                        head = nfa.f_label(frozenset(sset) if sset is not None else frozenset(ALL))
                        alts.append(nfa.f_seq([head, self.build(nfa, arm['p'], env)]))
                    frags.append(nfa.f_alt(alts))
                    i += 2
                    continue
                frags.append(self.build(nfa, x, env))
                i += 1
            return nfa.f_seq(frags)
        if op == 'alt':
            return nfa.f_alt([self.build(nfa, x, env) for x in t['items']])
        if op == 'opt':
            return nfa.f_opt(self.build(nfa, t['p'], env))
        if op == 'rep':
            if t.get('handloop'):
                # loop { body }: leaves only through `break`
                head, exit_ = nfa.new(), nfa.new()
                env2 = dict(env)
                env2['break_to'] = list(env.get('break_to') or []) + [exit_]
                bs, be = self.build(nfa, t['p'], env2)
                nfa.add(head, None, bs)
                nfa.add(be, None, head)
                return head, exit_
            return nfa.f_rep(lambda: self.build(nfa, t['p'], env), t['min'], t['max'])
        if op == 'sep':
            lo, hi = t['min'], t['max']
            more = nfa.f_rep(lambda: nfa.f_seq([self.build(nfa, t['sep'], env), self.build(nfa, t['p'], env)]),
                             max(lo - 1, 0), INF if hi == INF else max(hi - 1, 0))
            r = nfa.f_seq([self.build(nfa, t['p'], env), more])
            if lo == 0:
                r = nfa.f_opt(r)
            return r
        if op == 'map':
            if t['kind'] == 'verify' and t['p'].get('op') == 'tok' and isinstance(t['p'].get('min'), tuple):
                clo = peel(t.get('filt') or {})
                if clo.get('k') == 'closure':
                    for n in walk(clo['body']):
                        if n.get('k') == 'binary' and n.get('op') == '==' and peel(n['a']).get('k') == 'mcall' and peel(n['a']).get('name') == 'len':
                            inner = dict(t['p'])
                            inner['exact'] = n['b']
                            return self._tok(nfa, inner, env)
            if t['kind'] in ('verify', 'try_map', 'verify_map', 'parse_to'):
                self.approx.append((env['fn'], t['kind'], t.get('l')))
            if t['kind'] == 'scope':
                return self.scoped(nfa, t['p'], env)
            return self.build(nfa, t['p'], env)
        if op == 'checkrec':
            return self.build(nfa, t['p'], env)
        if op == 'and_then':
            self.approx.append((env['fn'], 'and_then', t.get('l')))
            return self.build(nfa, t['p'], env)
        if op == 'dispatch':
            sc = t['scrut']
            x = sc
            peeked = False
            while x.get('op') in ('map', 'opt', 'peek'):
                if x['op'] == 'peek':
                    peeked = True
                x = x['p']
            rows = self.g.dispatch_rows(t)
            if peeked and x.get('op') == 'tok' and (x['min'], x['max']) == (1, 1) and all(r[0] is not None for r in rows):
                alts = []
                for sset, arm in rows:
                    alts.append(first_restrict(nfa, self.build(nfa, arm['p'], env), frozenset(sset)))
                return nfa.f_alt(alts)
            arms = nfa.f_alt([self.build(nfa, a['p'], env) for a in t['arms']])
            if not t.get('bound'):
                return nfa.f_seq([self.build(nfa, sc, env), arms])
            return arms
        if op in ('ref', 'call'):
            fn = t['fn']
            if fn in self.symbols:
                return nfa.f_label(('sym', self.symbols[fn]))
            ft = self.g.terms.get(fn)
            if ft is None:
                self.tops.append((env['fn'], f'unmodelled function `{fn}`', t.get('l')))
                raise Incomplete(f'`{env["fn"]}` uses `{fn}`, which has no model')
            if fn in env['stack']:
                raise Incomplete(f'recursion through `{fn}` is not cut by a symbol')
            params = {}
            if op == 'call':
                b = self.g.facts.bodies.get(fn, {})
                names = [p.get('name') for p in b.get('params', [])]
                for nm, a in zip(names, t.get('args') or []):
                    if a is not None and nm is not None:
                        params[nm] = (a, env)
            consts = self.g.value_env(t)
            env2 = {'params': params, 'consts': consts, 'stack': env['stack'] + (fn,), 'fn': fn}
            return self.scoped(nfa, ft, env2)
        if op == 'param':
            hit = env['params'].get(t['name'])
            if hit is None:
                self.tops.append((env['fn'], f'parser parameter `{t["name"]}` without argument', t.get('l')))
                raise Incomplete(f'`{env["fn"]}`: parser parameter `{t["name"]}` has no argument here')
            a, aenv = hit
            return self.build(nfa, a, aenv)
        self.tops.append((env['fn'], t.get('why', op), t.get('l')))
        raise Incomplete(f'`{env["fn"]}`: unmodelled construct ({t.get("why", op)})')


# --------------------------------------------------------------------------- comparison
def minterms(nfas):
    labels = set()
    for n in nfas:
        for s, lst in n.tr.items():
            for lab, _ in lst:
                if isinstance(lab, frozenset):
                    labels.add(lab)
        for s, lst in n.eps.items():
            for _, cons in lst:
                if isinstance(cons, frozenset):
                    labels.add(cons)
    labels = list(labels)
    sig = defaultdict(list)
    for b in range(256):
        sig[tuple(b in l for l in labels)].append(b)
    return [frozenset(v) for v in sig.values()]


def _index(nfa, classes):
    """state -> {letter: set(dst)}; letter = class index or ('sym', name)"""
    rep = [min(c) for c in classes]
    idx = {}
    for s, lst in nfa.tr.items():
        d = defaultdict(set)
        for lab, dst in lst:
            if isinstance(lab, frozenset):
                for i, r in enumerate(rep):
                    if r in lab:
                        d[i].add(dst)
            else:
                d[lab].add(dst)
        idx[s] = d
    return idx


def compare(n1, f1, n2, f2, limit=400000):
    """-> (word accepted by 1 only or None, word accepted by 2 only or None, #product states).
    Words are lists of letters: a byte (representative of its class) or ('sym', name)."""
    classes = minterms([n1, n2])
    rep = [min(c) for c in classes]
    i1, i2 = _index(n1, classes), _index(n2, classes)
    letters = set()
    for idx in (i1, i2):
        for d in idx.values():
            letters |= set(d)
    letters = sorted(letters, key=lambda x: (isinstance(x, tuple), x))
    start = (n1.closure([(f1[0], None)]), n2.closure([(f2[0], None)]))
    seen = {start: None}
    q = deque([start])
    only1 = only2 = None

    def word(st):
        w = []
        while seen[st] is not None:
            st, letter = seen[st]
            w.append(min(classes[letter]) if isinstance(letter, int) else letter)
        return list(reversed(w))
    while q:
        st = q.popleft()
        a, b = st
        acc1, acc2 = any(x[0] == f1[1] for x in a), any(x[0] == f2[1] for x in b)
        if acc1 and not acc2 and only1 is None:
            only1 = word(st)
        if acc2 and not acc1 and only2 is None:
            only2 = word(st)
        if only1 is not None and only2 is not None:
            break
        for letter in letters:
            r = rep[letter] if isinstance(letter, int) else None
            na = set()
            for s, c in a:
                if c is not None and r is not None and (c == 'eof' or r not in c):
                    continue
                d = i1.get(s)
                if d and letter in d:
                    na |= {(x, None) for x in d[letter]}
            nb = set()
            for s, c in b:
                if c is not None and r is not None and (c == 'eof' or r not in c):
                    continue
                d = i2.get(s)
                if d and letter in d:
                    nb |= {(x, None) for x in d[letter]}
            if not na and not nb:
                continue
            nxt = (n1.closure(na), n2.closure(nb))
            if nxt not in seen:
                seen[nxt] = (st, letter)
                q.append(nxt)
                if len(seen) > limit:
                    raise Incomplete('product automaton too large')
    return only1, only2, len(seen)


def show_word(w):
    out = []
    for x in w:
        if isinstance(x, tuple):
            out.append('<' + x[1] + '>')
        elif 0x20 <= x < 0x7f and x not in (0x5c,):
            out.append(chr(x))
        else:
            out.append('\\x%02x' % x)
    return '`' + ''.join(out) + '`' if out else '(the empty text)'


def accepts(nfa, frag, data):
    """membership of a byte string in the language of a fragment (no symbol transitions are taken)"""
    start, end = frag
    cur = nfa.closure([(start, None)])
    for b in data:
        nxt = set()
        for s, c in cur:
            if c == 'eof' or (c is not None and b not in c):
                continue
            for label, d in nfa.tr.get(s, ()):
                if isinstance(label, frozenset) and b in label:
                    nxt.add((d, None))
        if not nxt:
            return False
        cur = nfa.closure(nxt)
    return any(s == end and (c is None or c == 'eof') for s, c in cur)
