"""Denotations over exact finite domains: byte sets, small integer sets, structural
evaluation of constant expressions from their typed-HIR trees.  Nothing is executed;
an expression outside the supported forms raises Unanalysable (rules fail closed)."""
import os

from .core import AnalysisIncomplete, peel, last_seg

INF = float('inf')
ALL = frozenset(range(256))
ASCII = frozenset(range(128))


class Unanalysable(AnalysisIncomplete):
    pass


def fmt_set(s):
    """compact rendering of a byte/int set"""
    if s is None:
        return 'TOP'
    xs = sorted(s)
    out = []
    i = 0
    while i < len(xs):
        j = i
        while j + 1 < len(xs) and xs[j + 1] == xs[j] + 1:
            j += 1
        out.append(f'{xs[i]:#04x}' if i == j else f'{xs[i]:#04x}-{xs[j]:#04x}')
        i = j + 1
    return '{' + ','.join(out) + '}'


class Evaluator:
    """Evaluates constant expressions structurally (literals, ranges, tuples, arrays,
    paths to other consts, const generic parameters through `env`)."""

    def __init__(self, facts):
        self.facts = facts

    def const_body(self, path):
        b = self.facts.bodies.get(path)
        if b is None:
            raise Unanalysable(f'constant `{path}` has no body in the facts')
        return b['body']

    def integer(self, e, env=None):
        e = peel(e)
        k = e.get('k')
        if k == 'lit' and e.get('lk') in ('int', 'byte', 'char'):
            return e['v']
        if k == 'cast':
            return self.integer(e['a'], env)
        if k == 'path':
            res = e.get('res', '')
            p = e.get('path', '')
            if res.startswith('ConstParam'):
                name = last_seg(p)
                if env and name in env:
                    return env[name]
                raise Unanalysable(f'const parameter `{name}` unbound')
            if res.startswith('AssocConst') and p.endswith('::MAX') and 'usize' in p:
                return INF
            if res.startswith('Const') or res.startswith('AssocConst') or res.startswith('Static'):
                return self.integer(self.const_body(p), env)
            if res == 'Local':
                if env and p in env:
                    return env[p]
            raise Unanalysable(f'cannot evaluate path `{p}` ({res}) to an integer')
        if k == 'binary':
            a = self.integer(e['a'], env)
            b = self.integer(e['b'], env)
            op = e['op']
            if op == '+':
                return a + b
            if op == '-':
                return a - b
            if op == '*':
                return a * b
            if op == '/':
                return a // b
            raise Unanalysable(f'operator {op} in constant')
        if k == 'unary' and e.get('op') == '-':
            return -self.integer(e['a'], env)
        if k == 'index':
            base = self.bytes(e['base'], env)
            idx = self.integer(e['idx'], env)
            return base[idx]
        if k == 'mcall' and e.get('name') == 'len':
            try:
                return len(self.bytes(e['recv'], env))
            except Unanalysable:
                return len(self.array(e['recv'], env))
        if k == 'constblock':
            return self.integer(e['body'], env)
        raise Unanalysable(f'cannot evaluate {k} at line {e.get("l")} to an integer')

    def array(self, e, env=None):
        e = peel(e)
        if e.get('k') == 'array':
            return [self.integer(x, env) for x in e['elems']]
        if e.get('k') == 'path' and (e.get('res', '').startswith('Const') or e.get('res', '').startswith('Static')):
            return self.array(self.const_body(e['path']), env)
        raise Unanalysable(f'cannot evaluate {e.get("k")} at line {e.get("l")} to an array')

    def bytes(self, e, env=None):
        """byte-string valued expression -> tuple of ints"""
        e = peel(e)
        k = e.get('k')
        if k == 'lit':
            if e.get('lk') in ('bytes',):
                return tuple(e['v'])
            if e.get('lk') == 'str':
                return tuple(e['v'].encode())
            if e.get('lk') in ('byte',):
                return (e['v'],)
            if e.get('lk') == 'char' and e['v'] < 128:
                return (e['v'],)
        if k == 'path' and (e.get('res', '').startswith('Const') or e.get('res', '').startswith('Static')):
            return self.bytes(self.const_body(e['path']), env)
        if k == 'index':
            # b"..."[..] full-range slicing
            idx = peel(e['idx'])
            if idx.get('k') == 'struct' and 'RangeFull' in (idx.get('path') or ''):
                return self.bytes(e['base'], env)
            if idx.get('k') == 'path' and 'RangeFull' in (idx.get('path') or ''):
                return self.bytes(e['base'], env)
        if k == 'cast':
            return self.bytes(e['a'], env)
        raise Unanalysable(f'cannot evaluate {k} at line {e.get("l")} to a byte string')

    def range(self, e, env=None):
        """range-valued expression -> (lo, hi) inclusive, hi may be INF"""
        e = peel(e)
        k = e.get('k')
        if k == 'call':
            p = (e.get('f') or {}).get('path', '')
            if p.endswith('RangeInclusive::<Idx>::new') or last_seg(p) == 'new' and 'RangeInclusive' in p:
                return (self.integer(e['args'][0], env), self.integer(e['args'][1], env))
        if k == 'struct':
            p = e.get('path') or e.get('adt') or ''
            f = {x['name']: x['e'] for x in e.get('fields', [])}
            if 'RangeFrom' in p:
                return (self.integer(f['start'], env), INF)
            if 'RangeToInclusive' in p:
                return (0, self.integer(f['end'], env))
            if 'RangeTo' in p:
                return (0, self.integer(f['end'], env) - 1)
            if 'RangeFull' in p:
                return (0, INF)
            if 'Range' in p and 'start' in f and 'end' in f:
                return (self.integer(f['start'], env), self.integer(f['end'], env) - 1)
        if k == 'path':
            res = e.get('res', '')
            if 'RangeFull' in (e.get('path') or ''):
                return (0, INF)
            if res.startswith('Const') or res.startswith('Static'):
                return self.range(self.const_body(e['path']), env)
        if k == 'lit' and e.get('lk') == 'int':
            return (e['v'], e['v'])
        if k == 'path' or k == 'cast':
            v = self.integer(e, env)
            return (v, v)
        raise Unanalysable(f'cannot evaluate {k} at line {e.get("l")} to a range')

    def byteset(self, e, env=None):
        """token-class expression (u8, char, ranges, tuples, arrays, slices, consts) -> frozenset of bytes"""
        e = peel(e)
        k = e.get('k')
        if k == 'lit':
            lk = e.get('lk')
            if lk in ('byte', 'int'):
                return frozenset([e['v']])
            if lk == 'char':
                if e['v'] < 128:
                    return frozenset([e['v']])
                raise Unanalysable('non-ASCII char as byte class')
            if lk in ('bytes',):
                return frozenset(e['v'])
            if lk == 'str':
                return frozenset(e['v'].encode())
        if k in ('tup', 'array'):
            s = frozenset()
            for x in e['elems']:
                s |= self.byteset(x, env)
            return s
        if k == 'call' or k == 'struct':
            lo, hi = self.range(e, env)
            hi = 255 if hi == INF else hi
            return frozenset(range(lo, hi + 1)) & ALL
        if k == 'path':
            res = e.get('res', '')
            if res.startswith('Const') or res.startswith('Static'):
                return self.byteset(self.const_body(e['path']), env)
            if res in ('Fn', 'AssocFn'):
                # a predicate `fn(u8) -> bool` (winnow's ContainsToken for functions): the bytes it accepts
                b = None
                facts = getattr(self, 'facts', None)
                for p in (e.get('resolved'), e.get('path')):
                    if facts is not None and p in facts.bodies:
                        b = facts.bodies[p]
                        break
                if b is not None and len(b.get('params', [])) == 1:
                    it = Interp(self)
                    out = set()
                    for v in range(256):
                        r = it.apply_fn(b, [v])
                        if r is True:
                            out.add(v)
                        elif r is not False:
                            raise Unanalysable(f'predicate `{e.get("path")}` does not evaluate to a bool')
                    return frozenset(out)
                std = {'is_ascii_digit': BYTE_PREDICATES.get('is_ascii_digit'), 'is_ascii_hexdigit': BYTE_PREDICATES.get('is_ascii_hexdigit'),
                       'is_ascii_alphabetic': BYTE_PREDICATES.get('is_ascii_alphabetic'), 'is_ascii_alphanumeric': BYTE_PREDICATES.get('is_ascii_alphanumeric')}
                seg = last_seg(e.get('path') or '')
                if std.get(seg):
                    return frozenset(v for v in range(256) if std[seg](v))
        if k == 'closure' and len(e.get('params', [])) == 1:
            it = Interp(self)
            out = set()
            for v in range(256):
                r = it.apply(('closure', e, dict(env or {})), [v])
                if r is True:
                    out.add(v)
                elif r is not False:
                    raise Unanalysable('predicate closure does not evaluate to a bool')
            return frozenset(out)
        if k == 'cast':
            return self.byteset(e['a'], env)
        if k == 'index':
            return frozenset([self.integer(e, env)])
        if k == 'mcall' and e.get('name') in ('clone', 'to_owned', 'by_ref', 'into') and not e.get('args'):
            return self.byteset(e['recv'], env)
        if k == 'path' and e.get('res') == 'Local' and env and isinstance(env.get(e.get('path')), dict) and 'k' in env[e['path']]:
            return self.byteset(env[e['path']], {kk: vv for kk, vv in env.items() if kk != e['path']})
        if k == 'path' and e.get('res') == 'Local' and env and isinstance(env.get(e.get('path')), frozenset):
            return env[e['path']]
        raise Unanalysable(f'cannot evaluate {k} at line {e.get("l")} to a byte class')


# ----------------------------------------------------------------------------
# Boolean predicates over one integer variable -> accepted set within a universe

def pred_set(ev, e, var, universe, env=None):
    """Set of values v in `universe` for which the boolean HIR expression `e`
    (over the local variable `var`, possibly through `&`/`*`) is true."""
    e = peel(e)
    k = e.get('k')

    def is_var(x):
        x = peel(x)
        if x.get('k') == 'path' and x.get('res') == 'Local' and x.get('path') == var:
            return True
        if x.get('k') == 'cast':
            return is_var(x['a'])
        if x.get('k') == 'call' and last_seg((x.get('f') or {}).get('path', '')) == 'from' and len(x.get('args', [])) == 1:
            return is_var(x['args'][0])
        return False

    if k == 'lit' and e.get('lk') == 'bool':
        return set(universe) if e['v'] else set()
    if k == 'mcall' and e.get('name') == 'contains':
        if is_var(e['args'][0]):
            lo, hi = ev.range(e['recv'], env)
            return {v for v in universe if lo <= v <= hi}
    if k == 'unary' and e.get('op') == '!':
        return set(universe) - pred_set(ev, e['a'], var, universe, env)
    if k == 'binary':
        op = e['op']
        if op == '&&':
            return pred_set(ev, e['a'], var, universe, env) & pred_set(ev, e['b'], var, universe, env)
        if op == '||':
            return pred_set(ev, e['a'], var, universe, env) | pred_set(ev, e['b'], var, universe, env)
        a, b = e['a'], e['b']
        flip = {'<': '>', '>': '<', '<=': '>=', '>=': '<=', '==': '==', '!=': '!='}
        if op in flip:
            if is_var(a):
                c = ev.integer(b, env)
            elif is_var(b):
                c = ev.integer(a, env)
                op = flip[op]
            else:
                # (var % m) op c
                pa = peel(a)
                if pa.get('k') == 'binary' and pa.get('op') == '%' and is_var(pa['a']):
                    m = ev.integer(pa['b'], env)
                    c = ev.integer(b, env)
                    f = {'==': lambda v: v % m == c, '!=': lambda v: v % m != c}[op]
                    return {v for v in universe if f(v)}
                raise Unanalysable(f'comparison at line {e.get("l")} does not mention `{var}`')
            f = {'<': lambda v: v < c, '>': lambda v: v > c, '<=': lambda v: v <= c, '>=': lambda v: v >= c,
                 '==': lambda v: v == c, '!=': lambda v: v != c}[op]
            return {v for v in universe if f(v)}
    if k == 'match' and 'src' in e:
        # matches!(x, pat) expands to match x { pat => true, _ => false }
        if is_var(e['scrut']):
            acc = set()
            rest = set(universe)
            for arm in e['arms']:
                s = pat_set(ev, arm['pat'], rest, env)
                if 'guard' in arm:
                    s = s & pred_set(ev, arm['guard'], var, universe, env)
                body = peel(arm['body'])
                if body.get('k') == 'lit' and body.get('lk') == 'bool':
                    if body['v']:
                        acc |= s
                    if 'guard' not in arm:
                        rest -= s
                else:
                    raise Unanalysable('match arm is not a boolean literal')
            return acc
    raise Unanalysable(f'unsupported predicate form `{k}` at line {e.get("l")}')


def pat_set(ev, p, universe, env=None):
    """Values of `universe` matched by an integer/byte pattern."""
    k = p.get('k')
    if k == 'p_wild' or k == 'p_bind' and 'sub' not in p:
        return set(universe)
    if k == 'p_bind':
        return pat_set(ev, p['sub'], universe, env)
    if k == 'p_or':
        s = set()
        for x in p['pats']:
            s |= pat_set(ev, x, universe, env)
        return s
    if k == 'p_expr':
        e = p['e']
        if e.get('k') == 'lit':
            if e.get('lk') in ('byte', 'int', 'char'):
                return {e['v']} & set(universe)
            raise Unanalysable('non-integer literal pattern')
        if e.get('k') == 'path':
            return {ev.integer(e, env)} & set(universe)
    if k == 'p_range':
        lo = ev.integer(p['lo']) if 'lo' in p else -INF
        hi = ev.integer(p['hi']) if 'hi' in p else INF
        if not p.get('incl'):
            hi -= 1
        return {v for v in universe if lo <= v <= hi}
    if k in ('p_ref', 'p_deref'):
        return pat_set(ev, p['pat'], universe, env)
    raise Unanalysable(f'unsupported pattern `{k}` at line {p.get("l")}')


# ----------------------------------------------------------------------------
# Exact evaluation of *pure* integer / boolean expression trees over a concrete
# environment.  Used to tabulate a guard or a table over a finite universe (all
# months x leap flags, all years 0..=9999, all 2-digit values); this is the
# denotation of the expression by structural recursion, not an execution of the
# repository's code: calls other than the handful of pure std helpers listed here
# are Unanalysable.

INT_BOUNDS = {'u8': (0, 255), 'u16': (0, 65535), 'u32': (0, 2 ** 32 - 1), 'u64': (0, 2 ** 64 - 1), 'usize': (0, 2 ** 64 - 1),
              'i8': (-128, 127), 'i16': (-2 ** 15, 2 ** 15 - 1), 'i32': (-2 ** 31, 2 ** 31 - 1), 'i64': (-2 ** 63, 2 ** 63 - 1)}

BYTE_PREDICATES = {
    'is_ascii_digit': lambda b: 0x30 <= b <= 0x39,
    'is_ascii_control': lambda b: b <= 0x1f or b == 0x7f,
    'is_ascii_alphabetic': lambda b: 0x41 <= b <= 0x5a or 0x61 <= b <= 0x7a,
    'is_ascii_alphanumeric': lambda b: 0x30 <= b <= 0x39 or 0x41 <= b <= 0x5a or 0x61 <= b <= 0x7a,
    'is_ascii_hexdigit': lambda b: 0x30 <= b <= 0x39 or 0x41 <= b <= 0x46 or 0x61 <= b <= 0x66,
    'is_ascii_uppercase': lambda b: 0x41 <= b <= 0x5a,
    'is_ascii_lowercase': lambda b: 0x61 <= b <= 0x7a,
    'is_ascii_whitespace': lambda b: b in (0x20, 0x09, 0x0a, 0x0c, 0x0d),
    'is_ascii_punctuation': lambda b: 0x21 <= b <= 0x2f or 0x3a <= b <= 0x40 or 0x5b <= b <= 0x60 or 0x7b <= b <= 0x7e,
    'is_ascii_graphic': lambda b: 0x21 <= b <= 0x7e,
    'is_ascii': lambda b: b <= 0x7f,
    # `char` predicates over a code point (Unicode general categories, as std documents them)
    'is_numeric': lambda c: __import__('unicodedata').category(chr(c)) in ('Nd', 'Nl', 'No'),
    'is_alphabetic': lambda c: chr(c).isalpha(),
    'is_alphanumeric': lambda c: chr(c).isalpha() or __import__('unicodedata').category(chr(c)) in ('Nd', 'Nl', 'No'),
    'is_whitespace': lambda c: chr(c).isspace() and c not in (0x1c, 0x1d, 0x1e, 0x1f),
    'is_control': lambda c: __import__('unicodedata').category(chr(c)) == 'Cc',
    'is_uppercase': lambda c: chr(c).isupper(),
    'is_lowercase': lambda c: chr(c).islower(),
}


class EvalPanic(Exception):
    """the evaluated expression would panic for this input (slice / index out of range, arithmetic overflow, unwrap on None / Err)"""


class Brk(Exception):
    pass


class IterObj:
    """a stateful iterator value (chars / bytes / slice iterators): `next` advances it, `clone` copies it"""

    def __init__(self, items, kind=None, pos=0):
        self.items = list(items)
        self.kind = kind
        self.pos = pos

    def clone(self):
        return IterObj(self.items, self.kind, self.pos)

    def rest(self):
        return self.items[self.pos:]

    def __repr__(self):
        return f'IterObj({self.rest()!r})'


def rust_str_literal(lit):
    """value of a Rust string literal token (`"..."` with \\n \\t \\r \\0 \\\\ \\" \\' \\xNN \\u{..} and line continuations)"""
    body = lit[1:-1]
    out = []
    i = 0
    while i < len(body):
        c = body[i]
        if c != '\\':
            out.append(c)
            i += 1
            continue
        n = body[i + 1:i + 2]
        simple = {'n': '\n', 't': '\t', 'r': '\r', '0': '\0', '\\': '\\', '"': '"', "'": "'"}
        if n in simple:
            out.append(simple[n])
            i += 2
        elif n == 'x':
            out.append(chr(int(body[i + 2:i + 4], 16)))
            i += 4
        elif n == 'u' and body[i + 2:i + 3] == '{':
            j = body.index('}', i)
            out.append(chr(int(body[i + 3:j].replace('_', ''), 16)))
            i = j + 1
        elif n == '\n':
            i += 2
            while i < len(body) and body[i] in ' \t\n\r':
                i += 1
        else:
            raise Unanalysable(f'escape `\\{n}` in a string literal')
    return ''.join(out)


class VecObj:
    """a growable sequence (`Vec`, `String` buffers of items): `push` / `insert` / `remove` change it in place, whoever holds it sees the change"""

    def __init__(self, items=()):
        self.items = list(items)

    def __eq__(self, other):
        return isinstance(other, VecObj) and self.items == other.items or (isinstance(other, tuple) and tuple(self.items) == other)

    def __hash__(self):
        return id(self)

    def __len__(self):
        return len(self.items)

    def __iter__(self):
        return iter(self.items)

    def __repr__(self):
        return f'Vec{self.items!r}'


class Ret(Exception):
    def __init__(self, v):
        self.v = v


class Interp:
    def __init__(self, ev):
        self.ev = ev

    def run(self, e, env):
        try:
            return self.val(e, dict(env))
        except Ret as r:
            return r.v

    def run_body(self, body, env):
        """evaluate a function body record (facts.body(..)) in the given environment, which is updated in place; `return` ends the evaluation"""
        saved = getattr(self, 'file', None)
        if body.get('file'):
            self.file = body['file']
        try:
            return self.val(body['body'], env)
        except Ret as r:
            return r.v
        finally:
            self.file = saved

    def val(self, e, env):
        k = e.get('k')
        if k == 'block' and e.get('inl'):
            # the body of a helper expanded at its call (verif/normalise.py): `return` and `?` inside it leave the helper, not the caller
            try:
                for s in e.get('stmts', []):
                    self.val(s, env)
                if e.get('expr') is not None:
                    return self.val(e['expr'], env)
                return ()
            except Ret as r:
                return r.v
        if k == 'block':
            for s in e.get('stmts', []):
                self.val(s, env)
            if e.get('expr') is not None:
                return self.val(e['expr'], env)
            return ()
        if k == 'let':
            if 'init' not in e:
                return ()               # `let x;` — bound by the first assignment
            v = self.val(e['init'], env)
            if 'else' in e:
                # `let PAT = v else { diverge };`
                env2 = dict(env)
                if self.matches(e['pat'], v, env2):
                    env.update(env2)
                    return ()
                self.val(e['else'], env)
                raise Unanalysable('the else block of a let-else did not diverge in evaluation')
            self.bind(e['pat'], v, env)
            return ()
        if k == 'semi':
            self.val(e['e'], env)
            return ()
        if k == 'lit':
            if e.get('lk') in ('int', 'byte', 'char', 'bool'):
                return e['v']
            if e.get('lk') == 'str':
                return e['v']
            raise Unanalysable('literal kind ' + str(e.get('lk')))
        if k == 'path':
            res = e.get('res', '')
            p = e.get('path', '')
            if res == 'Local':
                if p in env:
                    return env[p]
                raise Unanalysable(f'unbound local `{p}`')
            if res.startswith('Ctor'):
                return ('ctor', p)
            if (res.startswith('Const') and not res.startswith('ConstParam')) or res.startswith('Static') or res.startswith('AssocConst'):
                try:
                    cb = peel(self.ev.const_body(p))
                except Unanalysable:
                    cb = {}
                if cb.get('k') in ('tup', 'struct', 'call', 'array') and not (cb.get('k') == 'array' and all(peel(x).get('k') == 'lit' for x in cb.get('elems', []))):
                    return self.val(cb, {})
            if res in ('Fn', 'AssocFn'):
                wb = self._workspace_body(e)
                if wb is not None:
                    return ('closure', {'params': wb.get('params', []), 'body': wb['body'], 'fnval': wb.get('def')}, {})
                raise Unanalysable(f'function `{p}` used as a value has no body in the facts')
            try:
                return self.ev.integer(e, env)
            except Unanalysable:
                pass
            try:
                return tuple(self.ev.array(e))
            except Unanalysable:
                pass
            bs = self.ev.bytes(e)
            try:
                return bytes(bs).decode('utf-8')
            except (UnicodeDecodeError, ValueError, TypeError):
                raise Unanalysable(f'constant `{p}` has no value the evaluator models')
        if k == 'cast':
            v = self.val(e['a'], env)
            ty = (e.get('t') or '').strip()
            if getattr(self, 'checked_arith', False) and ty in INT_BOUNDS and isinstance(v, int) and not isinstance(v, bool) \
                    and not (INT_BOUNDS[ty][0] <= v <= INT_BOUNDS[ty][1]):
                raise EvalPanic(f'`{v} as {ty}` loses the value (line {e.get("l")})')
            return v
        if k == 'addrof':
            return self.val(e['a'], env)
        if k == 'unary':
            v = self.val(e['a'], env)
            if e['op'] == '!':
                return not v
            if e['op'] == '-':
                return -v
            if e['op'] == '*':
                return v
        if k == 'binary':
            op = e['op']
            if op == '&&':
                return bool(self.val(e['a'], env)) and bool(self.val(e['b'], env))
            if op == '||':
                return bool(self.val(e['a'], env)) or bool(self.val(e['b'], env))
            a = self.val(e['a'], env)
            b = self.val(e['b'], env)
            ops = {'+': lambda: a + b, '-': lambda: a - b, '*': lambda: a * b, '/': lambda: a // b, '%': lambda: a % b,
                   '<': lambda: a < b, '<=': lambda: a <= b, '>': lambda: a > b, '>=': lambda: a >= b,
                   '==': lambda: a == b, '!=': lambda: a != b}
            if op in ops:
                r = ops[op]()
                ty = (e.get('t') or '').strip()
                if op in ('+', '-', '*') and ty in INT_BOUNDS and isinstance(r, int) and not isinstance(r, bool) and getattr(self, 'checked_arith', False) \
                        and not (INT_BOUNDS[ty][0] <= r <= INT_BOUNDS[ty][1]):
                    raise EvalPanic(f'`{a} {op} {b}` overflows {ty} (line {e.get("l")})')
                return r
        if k == 'loop':
            watch = getattr(self, 'watch_progress', False)
            cands = None

            def sizes():
                out = {}
                for nm, v in env.items():
                    if isinstance(v, str):
                        out[nm] = len(v.encode('utf-8'))
                    elif isinstance(v, IterObj):
                        out[nm] = len(v.items) - v.pos
                return out
            prev = sizes() if watch else None
            for _ in range(200000):
                try:
                    self.val(e['body'], env)
                except Brk:
                    return ()
                if watch:
                    # a variant: some string / iterator the loop works on got strictly shorter in every iteration so far
                    cur = sizes()
                    dec = {nm for nm in cur if nm in prev and cur[nm] < prev[nm]}
                    cands = dec if cands is None else (cands & dec)
                    if not cands:
                        raise EvalPanic(f'the loop at line {e.get("l")} went round without shortening any string or iterator it works on (no progress)')
                    prev = cur
            raise Unanalysable('loop does not terminate in evaluation')
        if k == 'break':
            raise Brk()
        if k == 'letexpr':
            v = self.val(e['init'], env)
            env2 = dict(env)
            if self.matches(e['pat'], v, env2):
                env.update(env2)
                return True
            return False
        if k == 'if':
            c = self.val(e['cond'], env)
            if c:
                return self.val(e['then'], env)
            if 'else' in e:
                return self.val(e['else'], env)
            return ()
        if k == 'match' and 'TryDesugar' in (e.get('src') or ''):
            sc = e['scrut']
            inner = sc['args'][0] if sc.get('k') == 'call' and sc.get('args') else sc
            v = self.val(inner, env)
            if isinstance(v, tuple) and v and v[0] == 'ctor':
                if v[1].endswith('Result::Ok') or v[1].endswith('Option::Some'):
                    return v[2][0]
                if v[1].endswith('Result::Err') or v[1].endswith('Option::None'):
                    raise Ret(v)
            raise Unanalysable('`?` on a value the evaluator does not model')
        if k == 'index':
            base = self.val(e['base'], env)
            if isinstance(base, VecObj):
                base = tuple(base.items)
            idx = self.val(e['idx'], env)
            if isinstance(base, str) and isinstance(idx, tuple) and idx and idx[0] == 'range':
                # a str is sliced by byte offsets, which must fall on character boundaries
                bs = base.encode('utf-8')
                lo = 0 if idx[1] in (None, -INF) else idx[1]
                hi = len(bs) if idx[2] in (None, INF) else idx[2] + 1
                if lo > hi or hi > len(bs) or lo < 0:
                    raise EvalPanic(f'slice {lo}..{hi} out of range for a str of {len(bs)} bytes (line {e.get("l")})')
                try:
                    bs[:lo].decode('utf-8')
                    return bs[lo:hi].decode('utf-8')
                except UnicodeDecodeError:
                    raise EvalPanic(f'slice {lo}..{hi} of {base!r} is not on a character boundary (line {e.get("l")})')
            if isinstance(base, (str, tuple, list)) and not (isinstance(base, tuple) and base and base[0] in ('ctor', 'struct', 'range', 'closure')):
                if isinstance(idx, tuple) and idx and idx[0] == 'range':
                    lo = 0 if idx[1] in (None, -INF) else idx[1]
                    hi = len(base) if idx[2] in (None, INF) else idx[2] + 1
                    if lo > hi or hi > len(base) or lo < 0:
                        raise EvalPanic(f'slice {lo}..{hi} out of range for length {len(base)} (line {e.get("l")})')
                    return base[lo:hi]
                if isinstance(idx, int) and not isinstance(idx, bool):
                    if 0 <= idx < len(base):
                        return base[idx]
                    raise EvalPanic(f'index {idx} out of range for length {len(base)} (line {e.get("l")})')
            raise Unanalysable('index expression the evaluator does not model')
        if k == 'match':
            v = self.val(e['scrut'], env)
            for arm in e['arms']:
                env2 = dict(env)
                if self.matches(arm['pat'], v, env2):
                    if 'guard' in arm and not self.val(arm['guard'], env2):
                        continue
                    env.update(env2)
                    return self.val(arm['body'], env)
            raise Unanalysable('non-exhaustive match in evaluation')
        if k == 'tup':
            return tuple(self.val(x, env) for x in e['elems'])
        if k == 'array' and 'elems' in e:
            return tuple(self.val(x, env) for x in e['elems'])
        if k == 'closure':
            return ('closure', e, dict(env))
        if k == 'call':
            f = peel(e.get('f', {}))
            p = f.get('path', '')
            if f.get('k') == 'path' and f.get('res') == 'Local':
                fv = self.val(f, env)
                if isinstance(fv, tuple) and fv and fv[0] in ('closure', 'recfn', 'pyfn'):
                    return self.apply(fv, [self.val(a, env) for a in e.get('args', [])])
            if f.get('k') == 'closure':
                return self.apply(('closure', f, dict(env)), [self.val(a, env) for a in e.get('args', [])])
            if p.startswith('core::panicking::') or p.startswith('std::rt::begin_panic') or p.startswith('core::panic::'):
                raise EvalPanic(f'explicit panic (line {e.get("l")})')
            args = [self.val(a, env) for a in e.get('args', [])]
            seg = last_seg(p)
            body = self._workspace_body(f)
            if body is not None and not f.get('res', '').startswith('Ctor'):
                return self.apply_fn(body, args)
            if f.get('res', '').startswith('Ctor'):
                return ('ctor', p, tuple(args))
            if f.get('res', '') == 'SelfCtor' and e.get('t'):
                return ('ctor', (e.get('t') or '').split('<')[0], tuple(args))         # `Self(..)` of a tuple struct
            if p.split('::<')[0] in ('core::iter::sources::once::once', 'core::iter::once') and len(args) == 1:
                return ('iter', [args[0]])
            if p.split('::<')[0] in ('core::iter::sources::repeat::repeat', 'core::iter::repeat') and len(args) == 1:
                return ('iterinf', [], args[0])          # finitely many elements, then one element for ever
            if p.split('::<')[0] in ('core::iter::sources::empty::empty', 'core::iter::empty') and not args:
                return ('iter', [])
            if seg == 'from' and len(args) == 1:
                return args[0]
            if p.split('::<')[0] == 'alloc::vec::Vec' and seg in ('new', 'with_capacity'):
                return VecObj()
            if seg == 'new' and len(args) == 1 and p.split('::<')[0] in ('alloc::boxed::Box', 'alloc::rc::Rc', 'alloc::sync::Arc', 'core::cell::RefCell', 'core::cell::Cell'):
                return args[0]          # a box is its content
            if 'RangeInclusive' in p and seg == 'new':
                return ('range', args[0], args[1])
            if seg == 'into_iter' and len(args) == 1:
                a0 = args[0]
                if isinstance(a0, VecObj):
                    return IterObj(a0.items)
                if isinstance(a0, IterObj):
                    return a0
                if isinstance(a0, tuple) and len(a0) == 2 and a0[0] == 'iter':
                    return IterObj(a0[1])
                if isinstance(a0, tuple) and a0 and a0[0] == 'range' and isinstance(a0[1], int) and isinstance(a0[2], int):
                    return IterObj(range(a0[1], a0[2] + 1))
                if isinstance(a0, (tuple, list)) and not (a0 and a0[0] in ('ctor', 'struct', 'closure')):
                    return IterObj(a0)
            if seg == 'next' and 'Iterator' in p and len(args) == 1 and isinstance(args[0], IterObj):
                return self._iter_next(args[0])
            if seg == 'from_utf8' and 'str' in p and len(args) == 1 and isinstance(args[0], tuple) and all(isinstance(x, int) for x in args[0]):
                try:
                    return ('ctor', 'core::result::Result::Ok', (bytes(args[0]).decode('utf-8'),))
                except UnicodeDecodeError:
                    return ('ctor', 'core::result::Result::Err', (('utf8-error',),))
            if p in ('core::cmp::max', 'core::cmp::min', 'std::cmp::max', 'std::cmp::min') and len(args) == 2 \
                    and all(isinstance(x, int) and not isinstance(x, bool) for x in args):
                return max(args) if seg == 'max' else min(args)
            raise Unanalysable(f'call of `{p}` in a pure expression')
        if k == 'mcall':
            name = e.get('name')
            recv = self.val(e['recv'], env)
            args = [self.val(a, env) for a in e.get('args', [])]
            if name in ('is_empty', 'len') and not args and isinstance(recv, tuple) and len(recv) == 3 and recv[0] == 'range' and isinstance(recv[1], int) and isinstance(recv[2], int):
                return (recv[2] < recv[1]) if name == 'is_empty' else max(0, recv[2] - recv[1] + 1)
            if name == 'contains' and len(args) == 1 and isinstance(recv, tuple) and not (recv and recv[0] in ('range', 'ctor', 'struct', 'closure', 'iter', 'opaque', 'rec')):
                return args[0] in recv              # membership in a slice
            if name == 'contains' and len(args) == 1 and isinstance(recv, VecObj):
                return args[0] in recv.items
            if name == 'contains' and isinstance(recv, tuple) and recv and recv[0] == 'range':
                return recv[1] <= args[0] <= recv[2]
            if isinstance(recv, int) and not isinstance(recv, bool) and name in BYTE_PREDICATES and not args:
                return BYTE_PREDICATES[name](recv)
            SOME, NONE, OK, ERR = 'core::option::Option::Some', 'core::option::Option::None', 'core::result::Result::Ok', 'core::result::Result::Err'
            opt = lambda x: ('ctor', NONE) if x is None else ('ctor', SOME, (x,))
            if isinstance(recv, VecObj):
                if name == 'push' and len(args) == 1:
                    recv.items.append(args[0])
                    return ()
                if name == 'pop' and not args:
                    return opt(recv.items.pop() if recv.items else None)
                if name == 'insert' and len(args) == 2 and isinstance(args[0], int):
                    if not 0 <= args[0] <= len(recv.items):
                        raise EvalPanic(f'insert at {args[0]} in a Vec of {len(recv.items)} (line {e.get("l")})')
                    recv.items.insert(args[0], args[1])
                    return ()
                if name == 'remove' and len(args) == 1 and isinstance(args[0], int):
                    if not 0 <= args[0] < len(recv.items):
                        raise EvalPanic(f'remove at {args[0]} in a Vec of {len(recv.items)} (line {e.get("l")})')
                    return recv.items.pop(args[0])
                if name in ('clone', 'to_vec', 'to_owned') and not args:
                    return VecObj(recv.items)
                if name in ('extend', 'extend_from_slice', 'append') and len(args) == 1:
                    src = args[0]
                    recv.items.extend(src.rest() if isinstance(src, IterObj) else list(src[1]) if isinstance(src, tuple) and len(src) == 2 and src[0] == 'iter' else list(src))
                    return ()
                if name == 'clear' and not args:
                    recv.items.clear()
                    return ()
                if name in ('as_slice', 'as_mut_slice', 'deref', 'deref_mut', 'as_ref', 'as_mut', 'borrow') and not args:
                    return recv
                # everything else reads the Vec like a slice
                recv = tuple(recv.items)
            if isinstance(recv, tuple) and name == 'to_vec' and not args and not (recv and recv[0] in ('ctor', 'struct', 'range', 'closure', 'iter', 'opaque', 'rec')):
                return VecObj(recv)
            if isinstance(recv, IterObj):
                if name == 'next' and not args:
                    return self._iter_next(recv)
                if name == 'clone' and not args:
                    return recv.clone()
                if name == 'peek' and not args:
                    return opt(recv.items[recv.pos] if recv.pos < len(recv.items) else None)
                if name == 'next_back' and not args:
                    return opt(recv.items.pop() if recv.pos < len(recv.items) else None)
                if name == 'len' and not args:
                    return len(recv.items) - recv.pos
                if name in ('by_ref', 'peekable', 'into_iter', 'iter', 'fuse') and not args:
                    return recv
                if name == 'nth' and len(args) == 1 and isinstance(args[0], int):
                    recv.pos = min(len(recv.items), recv.pos + args[0])
                    return self._iter_next(recv)
                if name == 'as_str' and not args and recv.kind == 'chars':
                    return ''.join(chr(c) for c in recv.rest())
                # any other adaptor consumes what is left
                rest = recv.rest()
                recv.pos = len(recv.items)
                recv = ('iter', rest)
            if isinstance(recv, tuple) and len(recv) == 3 and recv[0] == 'range' and isinstance(recv[1], int) and isinstance(recv[2], int) and \
                    name in ('rev', 'zip', 'map', 'filter', 'collect', 'count', 'sum', 'enumerate', 'take', 'skip', 'any', 'all', 'for_each', 'into_iter', 'iter'):
                recv = ('iter', list(range(recv[1], recv[2] + 1)))          # a bounded integer range iterates over its values
            if isinstance(recv, tuple) and name in ('for_each', 'try_for_each') and not (recv and isinstance(recv[0], str) and recv[0] in ('ctor', 'struct', 'range', 'closure', 'iter', 'rec', 'opaque', 'elem')):
                recv = ('iter', list(recv))          # a stubbed `iter_mut()` given as a plain tuple of elements
            if isinstance(recv, tuple) and len(recv) == 2 and recv[0] == 'iter' and name == 'chain' and len(args) == 1:
                o = args[0]
                if isinstance(o, tuple) and len(o) == 3 and o[0] == 'iterinf':
                    return ('iterinf', list(recv[1]) + list(o[1]), o[2])
                ys = o.rest() if isinstance(o, IterObj) else list(o[1]) if isinstance(o, tuple) and len(o) == 2 and o[0] == 'iter' else list(o.items) if isinstance(o, VecObj) else None
                if ys is not None:
                    return ('iter', list(recv[1]) + ys)
            if isinstance(recv, tuple) and len(recv) == 2 and recv[0] == 'iter' and name == 'zip' and len(args) == 1 and isinstance(args[0], tuple) and len(args[0]) == 3 and args[0][0] == 'iterinf':
                fin, rest_ = args[0][1], args[0][2]
                return ('iter', [(x, fin[i] if i < len(fin) else rest_) for i, x in enumerate(recv[1])])
            if isinstance(recv, tuple) and len(recv) == 3 and recv[0] == 'iterinf' and name == 'zip' and len(args) == 1:
                o = args[0]
                ys = o.rest() if isinstance(o, IterObj) else list(o[1]) if isinstance(o, tuple) and len(o) == 2 and o[0] == 'iter' else list(o.items) if isinstance(o, VecObj) else None
                if ys is not None:
                    return ('iter', [(recv[1][i] if i < len(recv[1]) else recv[2], y) for i, y in enumerate(ys)])
            if isinstance(recv, tuple) and len(recv) == 2 and recv[0] == 'iter':
                xs = recv[1]
                truth = lambda c, x: bool(self.apply(c, [x]))
                if name == 'zip' and len(args) == 1:
                    o = args[0]
                    ys = o.rest() if isinstance(o, IterObj) else list(o[1]) if isinstance(o, tuple) and len(o) == 2 and o[0] == 'iter' else \
                        list(range(o[1], o[2] + 1)) if isinstance(o, tuple) and len(o) == 3 and o[0] == 'range' and isinstance(o[1], int) and isinstance(o[2], int) else \
                        list(o.items) if isinstance(o, VecObj) else list(o) if isinstance(o, (tuple, list, str)) and not (isinstance(o, tuple) and o and o[0] in ('ctor', 'struct', 'closure')) else None
                    if ys is not None:
                        return ('iter', list(zip(xs, ys)))
                if name == 'rev' and not args:
                    return ('iter', list(reversed(xs)))
                if name == 'enumerate' and not args:
                    return ('iter', [(i, x) for i, x in enumerate(xs)])
                if name in ('copied', 'cloned', 'by_ref', 'into_iter', 'iter', 'peekable') and not args:
                    return recv
                if name == 'count' and not args:
                    return len(xs)
                if name == 'last' and not args:
                    return opt(xs[-1] if xs else None)
                if name in ('collect', 'to_vec') and not args:
                    return tuple(xs)
                if name == 'sum' and not args:
                    return sum(xs)
                if name in ('max', 'min') and not args:
                    return opt((max if name == 'max' else min)(xs) if xs else None)
                if name in ('take', 'skip', 'nth') and len(args) == 1 and isinstance(args[0], int):
                    if name == 'take':
                        return ('iter', xs[:args[0]])
                    if name == 'skip':
                        return ('iter', xs[args[0]:])
                    return opt(xs[args[0]] if 0 <= args[0] < len(xs) else None)
                if name in ('for_each', 'try_for_each') and len(args) == 1 and isinstance(args[0], tuple) and args[0] and args[0][0] in ('closure', 'recfn', 'pyfn'):
                    for x in xs:
                        r = self.apply(args[0], [x])
                        if name == 'try_for_each' and isinstance(r, tuple) and len(r) >= 2 and r[0] == 'ctor' and r[1] in ('core::result::Result::Err', 'core::option::Option::None',
                                                                                                                            'core::ops::control_flow::ControlFlow::Break'):
                            return r
                    if name == 'for_each':
                        return ()
                    rt = e.get('t') or ''
                    return ('ctor', 'core::option::Option::Some' if rt.startswith('core::option::Option') else 'core::result::Result::Ok', ((),))
                if name == 'flatten' and not args:
                    out = []
                    for x in xs:
                        if isinstance(x, tuple) and len(x) >= 2 and x[0] == 'ctor' and x[1].startswith('core::option::Option::'):
                            if x[1].endswith('::Some'):
                                out.append(x[2][0])
                        elif isinstance(x, tuple) and len(x) == 2 and x[0] == 'iter':
                            out.extend(x[1])
                        elif isinstance(x, IterObj):
                            out.extend(x.rest())
                        elif isinstance(x, VecObj):
                            out.extend(x.items)
                        elif hasattr(x, 'get') and hasattr(x, 'set') and callable(getattr(x, 'get')):
                            # `&mut Option<T>` (a reference to a slot): iterating it yields a reference to the payload, if any
                            cur = x.get()
                            if isinstance(cur, tuple) and len(cur) >= 2 and cur[0] == 'ctor' and cur[1].startswith('core::option::Option::'):
                                if cur[1].endswith('::Some'):
                                    pl = cur[2][0]
                                    if isinstance(pl, tuple) and len(pl) == 3 and pl[0] == 'struct' and isinstance(pl[2], dict):
                                        out.append(pl)          # a modelled struct is shared: writes to it are seen through the slot
                                    else:
                                        from .places import SlotRef
                                        out.append(SlotRef(lambda x=x: x.get()[2][0], lambda v, x=x: x.set(('ctor', 'core::option::Option::Some', (v,))), 'payload of an option'))
                            else:
                                raise Unanalysable('flatten over a reference to something that is not an Option')
                        else:
                            raise Unanalysable('flatten over elements the evaluator does not model')
                    return ('iter', out)
                if name in ('try_fold', 'fold') and len(args) == 2 and isinstance(args[1], tuple) and args[1] and args[1][0] in ('closure', 'recfn', 'pyfn'):
                    acc = args[0]
                    for x in xs:
                        r = self.apply(args[1], [acc, x])
                        if name == 'fold':
                            acc = r
                            continue
                        if isinstance(r, tuple) and len(r) == 3 and r[0] == 'ctor' and r[1] in ('core::result::Result::Ok', 'core::option::Option::Some', 'core::ops::control_flow::ControlFlow::Continue'):
                            acc = r[2][0]
                        elif isinstance(r, tuple) and len(r) >= 2 and r[0] == 'ctor' and r[1] in ('core::result::Result::Err', 'core::option::Option::None', 'core::ops::control_flow::ControlFlow::Break'):
                            return r            # the first failure ends the fold and is its result
                        else:
                            raise Unanalysable('try_fold with a step result the evaluator does not model')
                    if name == 'fold':
                        return acc
                    rt = e.get('t') or ''
                    wrap = 'core::option::Option::Some' if rt.startswith('core::option::Option') else 'core::ops::control_flow::ControlFlow::Continue' if 'ControlFlow' in rt else 'core::result::Result::Ok'
                    return ('ctor', wrap, (acc,))
                if len(args) == 1 and isinstance(args[0], tuple) and args[0] and args[0][0] in ('closure', 'recfn', 'ctor'):
                    c = args[0]
                    if name == 'filter':
                        return ('iter', [x for x in xs if truth(c, x)])
                    if name == 'map':
                        return ('iter', [self.apply(c, [x]) for x in xs])
                    if name == 'find':
                        return opt(next((x for x in xs if truth(c, x)), None))
                    if name == 'position':
                        return opt(next((i for i, x in enumerate(xs) if truth(c, x)), None))
                    if name == 'rposition':
                        return opt(next((i for i in range(len(xs) - 1, -1, -1) if truth(c, xs[i])), None))
                    if name == 'any':
                        return any(truth(c, x) for x in xs)
                    if name == 'all':
                        return all(truth(c, x) for x in xs)
                    if name == 'take_while':
                        out = []
                        for x in xs:
                            if not truth(c, x):
                                break
                            out.append(x)
                        return ('iter', out)
                    if name == 'skip_while':
                        i = 0
                        while i < len(xs) and truth(c, xs[i]):
                            i += 1
                        return ('iter', list(xs[i:]))
                    if name == 'map_while':
                        out = []
                        for x in xs:
                            r = self.apply(c, [x])
                            if not (isinstance(r, tuple) and r[:2] == ('ctor', SOME)):
                                break
                            out.append(r[2][0])
                        return ('iter', out)
                    if name in ('for_each',):
                        for x in xs:
                            self.apply(c, [x])
                        return ()
                    if name == 'flat_map':
                        out = []
                        for x in xs:
                            r = self.apply(c, [x])
                            if isinstance(r, IterObj):
                                out += r.rest()
                            elif isinstance(r, tuple) and len(r) == 2 and r[0] == 'iter':
                                out += list(r[1])
                            elif isinstance(r, tuple) and r[:2] == ('ctor', SOME):
                                out.append(r[2][0])
                            elif isinstance(r, tuple) and r[:2] == ('ctor', NONE):
                                pass
                            elif isinstance(r, tuple):
                                out += list(r)
                            else:
                                raise Unanalysable('flat_map over a value the evaluator does not model')
                        return ('iter', out)
                    if name == 'filter_map':
                        out = []
                        for x in xs:
                            r = self.apply(c, [x])
                            if isinstance(r, tuple) and r[:2] == ('ctor', SOME):
                                out.append(r[2][0])
                        return ('iter', out)
            if isinstance(recv, (str, tuple)) and not (isinstance(recv, tuple) and recv and recv[0] in ('ctor', 'struct', 'range', 'closure', 'iter')):
                if name in ('iter', 'into_iter', 'iter_mut', 'iter_mut2', 'drain') and not args and isinstance(recv, tuple):
                    return IterObj(recv)
                if name in ('values', 'values_mut', 'into_values', 'keys', 'into_keys') and not args and isinstance(recv, tuple) and all(isinstance(x, tuple) and len(x) == 2 for x in recv):
                    return IterObj(tuple(x[0 if 'keys' in name else 1] for x in recv))          # a map modelled as a tuple of (key, value) pairs
                if name in ('bytes', 'as_bytes') and not args and isinstance(recv, str):
                    b = tuple(recv.encode('utf-8'))
                    return IterObj(b, 'bytes') if name == 'bytes' else b
                if name == 'chars' and not args and isinstance(recv, str):
                    return IterObj([ord(c) for c in recv], 'chars')
                if name == 'pow' and False:
                    pass
                if name == 'len' and not args:
                    return len(recv.encode('utf-8')) if isinstance(recv, str) else len(recv)
                if name == 'is_empty' and not args:
                    return len(recv) == 0
                if recv == () and len(args) == 1 and isinstance(args[0], str) and name in ('get', 'get_mut', 'get_full', 'get_full_mut2', 'get_key_value', 'contains_key', 'get_index_of'):
                    return False if name == 'contains_key' else ('ctor', NONE)          # a lookup by name in an empty map
                if isinstance(recv, tuple) and recv and all(isinstance(x, tuple) and len(x) == 2 for x in recv) and len(args) == 1 and \
                        not (isinstance(args[0], int) and not isinstance(args[0], bool)) and name in ('get', 'get_mut', 'get_full', 'get_full_mut2', 'get_key_value', 'contains_key', 'get_index_of'):
                    # an ordered map modelled as a tuple of (key, value) pairs: lookup by key (a Key struct matches by its text)
                    def same(k_, q):
                        kt = k_[2].get('key') if isinstance(k_, tuple) and len(k_) == 3 and k_[0] == 'struct' and isinstance(k_[2], dict) else k_
                        return kt == q or k_ == q
                    hit = next((i for i, (k_, _) in enumerate(recv) if same(k_, args[0])), None)
                    if name == 'contains_key':
                        return hit is not None
                    if name == 'get_index_of':
                        return opt(hit)
                    if hit is None:
                        return ('ctor', NONE)
                    k_, v_ = recv[hit]
                    if name in ('get', 'get_mut'):
                        return ('ctor', SOME, (v_,))
                    if name == 'get_key_value':
                        return ('ctor', SOME, ((k_, v_),))
                    return ('ctor', SOME, ((hit, k_, v_),))
                if name in ('get', 'get_mut') and len(args) == 1 and isinstance(args[0], int) and not isinstance(args[0], bool):
                    return ('ctor', SOME, (recv[args[0]],)) if 0 <= args[0] < len(recv) else ('ctor', NONE)
                if name in ('split_at', 'split_at_mut') and len(args) == 1 and isinstance(args[0], int) and not isinstance(args[0], bool):
                    if isinstance(recv, str):
                        bs = recv.encode('utf-8')
                        if not 0 <= args[0] <= len(bs):
                            raise EvalPanic(f'split_at({args[0]}) on a str of {len(bs)} bytes (line {e.get("l")})')
                        try:
                            return (bs[:args[0]].decode('utf-8'), bs[args[0]:].decode('utf-8'))
                        except UnicodeDecodeError:
                            raise EvalPanic(f'split_at({args[0]}) of {recv!r} is not on a character boundary (line {e.get("l")})')
                    if not 0 <= args[0] <= len(recv):
                        raise EvalPanic(f'split_at({args[0]}) on a slice of {len(recv)} (line {e.get("l")})')
                    return (recv[:args[0]], recv[args[0]:])
                if isinstance(recv, str) and name in ('strip_prefix', 'strip_suffix') and len(args) == 1 and isinstance(args[0], str):
                    hit = recv.startswith(args[0]) if name == 'strip_prefix' else recv.endswith(args[0])
                    return opt((recv[len(args[0]):] if name == 'strip_prefix' else recv[:len(recv) - len(args[0])]) if hit else None)
                if isinstance(recv, str) and name in ('starts_with', 'ends_with', 'contains') and len(args) == 1 and isinstance(args[0], str):
                    return recv.startswith(args[0]) if name == 'starts_with' else recv.endswith(args[0]) if name == 'ends_with' else args[0] in recv
                if isinstance(recv, tuple) and not args and name in ('last', 'first', 'last_mut', 'first_mut'):
                    return opt((recv[-1] if name.startswith('last') else recv[0]) if recv else None)
                if isinstance(recv, tuple) and not args and name in ('split_last', 'split_first'):
                    if not recv:
                        return ('ctor', NONE)
                    return ('ctor', SOME, ((recv[-1], recv[:-1]) if name == 'split_last' else (recv[0], recv[1:]),))
                if name == 'parse' and isinstance(recv, str) and not args:
                    ty = (e.get('gargs') or [''])[0]
                    if ty in INT_BOUNDS and recv.isdigit():
                        val = int(recv)
                        return ('ctor', OK, (val,)) if INT_BOUNDS[ty][0] <= val <= INT_BOUNDS[ty][1] else ('ctor', ERR, (('parse-error',),))
                    if ty in INT_BOUNDS:
                        return ('ctor', ERR, (('parse-error',),))
            if isinstance(recv, int) and not isinstance(recv, bool) and name == 'pow' and len(args) == 1 and isinstance(args[0], int) and args[0] >= 0:
                return recv ** args[0]
            if isinstance(recv, int) and not isinstance(recv, bool) and name in ('checked_mul', 'checked_add', 'checked_sub') and len(args) == 1:
                ty = [t for t in INT_BOUNDS if f'Option<{t}>' in (e.get('t') or '')]
                if ty:
                    r = {'checked_mul': recv * args[0], 'checked_add': recv + args[0], 'checked_sub': recv - args[0]}[name]
                    return ('ctor', SOME, (r,)) if INT_BOUNDS[ty[0]][0] <= r <= INT_BOUNDS[ty[0]][1] else ('ctor', NONE)
            if isinstance(recv, tuple) and recv and recv[0] == 'ctor':
                if recv[1] in (SOME, NONE):
                    if name == 'ok_or' and len(args) == 1:
                        return ('ctor', OK, recv[2]) if recv[1] == SOME else ('ctor', ERR, (args[0],))
                    if name == 'ok_or_else' and len(args) == 1:
                        return ('ctor', OK, recv[2]) if recv[1] == SOME else ('ctor', ERR, (self.apply(args[0], []),))
                    if name == 'is_some' and not args:
                        return recv[1] == SOME
                if name == 'transpose' and not args and recv[1] in (OK, ERR, SOME, NONE):
                    # Option<Result<T, E>> <-> Result<Option<T>, E>
                    if recv[1] == NONE:
                        return ('ctor', OK, (('ctor', NONE),))
                    if recv[1] == ERR:
                        return ('ctor', SOME, (recv,))
                    inner = recv[2][0]
                    if isinstance(inner, tuple) and len(inner) >= 2 and inner[0] == 'ctor':
                        if recv[1] == SOME and inner[1] == OK:
                            return ('ctor', OK, (('ctor', SOME, inner[2]),))
                        if recv[1] == SOME and inner[1] == ERR:
                            return inner
                        if recv[1] == OK and inner[1] == SOME:
                            return ('ctor', SOME, (('ctor', OK, inner[2]),))
                        if recv[1] == OK and inner[1] == NONE:
                            return ('ctor', NONE)
                    if isinstance(inner, tuple) and inner and inner[0] in ('rec', 'opaque'):
                        return inner
                if name in ('unwrap', 'expect') and recv[1] in (OK, ERR, SOME, NONE):
                    if recv[1] in (OK, SOME):
                        return recv[2][0]
                    raise EvalPanic(f'{name}() on {last_seg(recv[1])} (line {e.get("l")})')
                if recv[1] in (OK, ERR):
                    if name == 'map_or_else' and len(args) == 2:
                        return self.apply(args[1], [recv[2][0]]) if recv[1] == OK else self.apply(args[0], [recv[2][0]])
                    if name == 'map_or' and len(args) == 2:
                        return self.apply(args[1], [recv[2][0]]) if recv[1] == OK else args[0]
                    if name == 'unwrap_or_else' and len(args) == 1:
                        return recv[2][0] if recv[1] == OK else self.apply(args[0], [recv[2][0]])
                    if name == 'unwrap_or' and len(args) == 1:
                        return recv[2][0] if recv[1] == OK else args[0]
                    if name == 'map_err' and len(args) == 1:
                        return recv if recv[1] == OK else ('ctor', ERR, (self.apply(args[0], [recv[2][0]]),))
                    if name == 'map' and len(args) == 1:
                        return ('ctor', OK, (self.apply(args[0], [recv[2][0]]),)) if recv[1] == OK else recv
                    if name == 'ok' and not args:
                        return ('ctor', SOME, recv[2]) if recv[1] == OK else ('ctor', NONE)
                    if name == 'or_else' and len(args) == 1:
                        return recv if recv[1] == OK else self.apply(args[0], [recv[2][0]])
                    if name == 'and_then' and len(args) == 1:
                        return self.apply(args[0], [recv[2][0]]) if recv[1] == OK else recv
                    if name == 'unwrap_or_else' and len(args) == 1:
                        return recv[2][0] if recv[1] == OK else self.apply(args[0], [recv[2][0]])
                    if name == 'unwrap_or' and len(args) == 1:
                        return recv[2][0] if recv[1] == OK else args[0]
                    if name in ('is_ok', 'is_err') and not args:
                        return (recv[1] == OK) == (name == 'is_ok')
            if isinstance(recv, bool):
                if name == 'then' and len(args) == 1 and isinstance(args[0], tuple) and args[0] and args[0][0] == 'closure':
                    return ('ctor', 'core::option::Option::Some', (self.apply(args[0], []),)) if recv else ('ctor', 'core::option::Option::None')
                if name == 'then_some' and len(args) == 1:
                    return ('ctor', 'core::option::Option::Some', (args[0],)) if recv else ('ctor', 'core::option::Option::None')
                if name == 'not' and not args:
                    return not recv
            if isinstance(recv, tuple) and recv and recv[0] == 'ctor' and recv[1].startswith('core::option::Option::'):
                some = recv[1].endswith('::Some')
                if name == 'is_none':
                    return not some
                if name == 'or_else' and len(args) == 1:
                    return recv if some else self.apply(args[0], [])
                if name == 'or' and len(args) == 1:
                    return recv if some else args[0]
                if name == 'and_then' and len(args) == 1:
                    return self.apply(args[0], [recv[2][0]]) if some else recv
                if name == 'filter' and len(args) == 1:
                    return recv if some and self.apply(args[0], [recv[2][0]]) else ('ctor', 'core::option::Option::None')
                if name == 'flatten' and not args:
                    return recv[2][0] if some else recv
                if name == 'zip' and len(args) == 1 and isinstance(args[0], tuple) and len(args[0]) >= 2 and args[0][0] == 'ctor' and args[0][1].startswith('core::option::Option::'):
                    o = args[0]
                    return ('ctor', 'core::option::Option::Some', ((recv[2][0], o[2][0]),)) if some and o[1].endswith('::Some') else ('ctor', 'core::option::Option::None')
                if name in ('or', 'xor') and len(args) == 1 and isinstance(args[0], tuple) and len(args[0]) >= 2 and args[0][0] == 'ctor' and args[0][1].startswith('core::option::Option::'):
                    if name == 'or':
                        return recv if some else args[0]
                    osome = args[0][1].endswith('::Some')
                    return recv if some and not osome else args[0] if osome and not some else ('ctor', 'core::option::Option::None')
                if name == 'or_else' and len(args) == 1 and not some:
                    return self.apply(args[0], [])
                if name == 'or_else' and len(args) == 1 and some:
                    return recv
                if name in ('is_some_and', 'is_none_or') and len(args) == 1:
                    return (bool(self.apply(args[0], [recv[2][0]])) if some else False) if name == 'is_some_and' else (bool(self.apply(args[0], [recv[2][0]])) if some else True)
                if name in ('then_some',) and False:
                    pass
                if name in ('ok_or', 'ok_or_else') and len(args) == 1:
                    if some:
                        return ('ctor', 'core::result::Result::Ok', recv[2])
                    return ('ctor', 'core::result::Result::Err', ((args[0] if name == 'ok_or' else self.apply(args[0], [])),))
                if name in ('unwrap', 'expect'):
                    if some:
                        return recv[2][0]
                    raise EvalPanic(f'`{name}` on None (line {e.get("l")})')
                if name == 'unwrap_or' and len(args) == 1:
                    return recv[2][0] if some else args[0]
                if name == 'unwrap_or_default' and not args:
                    if some:
                        return recv[2][0]
                    ty = (e.get('t') or '').replace('&', '').replace("'static ", '').strip()
                    if ty in ('str', 'alloc::string::String') or ty.startswith("'") and ty.split(' ', 1)[-1] == 'str':
                        return ''
                    if ty == 'bool':
                        return False
                    if ty in ('usize', 'u8', 'u16', 'u32', 'u64', 'u128', 'isize', 'i8', 'i16', 'i32', 'i64', 'i128'):
                        return 0
                    raise Unanalysable(f'default of `{ty}`')
                if name in ('map_or',) and len(args) == 2:
                    return self.apply(args[1], [recv[2][0]]) if some else args[0]
                if name == 'map' and len(args) == 1:
                    return ('ctor', recv[1], (self.apply(args[0], [recv[2][0]]),)) if some else recv
                if name in ('unwrap_or_else', 'map_or_else'):
                    if some:
                        return recv[2][0] if name == 'unwrap_or_else' else self.apply(args[1], [recv[2][0]])
                    return self.apply(args[0], [])
            if name in ('eq', 'ne') and len(args) == 1:
                return (recv == args[0]) if name == 'eq' else (recv != args[0])
            body = self._workspace_method(e)
            if body is not None:
                return self.apply_fn(body, [recv] + args)
            if isinstance(recv, str) and name in ('as_str', 'as_ref', 'deref', 'trim_matches') and not args:
                return recv
            if name in ('into', 'clone', 'to_owned', 'as_ref', 'as_mut', 'as_deref', 'as_deref_mut', 'borrow', 'borrow_mut', 'by_ref', 'copied', 'cloned', 'to_string', 'into_owned',
                        'deref', 'deref_mut', 'into_inner') and not args and (name not in ('deref', 'deref_mut', 'into_inner') or 'core::cell::Ref' in (peel(e['recv']).get('t') or '')) and \
                    not (name == 'to_string' and not isinstance(recv, str)):
                return recv
            if name == 'is_some':
                return recv != ('ctor', 'core::option::Option::None')
            if name in ('max', 'min', 'saturating_add', 'saturating_sub') and isinstance(recv, int) and not isinstance(recv, bool) \
                    and len(args) == 1 and isinstance(args[0], int) and not isinstance(args[0], bool):
                t = (e.get('t') or '').strip()
                bounds = {'u8': (0, 255), 'u16': (0, 65535), 'u32': (0, 2 ** 32 - 1), 'u64': (0, 2 ** 64 - 1), 'usize': (0, 2 ** 64 - 1),
                          'i8': (-128, 127), 'i16': (-2 ** 15, 2 ** 15 - 1), 'i32': (-2 ** 31, 2 ** 31 - 1), 'i64': (-2 ** 63, 2 ** 63 - 1)}.get(t)
                if name == 'max':
                    return max(recv, args[0])
                if name == 'min':
                    return min(recv, args[0])
                if bounds is None:
                    raise Unanalysable(f'`{name}` on a value of unknown width `{t}`')
                r = recv + args[0] if name == 'saturating_add' else recv - args[0]
                return max(bounds[0], min(bounds[1], r))
            raise Unanalysable(f'method `{name}` in a pure expression')
        if k == 'field':
            base = self.val(e['base'], env)
            if isinstance(base, tuple) and base and base[0] == 'struct' and e.get('name') in base[2]:
                return base[2][e['name']]
            if isinstance(base, tuple) and len(base) == 3 and base[0] == 'range' and e.get('name') in ('start', 'end') and isinstance(base[1 if e['name'] == 'start' else 2], int):
                return base[1] if e['name'] == 'start' else base[2] + 1          # ranges are kept with an inclusive end
            if isinstance(base, tuple) and len(base) == 3 and base[0] == 'ctor' and isinstance(base[2], tuple) and str(e.get('name')).isdigit() and int(e['name']) < len(base[2]):
                return base[2][int(e['name'])]          # `.0` of a tuple struct / tuple variant value
            if isinstance(base, tuple) and base and base[0] != 'struct' and str(e.get('name')).isdigit() and int(e['name']) < len(base):
                return base[int(e['name'])]
            raise Unanalysable(f'field `{e.get("name")}` of a value the evaluator does not model')
        if k == 'struct':
            p = e.get('path') or ''
            f = {x['name']: self.val(x['e'], env) for x in e.get('fields', [])}
            if 'RangeInclusive' in p and 'start' in f and 'end' in f:
                return ('range', f['start'], f['end'])
            if 'Range' in p and 'start' in f and 'end' in f:
                return ('range', f['start'], f['end'] - 1)
            if 'RangeTo' in p and 'end' in f and 'start' not in f:
                return ('range', None, f['end'] - (0 if 'Inclusive' in p else 1))
            if 'RangeFrom' in p and 'start' in f and 'end' not in f:
                return ('range', f['start'], None)
            return ('struct', p, f)
        if k == 'ret':
            raise Ret(self.val(e['v'], env) if 'v' in e else ())
        raise Unanalysable(f'`{k}` at line {e.get("l")} in a pure expression')

    def bind(self, p, v, env):
        if not self.matches(p, v, env):
            raise Unanalysable('refutable let pattern did not match')

    # calls ---------------------------------------------------------------
    MAX_DEPTH = 12

    def apply(self, clo, args):
        if isinstance(clo, tuple) and len(clo) == 2 and clo[0] == 'ctor':
            return ('ctor', clo[1], tuple(args))        # a tuple-variant constructor used as a function (`.map(Some)`)
        if not (isinstance(clo, tuple) and clo and clo[0] == 'closure'):
            raise Unanalysable('call of a value that is not a closure')
        _, node, cenv = clo
        env = dict(cenv)
        params = node.get('params', [])
        if len(params) != len(args):
            raise Unanalysable('closure arity')
        for p, a in zip(params, args):
            self.bind(p, a, env)
        return self._call_body(node['body'], env)

    def apply_fn(self, body, args):
        params = body.get('params', [])
        if len(params) != len(args):
            raise Unanalysable('function arity')
        env = {}
        for p, a in zip(params, args):
            self.bind(p, a, env)
        saved = getattr(self, 'file', None)
        if body.get('file'):
            self.file = body['file']
        try:
            return self._call_body(body['body'], env)
        finally:
            self.file = saved

    # `write!(w, "lit {a}{b:04X}", ..)`: the literal comes from the source facts (file, line), the arguments from the tuple the macro desugars to
    def format_text(self, e, env):
        a0 = peel(e['args'][0]) if e.get('args') else {}
        if a0.get('k') == 'call' and last_seg(peel(a0.get('f', {})).get('path') or '') in ('from_str', 'new_const') and a0.get('args'):
            # a format string without arguments (`writeln!(w)`, `write!(w, "text")`) desugars to the text itself
            v = self.val(a0['args'][0], env)
            if isinstance(v, str):
                return v
            if isinstance(v, tuple) and all(isinstance(x, str) for x in v):
                return ''.join(v)
        facts = getattr(self.ev, 'facts', None)
        file = getattr(self, 'file', None)
        if facts is None or not file:
            raise Unanalysable('format string: the file of the evaluated function is unknown')
        from .core import src_facts
        idx = getattr(facts, '_fmt_index', None)
        if idx is None:
            idx = facts._fmt_index = {}
            for m in src_facts(facts.repo)['fmts']:
                idx.setdefault((m['file'], m['line']), []).append(m)
        rel = facts.rel(file)
        cands = idx.get((rel, e.get('l'))) or []
        if not cands and e.get('m') == 'writeln':
            return '\n'               # `writeln!(w)`
        if not cands and e.get('l'):
            # inside the body of a macro_rules! the source facts have no format-string census (the body is a token tree): the literal is read from the source line
            try:
                import re as _re
                with open(file if os.path.isabs(file) else os.path.join(facts.repo, file), encoding='utf-8') as fh:
                    lines = fh.read().split('\n')
                seg = '\n'.join(lines[e['l'] - 1:e['l'] + 3])
                mm = _re.search(r'\b(?:write|writeln|format|print|println)!\s*\(\s*(?:[A-Za-z_][A-Za-z0-9_.]*\s*,\s*)?("(?:[^"\\]|\\.)*")', seg)
                if mm:
                    cands = [{'lit': mm.group(1)}]
            except OSError:
                pass
        if not cands and e.get('l'):
            # the call sits in the expansion of one of the workspace's macro_rules!: the line is the invocation, the literal is in the macro's body
            try:
                import re as _re
                with open(file if os.path.isabs(file) else os.path.join(facts.repo, file), encoding='utf-8') as fh:
                    src_text = fh.read()
                line = src_text.split('\n')[e['l'] - 1]
                inv = _re.search(r'\b([A-Za-z_][A-Za-z0-9_]*)!\s*[\(\[\{]', line)
                if inv:
                    dm = _re.search(r'macro_rules!\s*' + _re.escape(inv.group(1)) + r'\s*\{', src_text)
                    if dm:
                        depth, i0 = 0, dm.end() - 1
                        j0 = i0
                        while j0 < len(src_text):
                            depth += src_text[j0] == '{'
                            depth -= src_text[j0] == '}'
                            j0 += 1
                            if depth == 0:
                                break
                        lits = set(_re.findall(r'\b(?:write|writeln|format)!\s*\(\s*(?:[A-Za-z_][A-Za-z0-9_.]*\s*,\s*)?("(?:[^"\\]|\\.)*")', src_text[i0:j0]))
                        if len(lits) == 1:
                            cands = [{'lit': lits.pop()}]
            except (OSError, IndexError):
                pass
        if len(cands) != 1:
            raise Unanalysable(f'format string at {rel}:{e.get("l")} not found ({len(cands)} candidates)')
        lit = cands[0]['lit']
        if not (lit.startswith('"') and lit.endswith('"')):
            raise Unanalysable('raw / non-literal format string')
        text = rust_str_literal(lit)
        # the argument tuple: first `let` of the desugared block
        argv = None
        blk = e['args'][0] if e.get('args') else {}
        for st in blk.get('stmts', []) if blk.get('k') == 'block' else []:
            if st.get('k') == 'let' and peel(st.get('init', {})).get('k') == 'tup':
                argv = []
                for x in peel(st['init'])['elems']:
                    v_ = self.val(x, env)
                    ty_ = (peel(x).get('t') or x.get('t') or '').replace('&', '').replace('mut ', '').strip()
                    if ty_ == 'char' and isinstance(v_, int) and not isinstance(v_, bool):
                        v_ = chr(v_)            # a char displays as the character
                    argv.append(v_)
                break
        if argv is None:
            argv = []
        out, i, order = [], 0, {}
        n = 0
        while i < len(text):
            c = text[i]
            if c == '{' and text[i + 1:i + 2] == '{':
                out.append('{')
                i += 2
            elif c == '}' and text[i + 1:i + 2] == '}':
                out.append('}')
                i += 2
            elif c == '{':
                j = text.index('}', i)
                name, _, spec = text[i + 1:j].partition(':')
                if name == '' or name.isdigit():
                    key = ('pos', n if name == '' else int(name))
                    n += 1 if name == '' else 0
                else:
                    key = ('name', name)
                if key not in order:
                    order[key] = len(order)
                if order[key] >= len(argv):
                    raise Unanalysable(f'format argument {key} has no value')
                v = argv[order[key]]
                while isinstance(v, tuple) and len(v) == 3 and v[0] == 'ctor' and v[1].startswith('alloc::borrow::Cow::') and len(v[2]) == 1:
                    v = v[2][0]            # a Cow displays as what it holds
                if spec == '':
                    if isinstance(v, bool):
                        out.append('true' if v else 'false')
                    elif isinstance(v, (int, str)):
                        out.append(str(v))
                    else:
                        out.append(self.display_of(v))
                elif isinstance(v, int) and not isinstance(v, bool) and spec and spec[-1] in 'Xxdb' and (spec[:-1] == '' or spec[:-1].isdigit()):
                    out.append(format(v, spec))
                elif isinstance(v, int) and not isinstance(v, bool) and spec.isdigit():
                    out.append(format(v, spec + 'd'))           # `{:02}`: zero-padded decimal
                elif spec == '?' and isinstance(v, (str, int)):
                    # Debug of a string: quoted, with the escapes of `str::escape_debug` for the characters that matter here; of an integer: the number
                    if isinstance(v, bool):
                        out.append('true' if v else 'false')
                    elif isinstance(v, int):
                        out.append(str(v))
                    else:
                        esc = {'"': '\\"', '\\': '\\\\', '\n': '\\n', '\t': '\\t', '\r': '\\r', '\0': '\\0'}
                        out.append('"' + ''.join(esc.get(ch, ch) for ch in v) + '"')
                else:
                    raise Unanalysable(f'format spec `{spec}`')
                i = j + 1
            else:
                out.append(c)
                i += 1
        return ''.join(out) + ('\n' if cands[0].get('macro') == 'writeln' else '')

    def display_of(self, v):
        """`{}` of a value that is no primitive: the interpreters that model Display impls override this"""
        raise Unanalysable(f'Display of {v!r:.40} in a format string')

    def _call_body(self, node, env):
        self._depth = getattr(self, '_depth', 0) + 1
        try:
            if self._depth > self.MAX_DEPTH:
                raise Unanalysable('call depth')
            try:
                return self.val(node, env)
            except Ret as r:
                return r.v
        finally:
            self._depth -= 1

    @staticmethod
    def _iter_next(it):
        if it.pos < len(it.items):
            v = it.items[it.pos]
            it.pos += 1
            return ('ctor', 'core::option::Option::Some', (v,))
        return ('ctor', 'core::option::Option::None')

    def _workspace_body(self, fnode):
        """HIR body of a called function of the five crates (pure helpers are evaluated, not executed), or None"""
        facts = getattr(self.ev, 'facts', None)
        if facts is None or fnode.get('k') != 'path' or fnode.get('res') not in ('Fn', 'AssocFn'):
            return None
        for p in (fnode.get('resolved'), fnode.get('path')):
            if p and p in facts.bodies and p.split('::')[0].lstrip('<') in ('toml', 'toml_edit', 'toml_write', 'toml_datetime', 'serde_spanned'):
                return facts.bodies[p]
        return None

    def _workspace_method(self, e):
        facts = getattr(self.ev, 'facts', None)
        if facts is None:
            return None
        for p in (e.get('resolved'), e.get('callee')):
            if p and p in facts.bodies and p.split('::')[0].lstrip('<') in ('toml', 'toml_edit', 'toml_write', 'toml_datetime', 'serde_spanned'):
                return facts.bodies[p]
        return None

    def matches(self, p, v, env):
        k = p.get('k')
        if k == 'p_wild':
            return True
        if k == 'p_bind':
            if 'sub' in p and not self.matches(p['sub'], v, env):
                return False
            if isinstance(v, tuple) and len(v) == 2 and v[0] == 'iter':
                v = IterObj(v[1])           # a bound iterator has state (`let mut it = ..; it.next()`)
            env[p['name']] = v
            return True
        if k == 'p_or':
            return any(self.matches(x, v, env) for x in p['pats'])
        if k == 'p_expr':
            e = p['e']
            if e.get('k') == 'lit':
                return e['v'] == v
            if e.get('k') == 'path':
                if e.get('res', '').startswith('Ctor'):
                    return v == ('ctor', e['path']) or (isinstance(v, tuple) and v[:2] == ('ctor', e['path']))
                return self.ev.integer(e) == v
        if k == 'p_range':
            lo = self.ev.integer(p['lo']) if 'lo' in p else -INF
            hi = self.ev.integer(p['hi']) if 'hi' in p else INF
            if not p.get('incl'):
                hi -= 1
            return lo <= v <= hi
        if k == 'p_tuple':
            return isinstance(v, tuple) and len(v) == len(p['pats']) and all(self.matches(x, y, env) for x, y in zip(p['pats'], v))
        if k in ('p_ref', 'p_deref'):
            return self.matches(p['pat'], v, env)
        if k == 'p_tuplestruct':
            if isinstance(v, tuple) and len(v) == 3 and v[0] == 'ctor' and v[1] == p.get('path'):
                return all(self.matches(x, y, env) for x, y in zip(p['pats'], v[2]))
            if isinstance(v, tuple) and len(v) == 3 and v[0] == 'struct' and v[1] == p.get('path') and isinstance(v[2], dict) and all(str(i) in v[2] for i in range(len(p['pats']))):
                return all(self.matches(x, v[2][str(i)], env) for i, x in enumerate(p['pats']))          # a tuple struct kept as a struct with the fields `0`, `1`, ..
            return False
        if k == 'p_struct':
            if isinstance(v, tuple) and len(v) == 3 and v[0] == 'struct':
                for f in p.get('fields', []):
                    if f['name'] not in v[2]:
                        raise Unanalysable(f'struct pattern field `{f["name"]}`')
                    if not self.matches(f['pat'], v[2][f['name']], env):
                        return False
                return True
            if isinstance(v, tuple) and len(v) == 3 and v[0] == 'ctor':
                if v[1] != p.get('path'):
                    return False
                return all(self.matches(f['pat'], v[2][int(f['name'])], env) for f in p.get('fields', []) if str(f['name']).isdigit())
            if isinstance(v, tuple) and len(v) == 2 and v[0] == 'ctor':
                return v[1] == p.get('path')
            raise Unanalysable('struct pattern on a value the evaluator does not model')
        raise Unanalysable(f'pattern `{k}` in evaluation')


def truth_table(ev, expr, atom_of, nvars=None, base_env=None):
    """Tabulate a boolean expression over the atoms recognised by `atom_of(node) -> name | None`
    (each atom becomes a boolean variable).  Returns (sorted atom names, {assignment tuple: bool})."""
    import copy
    import itertools
    e = copy.deepcopy(expr)
    names = []

    def rec(n):
        if isinstance(n, dict):
            a = atom_of(n)
            if a is not None:
                if a not in names:
                    names.append(a)
                n.clear()
                n.update({'k': 'path', 'res': 'Local', 'path': a})
                return
            for v in list(n.values()):
                rec(v)
        elif isinstance(n, list):
            for v in n:
                rec(v)
    rec(e)
    names.sort()
    interp = Interp(ev)
    table = {}
    for vals in itertools.product((False, True), repeat=len(names)):
        env = dict(base_env or {})
        env.update(zip(names, vals))
        table[vals] = bool(interp.run(e, env))
    return names, table



class FxInterp(Interp):
    """Interp that also records the effects of a statement fragment: assignments (to a
    local or a field, keyed by its name) and whether `break` is reached."""

    def _store_field(self, l, value, env):
        """`x.f = v` on a modelled struct value updates it in place (the value is shared by everything that borrowed it)"""
        try:
            base = self.val(l['base'], env)
        except Unanalysable:
            return
        if isinstance(base, tuple) and len(base) == 3 and base[0] == 'struct' and isinstance(base[2], dict) and l.get('name') in base[2]:
            base[2][l['name']] = value

    def effects(self, e, env):
        env = dict(env)
        env['@assign'] = {}
        env['@break'] = False
        try:
            self.val(e, env)
        except Brk:
            env['@break'] = True
        except Ret:
            pass
        return env['@assign'], env['@break']

    def val(self, e, env):
        k = e.get('k')
        if k == 'assign':
            l = peel(e['lhs'])
            name = l.get('name') if l.get('k') == 'field' else (l.get('path') or '?').split('#')[0]
            env.setdefault('@assign', {})[name] = self.val(e['rhs'], env)
            raw = e['lhs']
            while isinstance(raw, dict) and raw.get('k') == 'block' and not raw.get('stmts') and 'expr' in raw:
                raw = raw['expr']
            cur = env.get(l.get('path')) if l.get('k') == 'path' else None
            newv = env['@assign'][name]
            if l.get('k') == 'path' and raw.get('k') == 'unary' and raw.get('op') == '*' and isinstance(cur, tuple) and len(cur) == 3 and cur[0] == 'struct' \
                    and isinstance(cur[2], dict) and isinstance(newv, tuple) and len(newv) == 3 and newv[0] == 'struct' and isinstance(newv[2], dict):
                # `*place = value` through a reference to a modelled struct: whoever holds the reference sees the new content
                cur[2].clear()
                cur[2].update(newv[2])
            elif l.get('k') == 'path':
                env[l['path']] = env['@assign'][name]
            elif l.get('k') == 'field' and ('.' + name) in env:
                env['.' + name] = env['@assign'][name]
            elif l.get('k') == 'field':
                self._store_field(l, env['@assign'][name], env)
            return ()
        if k == 'assignop':
            l = peel(e['lhs'])
            name = l.get('name') if l.get('k') == 'field' else (l.get('path') or '?').split('#')[0]
            try:
                cur = self.val(e['lhs'], env)
                rhs = self.val(e['rhs'], env)
                op_ = (e.get('op') or '').rstrip('=')
                new = {'+': lambda: cur + rhs, '-': lambda: cur - rhs, '*': lambda: cur * rhs, '/': lambda: cur // rhs, '%': lambda: cur % rhs}[op_]()
            except Exception:
                new = ('unknown',)
            env.setdefault('@assign', {})[name] = new
            if l.get('k') == 'path':
                env[l['path']] = new
            elif l.get('k') == 'field' and ('.' + name) in env:
                env['.' + name] = new
            elif l.get('k') == 'field':
                self._store_field(l, new, env)
            return ()

        if k == 'break':
            raise Brk()
        if k == 'field':
            name = e.get('name')
            if ('.' + str(name)) in env:
                return env['.' + str(name)]
            return super().val(e, env)
        return super().val(e, env)


import math


class FloatInterp(Interp):
    """Pure-expression evaluation over IEEE doubles (Python floats): used to tabulate float
    predicates / case tables over representative values of the classes
    {-nan, nan, -0.0, 0.0, finite integral, finite fractional, -inf, +inf}."""
    CONSTS = {'INFINITY': math.inf, 'NEG_INFINITY': -math.inf, 'NAN': math.nan, 'MAX': 1.7976931348623157e308,
              'MIN': -1.7976931348623157e308, 'EPSILON': 2.220446049250313e-16}

    def val(self, e, env):
        k = e.get('k')
        if k == 'lit' and e.get('lk') == 'float':
            return float(e['v'].replace('_', '').replace('f64', '').replace('f32', ''))
        if k == 'path' and e.get('res', '').startswith('AssocConst'):
            p = e.get('path') or ''
            seg = last_seg(p)
            if ('f64' in p or 'f32' in p) and seg in self.CONSTS:
                return self.CONSTS[seg]
        if k == 'mcall':
            name = e.get('name')
            if name in ('is_sign_negative', 'is_sign_positive', 'is_nan', 'is_infinite', 'is_finite', 'abs', 'copysign', 'fract', 'trunc', 'floor'):
                x = self.val(e['recv'], env)
                if isinstance(x, (int, float)) and not isinstance(x, bool):
                    x = float(x)
                    if name == 'is_sign_negative':
                        return math.copysign(1.0, x) < 0
                    if name == 'is_sign_positive':
                        return math.copysign(1.0, x) > 0
                    if name == 'is_nan':
                        return math.isnan(x)
                    if name == 'is_infinite':
                        return math.isinf(x)
                    if name == 'is_finite':
                        return math.isfinite(x)
                    if name == 'abs':
                        return abs(x)
                    if name == 'copysign':
                        return math.copysign(x, float(self.val(e['args'][0], env)))
                    if name == 'fract':
                        return math.fmod(x, 1.0) if math.isfinite(x) else math.nan
                    if name == 'trunc':
                        return float(math.trunc(x)) if math.isfinite(x) else x
                    if name == 'floor':
                        return float(math.floor(x)) if math.isfinite(x) else x
        if k == 'binary' and e.get('op') == '%':
            a = self.val(e['a'], env)
            b = self.val(e['b'], env)
            if isinstance(a, float) or isinstance(b, float):
                if math.isinf(a) or math.isnan(a) or b == 0:
                    return math.nan
                return math.fmod(a, b)
        if k == 'unary' and e.get('op') == '-':
            v = self.val(e['a'], env)
            if isinstance(v, float):
                return -v
        return super().val(e, env)


FLOAT_REPS = {
    '-nan': -math.nan if math.copysign(1.0, -math.nan) < 0 else math.copysign(math.nan, -1.0), 'nan': math.copysign(math.nan, 1.0),
    '-0.0': -0.0, '0.0': 0.0, '2.0': 2.0, '-2.0': -2.0, '1e20': 1e20, '1.5': 1.5, '-1.5': -1.5, '5e-324': 5e-324,
    'max': 1.7976931348623157e308, '-max': -1.7976931348623157e308, 'inf': math.inf, '-inf': -math.inf,
    # one ulp past an integer, the largest non-integral double, a fraction next to 1: integrality tests by tolerance get these wrong
    '1+ulp': 1.0000000000000002, '1000+ulp': 1000.0000000000001, '2^52-0.5': 4503599627370495.5, '1-ulp': 0.9999999999999999, '-(1+ulp)': -1.0000000000000002,
}


class Rejected(Exception):
    """a value filter (verify / verify_map / try_map) said no"""


class ParseValueInterp(FxInterp):
    """Evaluates the *value* a parser function computes from the outputs of its atomic sub-parsers, which are supplied in parse order:
    `(a, b).map(|(x, y)| f(x, y)).parse_next(input)` and `let x = a.parse_next(input)?; let y = b.parse_next(input)?; Ok(f(x, y))`
    both become f(outputs[0], outputs[1]).  Nothing is parsed: every `parse_next` is a hole filled from the list."""

    def __init__(self, ev, outputs, choices=()):
        super().__init__(ev)
        self.queue = list(outputs)
        self.choices = list(choices)     # which alternative each `alt((..))` met in parse order takes

    def output_of(self, pe, env):
        pe = peel(pe)
        k = pe.get('k')
        if k == 'tup':
            return tuple(self.output_of(x, env) for x in pe['elems'])
        if k == 'mcall' and pe.get('name') in ('context', 'by_ref'):
            return self.output_of(pe['recv'], env)
        if k == 'mcall' and pe.get('name') == 'map' and pe.get('args'):
            inner = self.output_of(pe['recv'], env)
            return self.apply(self.val(pe['args'][0], env), [inner])
        if k == 'mcall' and pe.get('name') == 'value' and pe.get('args'):
            self.output_of(pe['recv'], env)
            return self.val(pe['args'][0], env)
        if k == 'call' and (peel(pe.get('f', {})).get('path') or '').endswith('combinator::debug::trace') and len(pe.get('args', [])) == 2:
            return self.output_of(pe['args'][1], env)
        if k == 'call' and last_seg(peel(pe.get('f', {})).get('path') or '') in ('cut_err', 'backtrack_err') and len(pe.get('args', [])) == 1:
            return self.output_of(pe['args'][0], env)
        if k == 'call' and last_seg(peel(pe.get('f', {})).get('path') or '') == 'alt' and len(pe.get('args', [])) == 1 and peel(pe['args'][0]).get('k') == 'tup':
            if self.choices:
                return self.output_of(peel(pe['args'][0])['elems'][self.choices.pop(0)], env)
            # no choice supplied: the alternation as a whole is one atomic sub-parser
        if k == 'mcall' and pe.get('name') == 'verify' and pe.get('args'):
            inner = self.output_of(pe['recv'], env)
            if not self.apply(self.val(pe['args'][0], env), [inner]):
                raise Rejected('verify')
            return inner
        if k == 'mcall' and pe.get('name') in ('verify_map', 'try_map') and pe.get('args'):
            inner = self.output_of(pe['recv'], env)
            r = self.apply(self.val(pe['args'][0], env), [inner])
            if isinstance(r, tuple) and r[:1] == ('ctor',) and (r[1].endswith('Option::Some') or r[1].endswith('Result::Ok')):
                return r[2][0]
            if isinstance(r, tuple) and r[:1] == ('ctor',) and (r[1].endswith('Option::None') or r[1].endswith('Result::Err')):
                raise Rejected(pe['name'])
            raise Unanalysable(f'`{pe["name"]}` closure evaluates to {r!r:.60}')
        if k == 'path' and pe.get('res') in ('Fn', 'AssocFn'):
            # a helper of the workspace written as statements (several `parse_next` in a row) is not one sub-parser but the sequence it runs: it is evaluated,
            # its own `parse_next` holes are filled from the list
            wb = self._workspace_body(pe)
            if wb is not None and sum(1 for x in walk_nodes(wb['body']) if x.get('k') == 'mcall' and x.get('name') == 'parse_next') >= 2:
                r = self.apply_fn(wb, [('input',)])
                if isinstance(r, tuple) and len(r) == 3 and r[0] == 'ctor' and r[1].endswith('Result::Ok'):
                    return r[2][0]
                if isinstance(r, tuple) and len(r) >= 2 and r[0] == 'ctor' and r[1].endswith('Result::Err'):
                    raise Rejected(last_seg(pe.get('path') or ''))
                raise Unanalysable(f'helper `{pe.get("path")}` evaluates to {r!r:.60}')
        if k == 'closure' and len(pe.get('params', [])) == 1 and sum(1 for x in walk_nodes(pe.get('body', {})) if x.get('k') == 'mcall' and x.get('name') == 'parse_next') >= 2:
            # the same helper after it was expanded in place (verif/normalise.py turns a helper used as a value into `|input| { body }`)
            r = self.apply(self.val(pe, env), [('input',)])
            if isinstance(r, tuple) and len(r) == 3 and r[0] == 'ctor' and r[1].endswith('Result::Ok'):
                return r[2][0]
            if isinstance(r, tuple) and len(r) >= 2 and r[0] == 'ctor' and r[1].endswith('Result::Err'):
                raise Rejected('helper')
            raise Unanalysable(f'expanded helper evaluates to {r!r:.60}')
        if not self.queue:
            raise Unanalysable('more sub-parsers than supplied outputs')
        return self.queue.pop(0)

    def val(self, e, env):
        if e.get('k') == 'mcall' and e.get('name') == 'parse_next':
            try:
                return ('ctor', 'core::result::Result::Ok', (self.output_of(e['recv'], env),))
            except Rejected as r:
                return ('ctor', 'core::result::Result::Err', (('rejected', str(r)),))
        if e.get('k') == 'call' and (peel(e.get('f', {})).get('path') or '').startswith('winnow::error::'):
            return ('error', last_seg(peel(e['f'])['path']))        # an error value under construction
        if e.get('k') == 'mcall' and e.get('name') != 'parse_next':
            # stream bookkeeping (`input.checkpoint()`, `input.reset(&cp)`) and error adaptors (`.cut()`) carry no value of interest
            try:
                recv = self.val(e['recv'], env)
            except Unanalysable:
                recv = None
            if isinstance(recv, tuple) and recv and recv[0] in ('opaque', 'error') and self._workspace_method(e) is None:
                return recv if recv[0] == 'error' else ('opaque',)
        return super().val(e, env)


def walk_nodes(n):
    if isinstance(n, dict):
        yield n
        for v in n.values():
            yield from walk_nodes(v)
    elif isinstance(n, list):
        for v in n:
            yield from walk_nodes(v)


class RecInterp(FxInterp):
    """FxInterp that records calls of the named methods / functions instead of following them.  `self.calls` collects (name, [argument values]);
    a recorded call evaluates to ('rec', name, receiver value or None, [argument values]) so that later records show what flowed where.
    `x.field.take()` on a modelled struct empties the field."""

    def __init__(self, ev, record, record_fns=(), stubs=None):
        super().__init__(ev)
        self.record = set(record)
        self.record_fns = set(record_fns)
        self.stubs = dict(stubs or {})      # method name -> value it evaluates to (a modelled getter)
        self.calls = []
        self.trace = []                     # (name, receiver value or None, [argument values]) in call order

    def _model_mem(self, op, args, env):
        """mem::take / mem::swap / mem::replace on places that hold modelled structs (the content moves; every holder of the struct sees it).
        Returns (result,) or None when a place is not modelled."""
        def place(a):
            a = peel(a)
            while a.get('k') in ('addr', 'ref', 'unary') and ('e' in a or 'x' in a or 'expr' in a):
                a = peel(a.get('e') or a.get('x') or a.get('expr'))
            return a
        def is_struct(v):
            return isinstance(v, tuple) and len(v) == 3 and v[0] == 'struct' and isinstance(v[2], dict)
        try:
            vals = [self.val(a, env) for a in args]
        except Unanalysable:
            return None
        if op == 'take' and len(vals) == 1:
            v = vals[0]
            if is_struct(v):
                moved = ('struct', v[1], dict(v[2]))
                v[2].clear()
                v[2]['@default'] = True
                return (moved,)
            if isinstance(v, VecObj):
                moved = VecObj(v.items)
                v.items.clear()
                return (moved,)
            return None
        if op == 'swap' and len(vals) == 2 and is_struct(vals[0]) and is_struct(vals[1]):
            a, b = dict(vals[0][2]), dict(vals[1][2])
            vals[0][2].clear(); vals[0][2].update(b)
            vals[1][2].clear(); vals[1][2].update(a)
            return ((),)
        if op == 'replace' and len(vals) == 2 and is_struct(vals[0]) and is_struct(vals[1]):
            old = ('struct', vals[0][1], dict(vals[0][2]))
            vals[0][2].clear(); vals[0][2].update(vals[1][2])
            return (old,)
        return None

    def apply(self, clo, args):
        if isinstance(clo, tuple) and len(clo) == 2 and clo[0] == 'recfn':
            # a recorded method / function passed by name (`iter.for_each(Item::make_item)`)
            self.calls.append((clo[1], list(args[1:])))
            self.trace.append((clo[1], args[0] if args else None, list(args[1:])))
            return ('rec', clo[1], args[0] if args else None, list(args[1:]))
        return super().apply(clo, args)

    def val(self, e, env):
        k = e.get('k')
        if k == 'path' and e.get('res') in ('Fn', 'AssocFn') and last_seg(e.get('path') or '') in (self.record | self.record_fns):
            return ('recfn', last_seg(e['path']))
        if k == 'call':
            path = peel(e.get('f', {})).get('path') or ''
            if path in ('core::mem::replace', 'std::mem::replace', 'core::mem::swap', 'core::mem::take'):
                self.calls.append((last_seg(path), []))
                if getattr(self, 'model_mem', False):
                    r = self._model_mem(last_seg(path), e.get('args', []), env)
                    if r is not None:
                        return r[0]
                return ('opaque',)
            if last_seg(path) in self.record_fns and not (peel(e.get('f', {})).get('res') or '').startswith('Ctor'):
                args = []
                for a in e.get('args', []):
                    try:
                        args.append(self.val(a, env))
                    except Unanalysable:
                        args.append(('opaque',))
                self.calls.append((last_seg(path), args))
                self.trace.append((last_seg(path), None, args))
                return ('rec', last_seg(path), None, args)
        if k == 'match' and 'TryDesugar' in (e.get('src') or ''):
            # `recorded_call(..)?`: the recorded effect is assumed to succeed
            sc = e['scrut']
            inner = sc['args'][0] if sc.get('k') == 'call' and sc.get('args') else sc
            v = self.val(inner, env)
            if isinstance(v, tuple) and v and v[0] in ('rec', 'opaque'):
                return v
            if isinstance(v, tuple) and v and v[0] == 'ctor':
                if v[1].endswith('Result::Ok') or v[1].endswith('Option::Some'):
                    return v[2][0]
                if v[1].endswith('Result::Err') or v[1].endswith('Option::None'):
                    raise Ret(v)
            raise Unanalysable('`?` on a value the evaluator does not model')
        if k == 'mcall' and e.get('name') == 'take' and not e.get('args'):
            r = peel(e['recv'])
            if r.get('k') == 'path' and r.get('res') == 'Local' and r.get('path') in env:
                old = env[r['path']]
                if isinstance(old, tuple) and len(old) >= 2 and old[0] == 'ctor' and old[1].startswith('core::option::Option::'):
                    env[r['path']] = ('ctor', 'core::option::Option::None')
                    return old
            if r.get('k') == 'field':
                try:
                    base = self.val(r['base'], env)
                except Unanalysable:
                    base = None
                if isinstance(base, tuple) and len(base) == 3 and base[0] == 'struct' and r.get('name') in base[2]:
                    old = base[2][r['name']]
                    base[2][r['name']] = ('ctor', 'core::option::Option::None')
                    return old
        if k == 'mcall' and e.get('name') == 'write_fmt' and 'write_str' in self.record:
            text = self.format_text(e, env)
            self.calls.append(('write_str', [text]))
            self.trace.append(('write_str', None, [text]))
            return ('ctor', 'core::result::Result::Ok', ((),))
        if k == 'mcall' and e.get('name') in self.stubs:
            return self.stubs[e['name']]
        if k == 'mcall' and e.get('name') in self.record:
            args = []
            for a in e.get('args', []):
                try:
                    args.append(self.val(a, env))
                except Unanalysable:
                    args.append(('opaque',))
            try:
                recv = self.val(e['recv'], env)
            except Unanalysable:
                recv = None
            self.calls.append((e['name'], args))
            self.trace.append((e['name'], recv, args))
            return ('rec', e['name'], recv, args)
        if k == 'mcall':
            # adaptors applied to the result of a recorded call (`.map(Some)`, `.map_err(..)`, `?`-less chains) keep standing for that result
            try:
                recv = self.val(e['recv'], env)
            except Unanalysable:
                recv = None
            if isinstance(recv, tuple) and recv and recv[0] == 'rec':
                return recv
            if recv == ('opaque',) and self._workspace_method(e) is None:
                return ('opaque',)          # whatever is derived from an unmodelled value is unmodelled (`path.to_vec()`, `x.clone()`)
            if recv is not None and any(x.get('k') in ('mcall', 'call') for x in walk_nodes(e['recv'])):
                # the receiver was evaluated just now; it may have had an effect (`self.value.take()`), so the call goes on with the value, not with the expression
                self._rv = getattr(self, '_rv', 0) + 1
                nm = f'@rv{self._rv}'
                env[nm] = recv
                return super().val(dict(e, recv={'k': 'path', 'res': 'Local', 'path': nm, 't': peel(e['recv']).get('t'), 'l': e.get('l')}), env)
        if k == 'struct' and 'Range' not in (e.get('path') or ''):
            f = {}
            for x in e.get('fields', []):
                try:
                    f[x['name']] = self.val(x['e'], env)
                except Unanalysable:
                    f[x['name']] = ('opaque',)
            return ('struct', e.get('path') or '', f)
        return super().val(e, env)
