"""The value serializers evaluated on sample values of every shape of the serde data model (verif/serdedrive.py), judged against the TOML
mapping and against each other (C07/R17, C13/R11, C17/R15)."""
import math

from .core import last_seg
from .den import Evaluator, Unanalysable, EvalPanic, VecObj
from .places import MapObj, deref, plain, keyname
from .serdedrive import SerdeInterp, sv, is_ok, is_err

EDIT_SER = 'toml_edit::ser::value::ValueSerializer'
TOML_SER = 'toml::value::ValueSerializer'
DT_NAME, DT_FIELD = '$__toml_private_Datetime', '$__toml_private_datetime'


def kname(k):
    k = deref(k)
    for _ in range(6):
        if isinstance(k, str):
            return k
        if isinstance(k, tuple) and len(k) == 3 and k[0] == 'struct' and isinstance(k[2], dict):
            k = k[2].get('key', k[2].get('0', k[2].get('inner')))
        elif isinstance(k, tuple) and len(k) == 3 and k[0] == 'ctor' and len(k[2]) == 1:
            k = k[2][0]
        else:
            break
    return k


def pairs_of(m):
    m = deref(m)
    if isinstance(m, MapObj):
        return [(kname(k), v) for k, v in m.pairs]
    if isinstance(m, VecObj):
        return [(kname(k), v) for k, v in m.items]
    return [(kname(k), v) for k, v in m]


def norm(v):
    """a toml_edit::Value / Item or a toml::Value as ('int', n) / ('str', s) / ('arr', [..]) / ('tbl', sorted [(k, v)]) / ('datetime', text)"""
    v = deref(v)
    if isinstance(v, tuple) and len(v) >= 2 and v[0] == 'ctor':
        seg = last_seg(v[1])
        pay = v[2][0] if len(v) > 2 and v[2] else None
        pay = deref(pay)
        if v[1].startswith('toml_edit::item::Item::'):
            if seg == 'Value':
                return norm(pay)
            if seg == 'Table':
                return ('tbl', sorted((k, norm(x)) for k, x in pairs_of(pay[2]['items'])))
            if seg == 'ArrayOfTables':
                return ('arr', [norm(x) for x in (pay[2]['values'].items if isinstance(pay[2]['values'], VecObj) else pay[2]['values'])])
            return ('none-item',)
        inner = pay[2].get('value') if isinstance(pay, tuple) and len(pay) == 3 and pay[0] == 'struct' and isinstance(pay[2], dict) and 'value' in pay[2] else pay
        inner = deref(inner)
        if seg in ('Integer',):
            return ('int', inner)
        if seg == 'Float':
            return ('float', 'nan' if isinstance(inner, float) and math.isnan(inner) else inner)
        if seg == 'Boolean':
            return ('bool', inner)
        if seg == 'String':
            return ('str', kname(inner))
        if seg == 'Datetime':
            return ('datetime', plain(inner))
        if seg == 'Array':
            xs = pay[2]['values'] if isinstance(pay, tuple) and len(pay) == 3 and pay[0] == 'struct' else pay
            xs = deref(xs)
            return ('arr', [norm(x) for x in (xs.items if isinstance(xs, VecObj) else xs)])
        if seg in ('InlineTable', 'Table'):
            st = pay[2]
            return ('tbl', sorted((k, norm(x)) for k, x in pairs_of(st.get('items') if 'items' in st else st.get('map'))))
    return ('?', str(plain(v))[:60])


def outcome(r):
    r = deref(r)
    if is_ok(r):
        return norm(r[2][0])
    if is_err(r):
        e = deref(r[2][0])
        if isinstance(e, tuple) and len(e) == 3 and e[0] == 'struct' and 'inner' in e[2]:
            e = deref(e[2]['inner'])
        return ('err', last_seg(e[1]) if isinstance(e, tuple) and len(e) >= 2 and e[0] == 'ctor' else '?')
    return ('?', str(plain(r))[:60])


def expected(v):
    """what the TOML mapping of serde's data model prescribes for the model value v"""
    kind = v[1]
    if kind == 'bool':
        return ('bool', v[2])
    if kind in ('i8', 'i16', 'i32', 'i64', 'u8', 'u16', 'u32', 'u64'):
        return ('int', v[2]) if -2**63 <= v[2] <= 2**63 - 1 else ('err', 'range')
    if kind in ('f32', 'f64'):
        return ('float', 'nan' if math.isnan(v[2]) else v[2])
    if kind in ('str', 'char'):
        return ('str', v[2])
    if kind == 'none':
        return ('err', 'UnsupportedNone')
    if kind == 'some':
        return expected(v[2])
    if kind in ('unit', 'unit_struct'):
        return ('err', 'UnsupportedType')
    if kind == 'newtype_struct':
        return expected(v[3])
    if kind == 'unit_variant':
        return ('str', v[4])
    if kind in ('seq', 'tuple', 'tuple_struct', 'tuple_variant'):
        out = []
        for e in v[-1]:
            x = expected(e)
            if x[0] == 'err':
                return x
            out.append(x)
        return ('tbl', [(v[4], ('arr', out))]) if kind == 'tuple_variant' else ('arr', out)
    if kind == 'newtype_variant':
        x = expected(v[5])
        return x if x[0] == 'err' else ('tbl', [(v[4], x)])
    if kind in ('map', 'struct', 'struct_variant'):
        if kind == 'struct' and v[2] == DT_NAME:
            return ('datetime-text', v[3][0][1][2])
        out = []
        for k, x in v[-1]:
            if x[1] == 'none':
                continue            # a field / entry whose value is None is omitted
            y = expected(x)
            if y[0] == 'err':
                return y
            out.append(((k[4] if k[1] == 'unit_variant' else k[2]) if isinstance(k, tuple) else k, y))
        t = ('tbl', sorted(out))
        return ('tbl', [(v[4], t)]) if kind == 'struct_variant' else t
    return ('?', kind)


def same(got, want):
    if want[0] == 'err' and got[0] == 'err':
        return want[1] == 'range' or got[1] == want[1]
    if want[0] == 'datetime-text':
        return got[0] == 'datetime'
    if got[0] == 'float' and want[0] == 'float':
        a, b = got[1], want[1]
        return a == b and (not isinstance(a, float) or math.copysign(1, a) == math.copysign(1, b)) if a != 'nan' else b == 'nan'
    if got[0] in ('arr',) and want[0] == 'arr':
        return len(got[1]) == len(want[1]) and all(same(a, b) for a, b in zip(got[1], want[1]))
    if got[0] == 'tbl' and want[0] == 'tbl':
        return len(got[1]) == len(want[1]) and all(ka == kb and same(a, b) for (ka, a), (kb, b) in zip(sorted(got[1]), sorted(want[1])))
    return got == want


def show(sample, depth=0):
    k = sample[1]
    if k in ('bool', 'i8', 'i16', 'i32', 'i64', 'u8', 'u16', 'u32', 'u64', 'f32', 'f64', 'str', 'char'):
        return f'{sample[2]!r}{k if k not in ("str", "bool", "char") else ""}'
    if k == 'none':
        return 'None'
    if k == 'some':
        return f'Some({show(sample[2])})'
    if k == 'unit':
        return '()'
    if k == 'unit_struct':
        return 'Unit'
    if k == 'newtype_struct':
        return f'New({show(sample[3])})'
    if k == 'unit_variant':
        return f'E::{sample[4]}'
    if k == 'newtype_variant':
        return f'E::{sample[4]}({show(sample[5])})'
    if k == 'tuple_variant':
        return f'E::{sample[4]}({", ".join(show(x) for x in sample[5])})'
    if k == 'struct_variant':
        return f'E::{sample[4]} {{ {", ".join(f + ": " + show(x) for f, x in sample[5])} }}'
    if k in ('seq',):
        return 'vec![' + ', '.join(show(x) for x in sample[2]) + ']'
    if k == 'tuple':
        return '(' + ', '.join(show(x) for x in sample[2]) + ')'
    if k == 'tuple_struct':
        return 'T(' + ', '.join(show(x) for x in sample[3]) + ')'
    if k == 'struct':
        return ('Datetime(' + sample[3][0][1][2] + ')') if sample[2] == DT_NAME else 'S { ' + ', '.join(f + ': ' + show(x) for f, x in sample[3]) + ' }'
    if k == 'map':
        return 'map{' + ', '.join((show(a) if a[1] == 'str' else 'K::' + a[4]) + ': ' + show(b) for a, b in sample[2]) + '}'
    return k


def samples():
    i = lambda n: sv('i64', n)
    leaves = [sv('bool', True), i(5), sv('i8', -3), sv('u8', 200), sv('u32', 4000000000), sv('u64', 2**63 - 1), sv('u64', 2**63), sv('f64', 1.5), sv('f32', 0.5), sv('f64', -0.0), sv('f64', float('inf')),
              sv('f64', -float('nan')), sv('str', 'x'), sv('char', 'c'), sv('none'), sv('some', i(1)), sv('some', sv('none')), sv('unit'), sv('unit_struct', 'Unit'), sv('newtype_struct', 'New', i(2)),
              sv('newtype_struct', 'New', sv('none')), sv('unit_variant', 'E', 0, 'A'), sv('newtype_variant', 'E', 1, 'B', i(3)), sv('newtype_variant', 'E', 1, 'B', sv('none')),
              sv('tuple_variant', 'E', 2, 'C', [i(3), sv('str', 'y')]), sv('tuple_variant', 'E', 2, 'C', [sv('none')]), sv('struct_variant', 'E', 3, 'D', [('a', i(1)), ('b', sv('none'))]),
              sv('struct', DT_NAME, [(DT_FIELD, sv('str', '1979-05-27T07:32:00Z'))]), sv('seq', []), sv('seq', [i(1), i(2)]), sv('tuple', [i(1), sv('str', 'a')]), sv('tuple_struct', 'T', [i(1), i(2)]),
              sv('map', [(sv('str', 'k'), i(1))]), sv('map', []), sv('struct', 'S', [('a', i(1)), ('b', sv('str', 'z'))]), sv('struct', 'S', [])]
    st = lambda n: sv('struct', 'S', [('a', i(n))])
    leaves += [sv('tuple_variant', 'E', 2, 'C', [st(1), st(2)]), sv('seq', [st(1), st(2)]), sv('map', [(sv('unit_variant', 'K', 0, 'A'), i(1)), (sv('unit_variant', 'K', 1, 'B'), i(2))]),
               sv('newtype_struct', 'New', st(1)), sv('some', st(1)), sv('struct', 'S', [('t', sv('tuple', [st(1), i(2)]))]), sv('newtype_variant', 'E', 1, 'B', sv('seq', [st(1)]))]
    out = []
    for x in leaves:
        out.append(x)
        out.append(sv('seq', [i(0), x]))
        out.append(sv('struct', 'S', [('z', i(9)), ('f', x), ('a', i(1))]))
        out.append(sv('map', [(sv('str', 'k'), x), (sv('str', 'b'), i(1))]))
        out.append(sv('newtype_variant', 'E', 1, 'B', x))
        out.append(sv('struct', 'S', [('v', sv('seq', [sv('some', i(1)), x]))]))
        out.append(sv('struct_variant', 'E', 3, 'D', [('f', x)]))
        out.append(sv('some', x))
    return out


def run_route(facts, ser_ty, sample):
    it = SerdeInterp(Evaluator(facts))
    ser = ('ctor', ser_ty) if ser_ty in facts.adts and not facts.adts[ser_ty].get('variants', [{}])[0].get('fields') and ser_ty == TOML_SER else ('struct', ser_ty, {})
    return outcome(it.drive(sample, ser))


def r_value_serializers(rep, facts, rid, routes=('edit', 'toml'), judge='oracle'):
    text = {'oracle': 'the value serializers write what the TOML mapping of serde\'s data model prescribes: evaluated on {n} sample values covering every shape of the data model at the top, '
                      'inside a sequence, a struct field, a map entry, a variant and an Option — scalars as scalars (out-of-range integers and None / unit refused), a None field or entry '
                      'omitted and any other None an error, sequences as arrays, structs and maps as tables, variants as `"V"` / `{{ V = payload }}` with the variant name kept, the date-time '
                      'struct as a date-time',
            'agree': 'Value::try_from (toml::value::ValueSerializer) and the text route (toml_edit::ser::ValueSerializer) give the same tree or both refuse, for {n} sample values covering every '
                     'shape of the serde data model'}[judge]
    S = samples()
    R = rep.rule(rid, text.format(n=len(S)), floor=200)
    types = {'edit': EDIT_SER, 'toml': TOML_SER}
    have = {r: any(i.get('trait') == 'serde::ser::Serializer' and (i.get('self_ty') or '') == types[r] for i in facts.impls) for r in routes}
    for sample in S:
        label = show(sample)
        res = {}
        bad = False
        for r in routes:
            if not have[r]:
                continue
            try:
                res[r] = run_route(facts, types[r], sample)
            except EvalPanic as ex:
                rep.bad(R, f'{r}|{label}', f'serializing `{label}` with `{types[r]}` panics: {ex}')
                bad = True
            except (Unanalysable, TypeError, IndexError, KeyError, AttributeError) as ex:
                rep.incomplete(R, f'{r}|{label}', f'cannot evaluate `{types[r]}` on `{label}`: {type(ex).__name__}: {ex}')
                bad = True
        for r, got in list(res.items()):
            if 'opaque' in str(got) or "'?'" in str(got):
                rep.incomplete(R, f'{r}|{label}', f'`{types[r]}` on `{label}` evaluates to a tree with parts the evaluator does not model ({got})')
                bad = True
        if bad:
            continue
        if judge == 'oracle':
            want = expected(sample)
            for r, got in res.items():
                rep.check(R, f'{r}|{label}', same(got, want), f'{got}'[:80],
                          f'`{types[r]}` turns `{label}` into {got}; the TOML mapping prescribes {want}: the value is refused although it is serializable, or written so that it does not '
                          f'read back as itself')
        elif len(res) == 2:
            a, b = res['edit'], res['toml']
            agree = (a[0] == 'err' and b[0] == 'err') or (a[0] != 'err' and b[0] != 'err' and same(a, b if b[0] != 'datetime' else a))
            rep.check(R, f'agree|{label}', agree, f'{a}'[:80], f'`{label}`: the text route gives {a}, Value::try_from gives {b} — the two encoding routes disagree')


def to_standard(v):
    """the same tree in the standard spelling: tables as [table], arrays of tables as [[table]] (what the document formatters make of a serialized value)"""
    I = 'toml_edit::item::Item::'
    V = 'toml_edit::value::Value::'
    v = deref(v)
    is_val = lambda x, kind: isinstance(x, tuple) and len(x) == 3 and x[0] == 'ctor' and x[1] == V + kind
    none_ = ('ctor', 'core::option::Option::None')

    def table_of(inl):
        st = deref(inl)[2]
        kids = [(k, item_of(x)) for k, x in (st['items'].pairs if isinstance(st['items'], MapObj) else st['items'])]
        return ('struct', 'toml_edit::table::Table', {'items': MapObj(kids), 'decor': st.get('decor'), 'implicit': False, 'dotted': False, 'doc_position': none_, 'span': none_})

    def item_of(item):
        item = deref(item)
        if isinstance(item, tuple) and len(item) == 3 and item[1] == I + 'Value':
            val = deref(item[2][0])
            if is_val(val, 'InlineTable'):
                return ('ctor', I + 'Table', (table_of(val[2][0]),))
            if is_val(val, 'Array'):
                xs = deref(val[2][0])[2]['values']
                xs = xs.items if isinstance(xs, VecObj) else list(xs)
                inner = [deref(deref(x)[2][0]) if isinstance(deref(x), tuple) and deref(x)[1] == I + 'Value' else None for x in xs]
                if xs and all(i is not None and is_val(i, 'InlineTable') for i in inner):
                    return ('ctor', I + 'ArrayOfTables', (('struct', 'toml_edit::array_of_tables::ArrayOfTables', {'values': VecObj([('ctor', I + 'Table', (table_of(i[2][0]),)) for i in inner]), 'span': none_}),))
        return item
    return item_of(('ctor', I + 'Value', (v,)))


def r_round_trip(rep, facts, rid, routes=('edit', 'toml')):
    from .dedrive import DeInterp, type_of_sample, value_of_sample
    S = [s for s in samples() if expected(s)[0] != 'err']
    R = rep.rule(rid, f'what is written reads back as the value it was: {len(S)} sample values of every shape of the serde data model are serialized by the evaluated value serializer and the '
                 'resulting tree is handed to the evaluated deserializer of the same route with the value\'s own type as the target (toml_edit: in the inline spelling and with tables / '
                 'arrays of tables promoted to [table] / [[table]] as the document formatters do; toml::Value: Value::try_from then try_into) — the decoded value equals the original '
                 '(a map entry whose value is None is omitted by design and stays omitted)', floor=400)
    I = 'toml_edit::item::Item::'
    canon = lambda x: 'nan' if isinstance(x, float) and math.isnan(x) else tuple(canon(y) for y in x) if isinstance(x, (tuple, list)) else x
    have = {'edit': any(i.get('trait') == 'serde::ser::Serializer' and i.get('self_ty') == EDIT_SER for i in facts.impls) and facts.has_body("<toml_edit::de::value::ValueDeserializer as serde::de::Deserializer<'de>>::deserialize_any"),
            'toml': any(i.get('trait') == 'serde::ser::Serializer' and i.get('self_ty') == TOML_SER for i in facts.impls) and facts.has_body("<toml::value::Value as serde::de::Deserializer<'de>>::deserialize_any")}

    def drop_none_entries(v):
        if isinstance(v, tuple) and v[:1] == ('map',):
            return ('map', [(k, drop_none_entries(x)) for k, x in v[1] if x != ('none',)])
        if isinstance(v, tuple):
            return tuple(drop_none_entries(x) for x in v)
        if isinstance(v, list):
            return [drop_none_entries(x) for x in v]
        return v
    for s in S:
        label = show(s)
        want = canon(drop_none_entries(value_of_sample(s)))
        t = type_of_sample(s)
        for route in routes:
            if not have[route]:
                continue
            variants = ('inline', 'standard') if route == 'edit' else ('value',)
            for variant in variants:
                key = f'{route}-{variant}|{label}'
                it = DeInterp(Evaluator(facts))
                try:
                    r = it.drive(s, ('struct', EDIT_SER, {}) if route == 'edit' else ('ctor', TOML_SER))
                    if not is_ok(r):
                        rep.bad(R, key, f'`{label}` is refused by the {route} serializer ({outcome(r)}) although the TOML mapping has a form for it')
                        continue
                    val = r[2][0]
                    if route == 'edit':
                        item = ('ctor', I + 'Value', (val,)) if variant == 'inline' else to_standard(val)
                        de = ('struct', 'toml_edit::de::value::ValueDeserializer', {'input': item, 'validate_struct_keys': False})
                    else:
                        de = val
                    back = it.deserialize(t, de)
                except EvalPanic as ex:
                    rep.bad(R, key, f'writing and reading back `{label}` ({route}, {variant}) panics: {ex}')
                    continue
                except (Unanalysable, TypeError, IndexError, KeyError, AttributeError) as ex:
                    rep.incomplete(R, key, f'cannot evaluate the round trip of `{label}` ({route}, {variant}): {type(ex).__name__}: {ex}')
                    continue
                if is_ok(back):
                    got = canon(drop_none_entries(plain(back[2][0])))
                    rep.check(R, key, got == want, 'reads back',
                              f'`{label}` written by the {route} serializer reads back ({variant} spelling) as {str(got)[:200]}, the original is {str(want)[:200]}: the round trip changes the value')
                else:
                    e = deref(back[2][0])
                    rep.bad(R, key, f'`{label}` written by the {route} serializer cannot be read back ({variant} spelling): {str(plain(e))[:220]}')
