#!/usr/bin/env python3
"""Generates /verif/MANIFEST.json from the table below (single source of truth)."""
import json
import os
import sys

VERIF = os.path.dirname(os.path.dirname(os.path.abspath(__file__)))

BASELINE_OFF = ("cd /repo && (cargo nextest run --workspace --no-fail-fast --tool-config-file pb:/w/lib/nextest.toml "
                "--profile pb --test-threads 8 --offline || cargo test --workspace --no-fail-fast --offline)")

# property -> dict(text, note, technique, design) ; absent => not_applicable with reason
CLAIMS = {}
NOT_APPLICABLE = {}


def load_claims():
    p = os.path.join(VERIF, 'verif', 'claims.json')
    with open(p) as f:
        d = json.load(f)
    return d['claims'], d['not_applicable']


def main():
    claims, na = load_claims()
    props = [json.loads(l)['id'] for l in open(os.path.join(VERIF, 'properties.jsonl'))]
    checks = []
    for pid in props:
        if pid in claims:
            c = claims[pid]
            checks.append({
                'property_id': pid,
                'quick_cmd': f'./check {pid} --tier quick',
                'thorough_cmd': f'./check {pid} --tier thorough',
                'evidence_file': f'/verif/evidence/{pid}.json',
                'replay_cmd_template': f'./check {pid} --explain {{path}}',
                'engine': 'static-rules',
                'level_claimed': {'category': 'other', 'text': c['text'], 'design_ref': c.get('design', f'DESIGN.md section 4, {pid}')},
                'level_note': c['note'],
                'technique': c['technique'],
            })
    not_app = [{'property_id': pid, 'reason': na.get(pid, 'check not delivered yet (see DESIGN.md section 6)')}
               for pid in props if pid not in claims]
    m = {
        'version': 1,
        'setup_cmd': ('cd /verif/tools/tomlfacts && CARGO_NET_OFFLINE=true cargo build --offline && '
                      'cd /verif/tools/srcfacts && CARGO_NET_OFFLINE=true cargo build --offline'),
        'hooks': {
            'guard': 'toml_rs_toml_verif',
            'enable': 'none needed: static analysis reads the unmodified source; no hook or instrumentation exists in /repo',
            'baseline_off_cmd': BASELINE_OFF,
            'source_commits': [],
            'add_only': True,
        },
        'engines': [
            {'name': 'tomlfacts', 'path': 'tools/tomlfacts', 'serves_properties': sorted(claims),
             'kind_free_text': 'rustc_private driver (nightly) under cargo check: typed HIR trees with resolved callees, item facts, MIR summaries'},
            {'name': 'srcfacts', 'path': 'tools/srcfacts', 'serves_properties': [p for p in ('C12', 'C18', 'C19') if p in claims],
             'kind_free_text': 'syn-based reader of the unexpanded source: cfg census, macro_rules token trees, format strings'},
            {'name': 'static-rules', 'path': 'verif', 'serves_properties': sorted(claims),
             'kind_free_text': 'Python rule library: finite-domain denotations, combinator model (G-IR), CFG/call-graph analyses, sibling diffs, ABNF oracle'},
        ],
        'checks': checks,
        'not_applicable': not_app,
        'notes': ('Technique family: static analysis only. Every check analyses /repo\'s current working tree (facts are cached under '
                  '/verif/.cache keyed by a content hash of the tree). Genuine defects found: see /verif/known_findings.json and DESIGN.md section 5.'),
    }
    with open(os.path.join(VERIF, 'MANIFEST.json'), 'w') as f:
        json.dump(m, f, indent=1)
    print(f'{len(checks)} checks, {len(not_app)} not applicable')


if __name__ == '__main__':
    main()
