"""Shared extraction helpers over the G-IR of toml_edit::parser: atom inventory,
dispatch tables, filter closures, field-range acceptance sets."""
from .core import walk, peel, last_seg, AnalysisIncomplete
from .den import Evaluator, Interp, Unanalysable, pat_set, pred_set, INF, ALL, fmt_set
from .gir import Gir

P = 'toml_edit::parser::'

_CACHE = {}


def model(facts):
    key = (facts.dir,)
    if key not in _CACHE:
        _CACHE[key] = Gir(facts)
    return _CACHE[key]


def short(fn):
    return fn.replace(P, '')


def term(g, name):
    t = g.terms.get(P + name)
    if t is None:
        raise AnalysisIncomplete(f'anchor: parser function `{P}{name}` not found (renamed or removed)')
    return t


def atoms(g, t):
    """[(kind, ordinal, node)] for tok/lit atoms of a term, pre-order, per-kind ordinals"""
    n = {}
    out = []
    for x in g.subterms(t):
        if x['op'] == 'tok':
            kind = x['kind']
        elif x['op'] == 'lit':
            kind = 'lit'
        else:
            continue
        i = n.get(kind, 0)
        n[kind] = i + 1
        out.append((kind, i, x))
    return out


def find_dispatch(g, t):
    for x in g.subterms(t):
        if x['op'] == 'dispatch' and x.get('bound') is not None:
            return x
    return None


def dispatch_table(g, disp, universe=ALL):
    """first-match table of a byte dispatch: [(byteset, arm)] partitioning `universe`"""
    ev = g.ev
    rest = set(universe)
    rows = []
    for arm in disp['arms']:
        if arm.get('guard') is not None:
            raise Unanalysable('guarded dispatch arm')
        pat = arm['pat']
        # Option<u8> patterns: Some(b) / None / _
        if pat.get('k') == 'p_tuplestruct' and (pat.get('path') or '').endswith('Option::Some'):
            s = pat_set(ev, pat['pats'][0], rest)
        else:
            s = pat_set(ev, pat, rest)
        rows.append((frozenset(s), arm))
        rest -= s
    return rows, frozenset(rest)


def bytes_pattern(ev, pat):
    """byte-string pattern (possibly wrapped in Some(..)) -> bytes, or None for wildcard"""
    if pat.get('k') == 'p_tuplestruct' and (pat.get('path') or '').endswith('Option::Some'):
        pat = pat['pats'][0]
    if pat.get('k') in ('p_wild',):
        return None
    if pat.get('k') == 'p_bind' and 'sub' not in pat:
        return None
    if pat.get('k') == 'p_expr':
        e = pat['e']
        return bytes(ev.bytes(e))
    if pat.get('k') in ('p_ref', 'p_deref'):
        return bytes_pattern(ev, pat['pat'])
    raise Unanalysable(f'pattern {pat.get("k")} is not a byte string')


def trans_mentions(g, t):
    """named parsers reachable from a term through refs"""
    seen = set()
    stack = list(g.mentions(t))
    while stack:
        f = stack.pop()
        if f in seen:
            continue
        seen.add(f)
        ft = g.terms.get(f)
        if ft is not None:
            stack.extend(g.mentions(ft))
    return seen


def first_of(g, t):
    fm = g.first_map()
    return g._first_t(t, fm)


def nullable_of(g, t):
    nm = g.nullable_map()
    return g._nullable_t(t, nm)


def consumed_of(g, t):
    cm = g.consumed_map()
    return g._consumed_t(t, cm)


def filters(g, t):
    """[(kind, ordinal, node)] of verdict filters in a term"""
    n = {}
    out = []
    for x in g.subterms(t):
        if x['op'] == 'map' and x['kind'] in ('verify', 'try_map', 'verify_map', 'parse_to'):
            i = n.get(x['kind'], 0)
            n[x['kind']] = i + 1
            out.append((x['kind'], i, x))
    return out


def closure_of(node):
    """closure HIR node passed as first arg of an adapter call, or None"""
    if node is None:
        return None
    n = peel(node)
    if n.get('k') == 'closure':
        return n
    return None


def accept_set_2digit(g, fn):
    """For a field parser `unsigned_digits::<..>.try_map(|s| { let d = parse; if COND {Ok(d)} else {Err} })`
    return the set of values in 0..=99 for which the closure returns Ok."""
    t = term(g, fn)
    fl = [x for x in filters(g, t) if x[0] == 'try_map']
    if len(fl) != 1:
        raise AnalysisIncomplete(f'{fn}: expected exactly one try_map filter, found {len(fl)}')
    clo = closure_of(fl[0][2].get('filt'))
    if clo is None:
        raise AnalysisIncomplete(f'{fn}: try_map argument is not a closure')
    body = clo['body']
    # the value variable: a `let d = <..>.parse::<u8>()...` binding
    var = None
    for s in body.get('stmts', []):
        if s.get('k') == 'let' and s['pat'].get('k') == 'p_bind':
            for c in walk(s.get('init', {})):
                if c.get('k') == 'mcall' and c.get('name') == 'parse':
                    var = s['pat']['name']
    if var is None:
        raise AnalysisIncomplete(f'{fn}: no `let d = s.parse()` binding in the try_map closure')
    tail = body.get('expr')
    if tail is None:
        raise AnalysisIncomplete(f'{fn}: closure has no tail expression')
    interp = Interp(g.ev)
    acc = set()
    for v in range(0, 100):
        r = interp.run(tail, {var: v})
        if isinstance(r, tuple) and r[0] == 'ctor' and r[1].endswith('Result::Ok'):
            if r[2] != (v,):
                raise Unanalysable(f'{fn}: Ok value differs from the parsed value for {v}: {r[2]}')
            acc.add(v)
        elif isinstance(r, tuple) and r[0] == 'ctor' and r[1].endswith('Result::Err'):
            pass
        else:
            raise Unanalysable(f'{fn}: closure result is not Ok/Err: {r!r}')
    return acc
