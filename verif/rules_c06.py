"""C06 — anything built through the API encodes to valid TOML that decodes back (decided
part: default reprs come from the checked writer, token pairing / separation, values before
sub-tables, purity, date-time tunnel in the printers)."""
from .core import run_property, AnalysisIncomplete, walk, peel, last_seg, calls_in, callee_all, strip_generics
from .cg import CallGraph
from .cfgm import cfg_of
from .shared import order_ops, array_separators
from . import serdemodel as sm

PROP = 'C06'
P = 'toml_edit::parser::'


def r1_default_reprs(rep, facts, cg):
    R = rep.rule('C06/R1', 'default representations come from the checked writer: ValueRepr::to_repr (String, i64, f64, bool, Datetime) and '
                 'Key::default_repr go through toml_write / Display for Datetime, and nothing else outside the parser builds a Repr', floor=8)
    want = {'alloc::string::String': ('as_default', 'to_toml_value'), 'i64': ('to_toml_value',), 'f64': ('to_toml_value',), 'bool': ('to_toml_value',),
            'toml_datetime::datetime::Datetime': ('to_string',)}
    seen = set()
    for imp in facts.impls:
        if imp.get('trait') != 'toml_edit::repr::ValueRepr':
            continue
        ty = imp['self_ty']
        d = imp['items'][0]['def']
        b = facts.body(d)
        names = {n.get('name') for n in walk(b['body']) if n.get('k') == 'mcall'}
        seen.add(ty)
        exp = want.get(ty)
        if exp is None:
            rep.bad(R, f'ValueRepr for {ty}', f'unreviewed ValueRepr impl for `{ty}`', facts.loc(b))
            continue
        wr = any('toml_write::' in c for n in calls_in(b['body']) for c in callee_all(n)) or ty.endswith('Datetime')
        rep.check(R, f'ValueRepr for {ty}', set(exp) <= names and wr, f'{sorted(names)}', f'`ValueRepr for {ty}` builds its text with {sorted(names)}, expected the toml_write path {exp}', facts.loc(b))
    rep.check(R, 'ValueRepr|all-types', seen == set(want), f'{sorted(seen)}', f'ValueRepr impls: {sorted(seen)}')
    b = facts.body('toml_edit::key::Key::default_repr')
    names = {n.get('name') for n in walk(b['body']) if n.get('k') == 'mcall'}
    rep.check(R, 'Key::default_repr', {'as_default', 'to_toml_key'} <= names, f'{sorted(names)}', f'Key::default_repr uses {sorted(names)}', facts.loc(b))
    allowed = lambda d: d.startswith(P) or 'ValueRepr for' in d or d == 'toml_edit::key::Key::default_repr'
    prod = []
    for d, bb in facts.bodies.items():
        for n in calls_in(bb['body']):
            if any(strip_generics(c).endswith('Repr::new_unchecked') for c in callee_all(n)):
                prod.append(d)
    extra = sorted({d for d in prod if not allowed(d)})
    rep.check(R, 'Repr::new_unchecked|who-may-call', not extra and len(prod) >= 8, f'{len(prod)} call sites, all in the parser / ValueRepr / Key::default_repr',
              f'unchecked representations are built outside the reviewed producers: {extra}')
    vis = facts.fns.get('toml_edit::repr::Repr::new_unchecked', {}).get('vis')
    rep.check(R, 'Repr::new_unchecked|visibility', vis in ('crate',) or (vis or '').startswith('in:'), f'{vis}', f'Repr::new_unchecked is `{vis}`: callers outside the crate can inject arbitrary text')


def r3_values_first(rep, facts):
    R = rep.rule('C06/R3', 'a table\'s own values are printed before any sub-table header: visit_table prints exactly get_values(), and append_values '
                 'collects values and dotted-key tables only (other items are skipped, never emitted inline)', floor=4)
    b = facts.body('toml_edit::encode::visit_table')
    gv = [n for n in walk(b['body']) if n.get('k') == 'mcall' and n.get('name') == 'get_values']
    loops = [n for n in walk(b['body']) if n.get('k') == 'loop']
    body_loop = any(any(x.get('k') == 'call' and last_seg((peel(x.get('f', {})).get('path') or '')) == 'encode_value' for x in walk(l)) for l in loops)
    rec = any(last_seg(c) in ('visit_table', 'visit_nested_tables') for n in calls_in(b['body']) for c in callee_all(n))
    rep.check(R, 'visit_table|values-only', len(gv) == 1 and body_loop and not rec, 'prints get_values() and does not recurse',
              'visit_table prints something other than the table\'s own values (or recurses into sub-tables between them)', facts.loc(b))
    # get_values / append_values, decided on what they return for a table holding one entry of every kind (scalar, dotted and plain sub-table, dotted and
    # plain inline table, array of tables, placeholder): scalars and plain inline tables under their own key, the content of dotted tables under the
    # joined path, nothing else, in storage order.  The reading of the match arms below is the fallback when the functions cannot be evaluated.
    from .den import FxInterp, Evaluator, Unanalysable, EvalPanic, VecObj
    I, V = 'toml_edit::item::Item::', 'toml_edit::value::Value::'
    key = lambda n: ('struct', 'toml_edit::key::Key', {'key': ('key', n), 'repr': ('opaque',), 'leaf_decor': ('opaque',), 'dotted_decor': ('opaque',)})
    scal = lambda n: ('ctor', I + 'Value', (('ctor', V + 'Integer', (('elem', n),)),))
    inl = lambda dotted, kids: ('struct', 'toml_edit::inline_table::InlineTable', {'items': kids, 'dotted': dotted, 'implicit': False, 'preamble': ('opaque',), 'decor': ('opaque',), 'span': ('opaque',)})
    tab = lambda dotted, kids: ('struct', 'toml_edit::table::Table', {'items': kids, 'dotted': dotted, 'implicit': False, 'decor': ('opaque',), 'doc_position': ('opaque',), 'span': ('opaque',)})
    ival = lambda t: ('ctor', I + 'Value', (('ctor', V + 'InlineTable', (t,)),))
    # dotted tables nest: `dt.x`, `dt.sub.y` (a dotted table in a dotted table), `dt.di.y` (a dotted inline table in a dotted table), `di.x`, `di.sub.y`
    dt_kids = ((key('dt.x'), scal('dt.x')), (key('dt.sub'), ('ctor', I + 'Table', (tab(True, ((key('dt.sub.y'), scal('dt.sub.y')),)),))),
               (key('dt.di'), ival(inl(True, ((key('dt.di.y'), scal('dt.di.y')),)))))
    di_kids = ((key('di.x'), scal('di.x')), (key('di.sub'), ival(inl(True, ((key('di.sub.y'), scal('di.sub.y')),)))))
    items = ((key('a'), scal('a')), (key('dt'), ('ctor', I + 'Table', (tab(True, dt_kids),))), (key('t'), ('ctor', I + 'Table', (tab(False, ((key('t.x'), scal('t.x')),)),))),
             (key('di'), ival(inl(True, di_kids))),
             (key('i'), ('ctor', I + 'Value', (('ctor', V + 'InlineTable', (inl(False, ((key('i.x'), scal('i.x')),)),)),))),
             (key('aot'), ('ctor', I + 'ArrayOfTables', (('struct', 'toml_edit::array_of_tables::ArrayOfTables', {'values': ()}),))), (key('none'), ('ctor', I + 'None')), (key('z'), scal('z')))

    def marks(x, out):
        if isinstance(x, tuple):
            if len(x) == 2 and x[0] in ('key', 'elem'):
                out.append(x[1])
                return out
            for y in x:
                marks(y, out)
        elif isinstance(x, dict):
            for y in x.values():
                marks(y, out)
        elif isinstance(x, VecObj):
            for y in x.items:
                marks(y, out)
        return out
    semantic = set()
    di_rows = [(['di', 'di.x'], 'Integer'), (['di', 'di.sub', 'di.sub.y'], 'Integer')]
    for d, mk, want in (('toml_edit::table::Table', tab, [(['a'], 'Integer'), (['dt', 'dt.x'], 'Integer'), (['dt', 'dt.sub', 'dt.sub.y'], 'Integer'), (['dt', 'dt.di', 'dt.di.y'], 'Integer')] + di_rows +
                         [(['i'], 'InlineTable'), (['z'], 'Integer')]),
                        ('toml_edit::inline_table::InlineTable', inl, [(['a'], 'Integer')] + di_rows + [(['i'], 'InlineTable'), (['z'], 'Integer')])):
        if not facts.has_body(d + '::get_values'):
            continue
        b = facts.body(d + '::get_values')
        try:
            r = FxInterp(Evaluator(facts)).apply_fn(b, [mk(False, items)])
            rows = list(r.items) if isinstance(r, VecObj) else list(r)
            got = [(marks(e[0], []), last_seg(e[1][1]) if isinstance(e[1], tuple) and len(e[1]) > 1 and isinstance(e[1][1], str) else '?') for e in rows]
        except (Unanalysable, EvalPanic, TypeError, IndexError, KeyError) as ex:
            rep.notes.append(f'{d}::get_values could not be evaluated ({ex}); append_values is read structurally.')
            continue
        semantic.add(d + '::append_values')
        rep.check(R, d + '::append_values', got == want, f'{len(got)} (path, value) pairs for 8 entries of every kind',
                  f'`{d}::get_values` of a table with one entry of every kind returns {got}, expected {want}: values and dotted-key tables only, under their paths, in storage order', facts.loc(b))
    for d, tbl_variant in (('toml_edit::table::Table::append_values', 'Item::Table'), ('toml_edit::inline_table::InlineTable::append_values', 'Value::InlineTable')):
        if d in semantic:
            continue
        b = facts.body(d)
        ms = [n for n in walk(b['body']) if n.get('k') == 'match' and n.get('src') == 'Normal']
        ok = False
        detail = 'no match'
        for m in ms:
            kinds = []
            for arm in m['arms']:
                vs = [x.get('path') or '' for x in walk(arm['pat']) if x.get('k') in ('p_tuplestruct', 'p_struct')]
                guard = 'guard' in arm and any(x.get('k') == 'mcall' and x.get('name') == 'is_dotted' for x in walk(arm['guard']))
                body_calls = {x.get('name') for x in walk(arm['body']) if x.get('k') == 'mcall'}
                if vs and vs[-1].endswith(tbl_variant.split('::')[-1]) and guard and 'append_values' in body_calls:
                    kinds.append('dotted-table->recurse')
                elif vs and any(v.endswith('Item::Value') for v in vs) and 'push' in body_calls:
                    kinds.append('value->push')
                elif arm['pat'].get('k') == 'p_wild' and not body_calls:
                    kinds.append('other->skip')
                else:
                    kinds.append('?')
            detail = str(kinds)
            if sorted(kinds) == sorted(['dotted-table->recurse', 'value->push', 'other->skip']):
                ok = True
        rep.check(R, d, ok, detail, f'`{d}` arms are {detail}; expected dotted tables recursed, values pushed, everything else skipped', facts.loc(b))
    # visit_nested_tables emits headers only for non-dotted tables
    b = facts.body('toml_edit::encode::visit_nested_tables')
    okd = any(n.get('k') == 'if' and peel(n['cond']).get('k') == 'unary' and peel(peel(n['cond'])['a']).get('name') == 'is_dotted' for n in walk(b['body']))
    rep.check(R, 'visit_nested_tables|dotted-no-header', okd, 'if !table.is_dotted() { callback(..) }', 'dotted-key tables would get a header of their own (their values are already printed as dotted keys)', facts.loc(b))


# caller-supplied hash maps: the iteration order is an input of the conversion, not a hidden one (one line of reason each)
HASH_ALLOW = {
    '<std::collections::hash::map::HashMap<K, V> as toml_write::value::WriteTomlValue>::write_toml_value':
        'toml_write convenience impl for a caller-supplied HashMap; reached only through class-hierarchy expansion of the generic WriteTomlValue call, never from a toml_edit / toml tree',
    '<toml::value::Value as core::convert::From<std::collections::hash::map::HashMap<S, V>>>::from':
        'conversion of a caller-supplied HashMap into a toml::Table (sorted map by default, insertion order of the given iteration under preserve_order)',
}
IMPURE = ('std::time::', 'std::env::', 'std::thread::', 'rand::', 'std::process::', 'std::fs::', 'std::net::', 'core::sync::atomic', 'std::collections::hash::map::RandomState',
          'std::sys::', 'std::io::')


def r4_purity(rep, facts, cg, rid='C06/R4'):
    R = rep.rule(rid, 'printing is a pure function of the structure: nothing reachable from the Display impls and serializers reads clocks, the '
                 'environment, thread state or randomness, and no HashMap / HashSet is iterated', floor=3)
    roots = []
    for imp in facts.impls:
        if imp.get('trait') == 'core::fmt::Display' and (imp.get('self_ty') or '').split('<')[0] in (
                'toml_edit::document::DocumentMut', 'toml_edit::table::Table', 'toml_edit::inline_table::InlineTable', 'toml_edit::array::Array', 'toml_edit::value::Value',
                'toml_edit::item::Item', 'toml_edit::key::Key', 'toml::value::Value', 'toml::map::Map', 'toml_datetime::datetime::Datetime'):
            roots += [it['def'] for it in imp['items'] if it['name'] == 'fmt']
    roots += [d for d in facts.bodies if d in ('toml::ser::to_string', 'toml::ser::to_string_pretty', 'toml_edit::ser::to_string', 'toml_edit::ser::to_string_pretty', 'toml_edit::ser::to_document')]
    closure = cg.reach([r for r in roots if r in facts.bodies])
    bad = []
    hashiter = []
    for d in closure:
        for n in cg.raw.get(d, ()):
            if n.startswith(IMPURE):
                bad.append((d, n))
            if ('hash::map::HashMap' in n or 'hash::set::HashSet' in n) and last_seg(strip_generics(n)) in ('iter', 'into_iter', 'keys', 'values', 'iter_mut', 'drain'):
                if d in HASH_ALLOW:
                    continue
                hashiter.append((d, n))
    rep.check(R, 'closure|no-hidden-input', not bad, f'{len(closure)} functions reachable from {len(roots)} printing roots', f'hidden inputs reachable from the printers: {bad[:3]}')
    rep.check(R, 'closure|no-hash-iteration', not hashiter, 'no HashMap / HashSet iteration', f'hash-order dependent iteration in the printing closure: {hashiter[:3]}')
    rep.check(R, 'closure|size', len(closure) >= 60 and len(roots) >= 8, f'{len(closure)} / {len(roots)}', f'printing closure unexpectedly small ({len(closure)} functions from {len(roots)} roots)')


def r5_tunnel(rep, facts):
    R = rep.rule('C06/R5', 'every value-position serializer recognises the date-time struct (a Datetime in value position prints as a date-time literal)', floor=4)
    impls = sm.ser_impls(facts)
    for ty, role in sm.SER_ROLES.items():
        if role != 'value' or ty not in impls:
            continue
        d = impls[ty]['serialize_struct']
        how = sm.struct_tunnel(facts, d)
        ok = how == 'tests-name' or (how.startswith('delegates:') and 'ValueSerializer' in how)
        rep.check(R, f'{ty}|serialize_struct', ok, how, f'`{ty}::serialize_struct` {how} the date-time struct name: toml::Value::Datetime / a Datetime field prints as '
                  f'a table with the private key instead of a date-time literal', facts.loc(facts.body(d)))


def r6_value_display(rep, facts, cg):
    R = rep.rule('C06/R6', 'Display for toml::Value / toml::Table goes through the serializer and the toml_edit encoder (no second printer)', floor=2)
    for ty, via in (('toml::value::Value', 'ValueSerializer'), ('toml::map::Map<alloc::string::String, toml::value::Value>', 'to_string')):
        try:
            d = facts.method('core::fmt::Display', ty, 'fmt')
        except AnalysisIncomplete:
            continue
        cl = cg.reach([d])
        ok = any('toml_edit::encode::' in x for x in cl) and any(via in x for x in cl | set(n for y in cl for n in cg.raw.get(y, ())))
        rep.check(R, f'Display for {ty.split("<")[0]}', ok, f'reaches the serializer ({via}) and toml_edit::encode', f'Display for {ty} does not reach the shared serializer / encoder', facts.loc(facts.body(d)))


def rules(rep, facts):
    feats = set(facts.crates.get('toml_edit', {}).get('features', []))
    if 'toml_edit' not in facts.crates or 'display' not in feats:
        rep.notes.append(f'configuration {facts.config}: printer not compiled, rules skipped.')
        return
    cg = CallGraph(facts)
    if 'parse' in feats:
        r1_default_reprs(rep, facts, cg)
    from .rules_c03 import r2_order
    import verif.rules_c03 as c03
    c03.DISPLAY_DOC = facts.method('core::fmt::Display', 'toml_edit::document::DocumentMut', 'fmt')
    r2_order(rep, facts)
    if 'C03/R2' in rep.rules:
        rep.rules['C06/R2'] = rep.rules.pop('C03/R2')
        rep.rules['C06/R2']['text'] = 'structural tokens are paired and separated on every path: ' + rep.rules['C06/R2']['text']
        for v in rep.violations:
            if v['rule'] == 'C03/R2':
                v['rule'] = 'C06/R2'
                v['key'] = v['key'].replace('C03/R2', 'C06/R2')
    r3_values_first(rep, facts)
    r4_purity(rep, facts, cg)
    if 'serde' in feats:
        r5_tunnel(rep, facts)
    if 'toml' in facts.crates and 'display' in set(facts.crates['toml'].get('features', [])):
        r6_value_display(rep, facts, cg)
        from .rules_c17 import r1_passes
        r1_passes(rep, facts, rid='C06/R7')
    from .rules_c08 import r3_conversions
    r3_conversions(rep, facts)
    rep.relabel('C08/R3', 'C06/R9', 'containers built by conversion hold only printable children (an inline table prints values only, so a child left as a table or array of tables vanishes from the text): ')
    from .rules_c08 import r2_inplace
    r2_inplace(rep, facts)
    rep.relabel('C08/R2', 'C06/R10', 'an element handed to Array::push / insert gets the canonical inline decoration, prefix and suffix (a suffix it brought along, e.g. a trailing '
                'comment, would swallow the `,` / `]` written after it and the text would not be valid TOML): ')
    if 'serde' in feats:
        # the formatting visitors run between building the tree and printing it (to_string_pretty, toml::to_string): what they move into a
        # place the printer skips is lost from the text
        from .rules_c07 import r3_promotion
        r3_promotion(rep, facts)
        rep.relabel('C07/R3', 'C06/R11', 'nothing the formatting visitors touch drops out of the printed text: ')
        from .rules_c07 import r3b_empty_tables
        r3b_empty_tables(rep, facts)
        rep.relabel('C07/R3b', 'C06/R14', 'an empty table stays in the printed text: ')
    if 'toml_datetime' in facts.crates and 'parse' in feats:
        # a date-time the API can hold prints with Display and has to decode again — through the document grammar and, on the serde route,
        # through the standalone parser: both must accept every field value the other accepts (e.g. the leap second :60)
        from . import parsemodel as pm
        from .rules_c12 import r1_fields
        r1_fields(rep, facts, pm.model(facts))
        rep.relabel('C12/R1', 'C06/R12', 'every printed date-time decodes on either route: ')
    R13 = rep.rule('C06/R13', 'every table that has something to print gets its header, and its rows follow it: visit_table evaluated with the writes recorded for explicit / implicit '
                   'tables holding nothing, a value, dotted-key values only or a sub-table only, at the root and under a path, as `[table]` and as `[[table]]` element', floor=30)
    from .shared import visit_table_model
    visit_table_model(rep, R13, facts)
    if 'parse' in feats or True:
        from .rules_print import r15_printed_documents, r16_printed_pieces
        r15_printed_documents(rep, facts)
        r16_printed_pieces(rep, facts)
        from .rules_print import r17_conversions
        r17_conversions(rep, facts)
    if 'toml_write' in facts.crates:
        # every string and key the API can hold goes through the toml_write builders: what they write has to be a string of the grammar that
        # decodes to the same text (seeded change C06-m18: DEL no longer counted as needing an escape -> a raw 0x7F inside a literal string)
        from .rules_c10 import r5_totality, r9_written_text, Abnf as _Abnf
        _a = _Abnf()
        r5_totality(rep, facts, _a)
        rep.relabel('C10/R5', 'C06/R18', 'every string or key the API can hold is written in a style the grammar accepts for it: ')
        r9_written_text(rep, facts, _a)
        rep.relabel('C10/R9', 'C06/R18b', 'every string or key the API can hold is written as text that reads back: ')
    R8 = rep.rule('C06/R8', 'no order-breaking operation / unstable sort in the printers (the same structure always prints the same, valid header order)', floor=2)
    order_ops(rep, R8, facts)


def run(tier):
    return run_property(PROP, tier, rules, configs_thorough=['default', 'perf', 'preserve_order', 'edit_display', 'toml_display'])
