"""E3: a small RFC 5234 ABNF reader for /verif/spec/toml-1.0.0.abnf.

Computes, at the *byte* level (non-ASCII scalar ranges map to the byte set 0x80-0xFF
because the parser runs on the bytes of an already valid &str): character class of a
rule (when it is a single-character alternation), FIRST set, nullability, fixed
literal, and repeat bounds of a rule's top-level repetition.  Quoted strings are
case-insensitive (RFC 5234), %x values exact."""
import os
import re

from .core import VERIF, AnalysisIncomplete

INF = float('inf')
NONASCII = frozenset(range(0x80, 0x100))


class Abnf:
    def __init__(self, path=None):
        path = path or os.path.join(VERIF, 'spec', 'toml-1.0.0.abnf')
        self.rules = {}
        self._parse(open(path).read())
        self._null = {}
        self._first = {}

    # -------- parsing
    def _parse(self, text):
        # strip comments (a ';' outside quotes)
        lines = []
        for raw in text.splitlines():
            out = []
            q = False
            for ch in raw:
                if ch == '"':
                    q = not q
                if ch == ';' and not q:
                    break
                out.append(ch)
            lines.append(''.join(out).rstrip())
        # join continuation lines
        defs = []
        for ln in lines:
            if not ln.strip():
                continue
            if ln[0] in ' \t' and defs:
                defs[-1] += ' ' + ln.strip()
            else:
                defs.append(ln.strip())
        for d in defs:
            m = re.match(r'^([A-Za-z][A-Za-z0-9-]*)\s*(=/|=)\s*(.*)$', d)
            if not m:
                raise AnalysisIncomplete(f'ABNF: cannot parse `{d}`')
            name, op, rhs = m.group(1).lower(), m.group(2), m.group(3)
            node = self._alt(self._tokens(rhs))
            if op == '=/' and name in self.rules:
                old = self.rules[name]
                if old[0] == 'alt':
                    old[1].append(node)
                else:
                    self.rules[name] = ('alt', [old, node])
            else:
                self.rules[name] = node

    def _tokens(self, s):
        toks = re.findall(r'"[^"]*"|%x[0-9A-Fa-f]+(?:-[0-9A-Fa-f]+|(?:\.[0-9A-Fa-f]+)+)?|[A-Za-z][A-Za-z0-9-]*|\d*\*\d*|\d+|[()/\[\]]', s)
        return toks

    def _alt(self, toks):
        alts = [self._cat(toks)]
        while toks and toks[0] == '/':
            toks.pop(0)
            alts.append(self._cat(toks))
        return alts[0] if len(alts) == 1 else ('alt', alts)

    def _cat(self, toks):
        items = []
        while toks and toks[0] not in ('/', ')', ']'):
            items.append(self._rep(toks))
        return items[0] if len(items) == 1 else ('cat', items)

    def _rep(self, toks):
        lo, hi = 1, 1
        t = toks[0]
        if re.fullmatch(r'\d*\*\d*', t):
            toks.pop(0)
            a, b = t.split('*')
            lo = int(a) if a else 0
            hi = int(b) if b else INF
        elif re.fullmatch(r'\d+', t):
            toks.pop(0)
            lo = hi = int(t)
        el = self._elem(toks)
        if (lo, hi) == (1, 1):
            return el
        return ('rep', lo, hi, el)

    def _elem(self, toks):
        t = toks.pop(0)
        if t == '(':
            n = self._alt(toks)
            assert toks.pop(0) == ')'
            return n
        if t == '[':
            n = self._alt(toks)
            assert toks.pop(0) == ']'
            return ('rep', 0, 1, n)
        if t.startswith('"'):
            return ('str', t[1:-1])
        if t.startswith('%x'):
            body = t[2:]
            if '-' in body:
                a, b = body.split('-')
                return ('range', int(a, 16), int(b, 16))
            if '.' in body:
                return ('seqv', [int(x, 16) for x in body.split('.')])
            return ('range', int(body, 16), int(body, 16))
        return ('ref', t.lower())

    # -------- byte-level semantics
    @staticmethod
    def _bytes_of_range(a, b):
        s = set()
        if a < 0x80:
            s |= set(range(a, min(b, 0x7F) + 1))
        if b >= 0x80:
            s |= NONASCII
        return frozenset(s)

    def node(self, name):
        n = self.rules.get(name.lower())
        if n is None:
            raise AnalysisIncomplete(f'ABNF rule `{name}` not found')
        return n

    def charclass(self, n):
        """byte set of a node that matches exactly one character; None otherwise"""
        if isinstance(n, str):
            n = self.node(n)
        k = n[0]
        if k == 'range':
            return self._bytes_of_range(n[1], n[2])
        if k == 'str':
            if len(n[1]) == 1:
                c = n[1]
                return frozenset({ord(c.lower()), ord(c.upper())})
            return None
        if k == 'alt':
            s = frozenset()
            for x in n[1]:
                c = self.charclass(x)
                if c is None:
                    return None
                s |= c
            return s
        if k == 'ref':
            return self.charclass(self.node(n[1]))
        if k == 'seqv' and len(n[1]) == 1:
            return frozenset(n[1])
        return None

    def literal(self, n):
        """fixed byte string of a node, if it denotes exactly one string; else None"""
        if isinstance(n, str):
            n = self.node(n)
        k = n[0]
        if k == 'seqv':
            return bytes(n[1])
        if k == 'range' and n[1] == n[2] and n[1] < 0x80:
            return bytes([n[1]])
        if k == 'ref':
            return self.literal(self.node(n[1]))
        if k == 'rep' and n[1] == n[2] and n[1] != INF:
            x = self.literal(n[3])
            return None if x is None else x * n[1]
        if k == 'cat':
            out = b''
            for x in n[1]:
                y = self.literal(x)
                if y is None:
                    return None
                out += y
            return out
        return None

    def literal_ci(self, n):
        """set of byte strings for a case-insensitive quoted string node"""
        if isinstance(n, str):
            n = self.node(n)
        if n[0] == 'str':
            outs = {b''}
            for c in n[1]:
                outs = {o + bytes([x]) for o in outs for x in {ord(c.lower()), ord(c.upper())}}
            return outs
        l = self.literal(n)
        return None if l is None else {l}

    def nullable(self, n):
        if isinstance(n, str):
            n = ('ref', n.lower())
        k = n[0]
        if k in ('range', 'seqv'):
            return False
        if k == 'str':
            return len(n[1]) == 0
        if k == 'alt':
            return any(self.nullable(x) for x in n[1])
        if k == 'cat':
            return all(self.nullable(x) for x in n[1])
        if k == 'rep':
            return n[1] == 0 or self.nullable(n[3])
        if k == 'ref':
            if n[1] in self._null:
                return self._null[n[1]]
            self._null[n[1]] = False
            v = self.nullable(self.node(n[1]))
            self._null[n[1]] = v
            return v
        raise AnalysisIncomplete(f'ABNF: node {k}')

    def first(self, n):
        if isinstance(n, str):
            n = ('ref', n.lower())
        k = n[0]
        if k == 'range':
            return self._bytes_of_range(n[1], n[2])
        if k == 'seqv':
            return frozenset(n[1][:1])
        if k == 'str':
            if not n[1]:
                return frozenset()
            c = n[1][0]
            return frozenset({ord(c.lower()), ord(c.upper())})
        if k == 'alt':
            s = frozenset()
            for x in n[1]:
                s |= self.first(x)
            return s
        if k == 'cat':
            s = frozenset()
            for x in n[1]:
                s |= self.first(x)
                if not self.nullable(x):
                    break
            return s
        if k == 'rep':
            return self.first(n[3]) if n[2] != 0 else frozenset()
        if k == 'ref':
            if n[1] in self._first:
                return self._first[n[1]]
            self._first[n[1]] = frozenset()
            # iterate to a fixpoint for recursive rules
            for _ in range(5):
                v = self.first(self.node(n[1]))
                if v == self._first[n[1]]:
                    break
                self._first[n[1]] = v
            return self._first[n[1]]
        raise AnalysisIncomplete(f'ABNF: node {k}')

    def prefixes(self, n, k=2, _memo=None):
        """prefixes (truncated to k bytes) of the strings a rule derives, byte level"""
        if not hasattr(self, '_pfx'):
            self._pfx = {}
        memo = self._pfx.setdefault(k, {})
        if isinstance(n, str):
            n = ('ref', n.lower())

        def cat(A, B):
            out = set()
            trunc = {}
            for x in A:
                if len(x) >= k:
                    out.add(x[:k])
                    continue
                j = k - len(x)
                if j not in trunc:
                    trunc[j] = {y[:j] for y in B}
                for y in trunc[j]:
                    out.add(x + y)
            return frozenset(out)

        def star(P, lo, hi):
            cur = frozenset([b''])
            res = set()
            m = 0
            while True:
                if m >= lo:
                    res |= cur
                if hi != INF and m >= hi:
                    break
                cur = cat(cur, P)
                m += 1
                if m > lo + k + 2:
                    res |= cur
                    break
            return frozenset(res)

        def rec(n):
            kk = n[0]
            if kk == 'range':
                return frozenset(bytes([b]) for b in self._bytes_of_range(n[1], n[2]))
            if kk == 'seqv':
                return frozenset([bytes(n[1])[:k]])
            if kk == 'str':
                outs = {b''}
                for c in n[1][:k]:
                    outs = {o + bytes([x]) for o in outs for x in {ord(c.lower()), ord(c.upper())}}
                return frozenset(outs)
            if kk == 'alt':
                s = frozenset()
                for x in n[1]:
                    s |= rec(x)
                return s
            if kk == 'cat':
                cur = frozenset([b''])
                for x in n[1]:
                    cur = cat(cur, rec(x))
                return cur
            if kk == 'rep':
                return star(rec(n[3]), n[1], n[2])
            if kk == 'ref':
                return memo.get(n[1], frozenset())
            raise AnalysisIncomplete(f'ABNF: node {kk}')
        if not memo.get('__done__'):
            for _ in range(12):
                changed = False
                for name, node in self.rules.items():
                    v = rec(node)
                    if memo.get(name) != v:
                        memo[name] = v
                        changed = True
                if not changed:
                    break
            memo['__done__'] = True
        return rec(n)

    def rep_bounds(self, name, index=0):
        """(lo, hi) of the index-th repetition node found in rule `name` (pre-order)"""
        found = []

        def rec(n):
            if n[0] == 'rep':
                found.append((n[1], n[2]))
                rec(n[3])
            elif n[0] in ('alt', 'cat'):
                for x in n[1]:
                    rec(x)
        rec(self.node(name))
        if index >= len(found):
            raise AnalysisIncomplete(f'ABNF rule `{name}` has no repetition #{index}')
        return found[index]

    def alternatives(self, name):
        n = self.node(name)
        return n[1] if n[0] == 'alt' else [n]
