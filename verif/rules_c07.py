"""C07 — serde serialization never loses data (decided part: outcome tables, no swallowed
errors except the guarded None-field case, promotion only outside values, container typing,
Option / variant shapes mirrored by the deserializer)."""
from .core import run_property, AnalysisIncomplete, walk, peel, last_seg, calls_in, callee_all, strip_generics, children
from . import serdemodel as sm

PROP = 'C07'

VALUE_ERR = {'serialize_none', 'serialize_unit', 'serialize_unit_struct'}
EXPECT_ERR = {
    'toml_edit::ser::value::ValueSerializer': VALUE_ERR,
    'toml::value::ValueSerializer': VALUE_ERR,
    '&mut toml_edit::ser::map::MapValueSerializer': {'serialize_none'},   # unit / unit_struct delegate to ValueSerializer, which errs
    "toml::ser::Serializer<'d>": {'serialize_struct_variant'},
    "toml::ser::ValueSerializer<'d>": {'serialize_struct_variant'},
}
KEY_OK = {'serialize_str', 'serialize_unit_variant', 'serialize_newtype_struct'}


def r1_outcomes(rep, facts):
    R = rep.rule('C07/R1', 'per-method outcome table of every workspace impl of serde::Serializer equals the documented support table '
                 '(value serializers refuse only None / unit; key serializers accept only str, unit variants and newtype structs; every impl is classified)', floor=150)
    impls = sm.ser_impls(facts)
    table = sm.outcome_table(facts)
    for ty in sorted(impls):
        if ty not in sm.SER_ROLES:
            rep.bad(R, f'{ty}|role', f'unclassified impl of serde::Serializer for `{ty}`: its outcome table and date-time handling are unreviewed')
            continue
        role = sm.SER_ROLES[ty]
        row = table[ty]
        for m in sm.SER_METHODS:
            got = row[m]
            d = impls[ty].get(m)
            loc = facts.loc(facts.body(d)) if d and facts.has_body(d) else ''
            if role == 'key':
                exp = 'ok' if m in KEY_OK else 'err'
            elif role == 'datefield':
                exp = 'ok' if m == 'serialize_str' else 'err'
            elif role == 'tableroot':
                exp = None  # only maps / structs / newtypes / Some / newtype variants can be a table
                if m in ('serialize_map', 'serialize_struct', 'serialize_newtype_struct', 'serialize_some', 'serialize_newtype_variant'):
                    exp = 'ok'
                else:
                    exp = 'err'
            else:
                exp = 'err' if m in EXPECT_ERR.get(ty, set()) else 'ok'
            rep.check(R, f'{ty}|{m}', got == exp, f'{got}', f'`{ty}::{m}` is {"always Err" if got == "err" else "Ok-capable" if got == "ok" else got}, the support table says '
                      f'{"always Err" if exp == "err" else "Ok-capable"}: a supported shape is refused or an unsupported one silently accepted', loc)
    for ty in sm.SER_ROLES:
        if ty not in impls and ty.split('::')[0].lstrip('&mut ').strip() in facts.crates:
            pass


def r2_none_policy(rep, facts, prefixes=('toml_edit::ser', 'toml::value', 'toml::ser')):
    R = rep.rule('C07/R2', 'an error from a nested value is never swallowed, except UnsupportedNone raised by the immediate value itself '
                 '(flag set only in serialize_none): swallow <=> is UnsupportedNone && value_was_none', floor=3)
    sites = sm.swallow_sites(facts, prefixes)
    for d, kind, ok, detail, node in sites:
        b = facts.body(d)
        rep.check(R, f'{d}|swallow', ok, detail, f'`{d}` lets a serialization error pass without returning it ({detail}): a field whose value contains a nested None '
                  f'(e.g. vec![Some(1), None]) is silently dropped instead of reported', facts.loc(b))
    # the flag is set only by serialize_none of the immediate serializer
    writers = []
    for d, b in facts.bodies.items():
        for n in walk(b['body']):
            if n.get('k') == 'assign' and peel(n['lhs']).get('k') == 'field' and peel(n['lhs']).get('name') == 'is_none':
                writers.append(last_seg(strip_generics(d)))
    rep.check(R, 'MapValueSerializer.is_none|writers', writers == ['serialize_none'], f'{writers}', f'the is_none flag is written by {writers} (expected serialize_none only)')
    # serialize_element of sequences propagates every error
    for d, b in facts.bodies.items():
        seg = last_seg(strip_generics(d))
        if seg in ('serialize_element',) and any(p_ in d for p_ in prefixes):
            tries = [n for n in walk(b['body']) if n.get('k') == 'match' and 'TryDesugar' in (n.get('src') or '')]
            delegates = any(last_seg(c) in ('serialize_element',) for n in calls_in(b['body']) for c in callee_all(n))
            rep.check(R, f'{d}|propagates', bool(tries) or delegates, 'value.serialize(..)? / delegation', f'`{d}` does not propagate element errors', facts.loc(b))


def r2b_flag_locality(rep, facts):
    R = rep.rule('C07/R2b', 'the "value was None" flag describes the immediate value only: the flag-carrying serializer (&mut MapValueSerializer) never '
                 'hands itself on to a nested value — every method either writes the flag (serialize_none) or delegates to a fresh serializer', floor=28)
    impls = sm.ser_impls(facts)
    ty = '&mut toml_edit::ser::map::MapValueSerializer'
    if ty not in impls:
        rep.incomplete(R, ty, 'impl Serializer for &mut MapValueSerializer not found')
        return
    for m, d in sorted(impls[ty].items()):
        if not facts.has_body(d) or not m.startswith('serialize_'):
            continue
        uses = sm.self_uses(facts, d)
        passed = [u for u in uses if u[0] in ('passed-on', 'method')]
        writes = [u for u in uses if u[0] == 'field-write']
        ok = not passed and (not writes or m == 'serialize_none')
        rep.check(R, f'{ty}|{m}', ok, 'self not handed on' + (f', writes {writes[0][1]}' if writes else ''),
                  f'`MapValueSerializer::{m}` {"hands `self` (with its is_none flag) to " + passed[0][1] if passed else "writes the flag"}: a None nested inside the value '
                  f'(e.g. Some(None)) then marks the whole field as absent and the entry is silently skipped', facts.loc(facts.body(d)))


def r7_forwarding(rep, facts, rid='C07/R7', traits=(sm.SER,)):
    R = rep.rule(rid, 'same-name delegation forwards parameters positionally: when a method of a serde front-end impl calls the method of the same name '
                 'on an inner (de)serializer, each of its own parameters is passed at the position it was received (name / variant / index are all '
                 'plain strings and integers, so a swap type-checks)', floor=70)
    for d, ty, m, node, pairs, pnames in sm.same_name_delegations(facts, traits):
        swapped = [(pnames[pi], pi, ai) for pi, ai in pairs if pi != ai]
        nargs = len(node.get('args', []))
        ok = not swapped and (nargs == len(pnames))
        rep.check(R, f'{ty}|{m}', ok, f'{len(pairs)} parameter(s) forwarded in place',
                  f'`{ty}::{m}` forwards ' + (', '.join(f'`{n}` (parameter {pi + 1}) as argument {ai + 1}' for n, pi, ai in swapped) if swapped else f'{nargs} arguments for {len(pnames)} parameters') +
                  ' to the inner method of the same name: e.g. a variant is written under the enum\'s type name', facts.loc(facts.body(d)))


def r3_promotion(rep, facts):
    R = rep.rule('C07/R3', 'formatting visitors promote inline tables / arrays to [table] / [[table]] only outside values: in every override of '
                 'VisitMut::visit_item_mut the promotion is guarded by the "parent is a value" flag, the flag is set from the node and restored after the recursion', floor=2)
    ovs = sm.visitor_overrides(facts)
    rep.check(R, 'overrides', len(ovs) >= 1, f'{[o[0] for o in ovs]}', 'no override of visit_item_mut found')
    sums = {}
    for ty, d in ovs:
        # decided by running the visitor over a model table in the evaluator where that can be done (however the "below a value" state is kept: a flag, an enum, a
        # helper function); the reading of the guard and of the flag protocol further down is the fallback
        from .den import Unanalysable as _Un, EvalPanic as _Ep
        try:
            complaints = promotion_model(facts, ty)
            rep.check(R, f'{ty}|promotion on the model table', not complaints, 'promotes the inline table and the array of inline tables outside values (recursively), leaves everything below a value '
                      'inline, keeps the content, and still promotes what follows', f'`{ty}` run over the model table: ' + '; '.join(complaints[:2]), facts.loc(facts.body(d)))
            continue
        except (_Un, _Ep, TypeError, KeyError, IndexError, AttributeError, ValueError):
            pass
        s = sm.promotion_summary(facts, d)
        b = s['body']
        sums[ty] = s
        if not s['promotions']:
            rep.ok(R, f'{ty}|no-promotion', 'does not promote')
            continue
        for name, ok in s['promotions']:
            rep.check(R, f'{ty}|{name}|guarded', ok, 'inside `if !parent_is_value`', f'`{ty}::visit_item_mut` calls {name} without testing whether the parent is a value: an inline table '
                      f'nested in an array becomes a standard table inside a value and is dropped by the printer (`{{}}` printed)', facts.loc(b))
        rep.check(R, f'{ty}|flag-set-from-node', s['sets_flag_from_node'], 'flag = node.is_value()', f'`{ty}` does not record whether the visited item is a value', facts.loc(b))
        rep.check(R, f'{ty}|flag-restored', s['saved'] is not None and s['restores_after_recursion'], 'saved before, restored after the recursive walk',
                  f'`{ty}::visit_item_mut` does not restore the parent-is-value flag to its saved value after recursing: siblings visited later see a wrong flag '
                  f'and tables inside inline arrays are promoted and lost', facts.loc(b))
        rep.check(R, f'{ty}|recurses', s['recurses'], 'calls the default visit_item_mut', f'`{ty}` does not continue the walk', facts.loc(b))


def r3b_empty_tables(rep, facts):
    R = rep.rule('C07/R3b', 'the formatting visitors never mark an empty table implicit: the printer hides an implicit table without values of its own (a nested header '
                 'implies it), so an empty struct / map / all-None struct marked implicit would vanish from the text.  Decided by evaluating every override of '
                 'VisitMut::visit_table_mut on an empty and a non-empty table with set_implicit recorded', floor=2)
    from .den import RecInterp, Evaluator, Unanalysable, EvalPanic
    n = 0
    for imp in facts.impls:
        if imp.get('trait') != 'toml_edit::visit_mut::VisitMut':
            continue
        d = facts.impl_method(imp, 'visit_table_mut')
        if not d or not facts.has_body(d):
            continue
        b = facts.body(d)
        ty = last_seg(imp.get('self_ty') or '?')
        pn = [p['name'] for p in b.get('params', []) if p.get('k') == 'p_bind']
        res = {}
        try:
            for empty in (True, False):
                kids = () if empty else ((('key', 0), ('elem', 0)),)
                it = RecInterp(Evaluator(facts), {'set_implicit', 'clear', 'set_dotted', 'set_position', 'fmt', 'visit_table_like_mut'}, {'visit_table_mut', 'visit_table_like_mut'},
                               stubs={'is_empty': empty, 'len': 0 if empty else 1, 'get_values': kids, 'decor_mut': ('opaque',)})
                env = {pn[0]: ('opaque',), pn[1]: ('struct', 'toml_edit::table::Table', {}), '@assign': {}}
                try:
                    it.run_body(b, env)
                except EvalPanic:
                    pass
                res[empty] = [a[0] for nm, a in it.calls if nm == 'set_implicit' and a]
        except Unanalysable as e:
            rep.incomplete(R, f'{ty}|empty-table-keeps-header', f'cannot evaluate `{d}`: {e}', facts.loc(b))
            continue
        n += 1
        ok = True not in res[True] or (res[True] and res[True][-1] is False)
        rep.check(R, f'{ty}|empty-table-keeps-header', ok, f'empty: set_implicit{res[True]}, non-empty: set_implicit{res[False]}',
                  f'`{ty}::visit_table_mut` marks an empty table implicit (set_implicit{res[True]}): the printer hides implicit tables without values, so an empty struct or map '
                  f'disappears from the serialized text without an error', facts.loc(b))
    want = 2 if 'toml' in facts.crates and 'display' in set(facts.crates['toml'].get('features', [])) else 1
    rep.check(R, 'overrides', n >= want, f'{n} overrides of visit_table_mut evaluated', f'only {n} overrides of VisitMut::visit_table_mut found (toml_edit::ser::pretty::Pretty and, with toml\'s display feature, toml::fmt::DocumentFormatter expected)')


def r2c_key_stash(rep, facts, rid='C07/R2c'):
    R = rep.rule(rid, 'map entries are written under their own key: every SerializeMap::serialize_key that stashes the key for the following serialize_value overwrites the '
                 'stash unconditionally (`self.key = Some(..)`): a skipped `None` value leaves its key behind, and a stash that is only filled when empty would give that '
                 'stale key to the next entry', floor=2)
    n = 0
    for imp in facts.impls:
        if imp.get('trait') != 'serde::ser::SerializeMap':
            continue
        d = facts.impl_method(imp, 'serialize_key')
        if not d or not facts.has_body(d):
            continue
        b = facts.body(d)
        selfn = [p_['name'] for p_ in b.get('params', []) if p_.get('k') == 'p_bind'][0]
        # forwarders (to an inner serializer / per variant) and the date-time stub are judged where they forward to
        if any(x.get('k') == 'mcall' and x.get('name') == 'serialize_key' for x in walk(b['body'])) or \
                any(x.get('k') == 'call' and 'panic' in (peel(x.get('f', {})).get('path') or '') for x in walk(b['body'])):
            continue
        from .shared import conditions_above
        stores = [x for x in walk(b['body']) if x.get('k') == 'assign' and peel(x['lhs']).get('k') == 'field' and peel(peel(x['lhs'])['base']).get('path') == selfn]
        n += 1
        if not stores:
            weak = sorted({x.get('name') for x in walk(b['body']) if x.get('k') == 'mcall' and x.get('name') in ('get_or_insert', 'get_or_insert_with', 'or', 'or_else', 'xor', 'replace', 'insert')})
            rep.bad(R, f'{imp.get("self_ty")}|serialize_key', f'`{d}` does not assign the key to its stash ({", ".join(weak) or "no store found"}): when the previous value was skipped '
                    f'(`None`), the next entry is written under the previous entry\'s key and its own key is lost', facts.loc(b))
            continue
        field = peel(stores[0]['lhs']).get('name')
        cond = [c for st in stores for c in conditions_above(b['body'], st) if any(y.get('k') == 'field' and y.get('name') == field for y in walk(c))]
        some = all(any((y.get('path') or '').endswith('Option::Some') for y in walk(st['rhs'])) for st in stores)
        rep.check(R, f'{imp.get("self_ty")}|serialize_key', not cond and some, f'self.{field} = Some(..)', f'`{d}` fills `self.{field}` only under a test of the stash itself: a key left by a skipped '
                  f'`None` value is then kept for the next entry', facts.loc(b))
    want = 2 if 'toml' in facts.crates else 1
    rep.check(R, 'count', n >= want, f'{n} stashing serialize_key implementations', f'only {n} stashing implementations of SerializeMap::serialize_key found ({want} expected in this configuration)')


def r4_container_typing(rep, facts):
    R = rep.rule('C07/R4', 'library code stores only Item::Value (or the placeholder Item::None) into Array::values and InlineTable::items', floor=3)
    # writers of Array.values / pushes
    bad = []
    n = 0
    for d, b in facts.bodies.items():
        if not (d.startswith('toml_edit::') or d.startswith('<toml_edit::')) or d.startswith('toml_edit::parser::state') :
            continue
        for c in walk(b['body']):
            if c.get('k') == 'mcall' and c.get('name') in ('push', 'insert') and peel(c['recv']).get('k') == 'field' and peel(c['recv']).get('name') == 'values' \
                    and (peel(c['recv']).get('adt') or '').endswith('array::Array'):
                n += 1
                arg = peel(c['args'][-1])
                okv = arg.get('k') == 'call' and (peel(arg.get('f', {})).get('path') or '').endswith('Item::Value')
                if not okv:
                    bad.append((d, c.get('l')))
    rep.check(R, 'Array.values|writers', not bad and n >= 2, f'{n} push/insert sites wrap in Item::Value', f'Array.values receives non-Value items at {bad}')
    # (the writers above are found wherever they are: directly in push / insert, in a closure handed to a helper such as value_op, or in a helper)
    # InlineTable::insert / insert_formatted wrap in Item::Value
    for d in ('toml_edit::inline_table::InlineTable::insert', 'toml_edit::inline_table::InlineTable::insert_formatted'):
        b = facts.body(d)
        wraps = any(c.get('k') == 'call' and (peel(c.get('f', {})).get('path') or '').endswith('Item::Value') for c in walk(b['body']))
        rep.check(R, d, wraps, 'Item::Value(value)', f'`{d}` does not wrap in Item::Value', facts.loc(b))
    sig = facts.fns.get('toml_edit::inline_table::InlineTable::insert', {})
    rep.check(R, 'InlineTable::insert|signature', 'toml_edit::value::Value' in ' '.join(sig.get('inputs', [])) or 'impl' in ' '.join(sig.get('inputs', [])), str(sig.get('inputs')), 'InlineTable::insert takes something other than a Value')


def r6_option_mirror(rep, facts):
    R = rep.rule('C07/R6', 'the deserializers mirror None-skipping and the variant shapes: every explicit deserialize_option calls visit_some (never '
                 'visit_none), variant serializers build a single-entry table keyed by the variant name', floor=7)
    n = 0
    for imp in facts.impls:
        if imp.get('trait') != sm.DE:
            continue
        for it in imp['items']:
            if it['name'] == 'deserialize_option' and facts.has_body(it['def']):
                b = facts.body(it['def'])
                if b.get('x'):
                    continue
                names = {x.get('name') for x in walk(b['body']) if x.get('k') == 'mcall'}
                n += 1
                ok = 'visit_some' in names and 'visit_none' not in names or bool(names & {'deserialize_option'})
                rep.check(R, f'{imp["self_ty"]}|deserialize_option', ok, 'visit_some', f'`{it["def"]}` calls {sorted(x for x in names if x and x.startswith("visit_"))}: a present value is read back as None', facts.loc(b))
    # the other shape-specific hooks: an explicit deserialize_enum / deserialize_newtype_struct presents the shape through the visitor hook of the
    # same kind (visit_enum / visit_newtype_struct) or hands over to an inner deserializer's method of the same name — never to deserialize_any, which
    # would present an enum key or a newtype as a plain string / value
    HOOK = {'deserialize_enum': 'visit_enum', 'deserialize_newtype_struct': 'visit_newtype_struct'}
    for imp in facts.impls:
        if imp.get('trait') != sm.DE:
            continue
        for it in imp['items']:
            if it['name'] in HOOK and facts.has_body(it['def']):
                b = facts.body(it['def'])
                if b.get('x'):
                    continue
                names = [x.get('name') for x in walk(b['body']) if x.get('k') == 'mcall']
                ok = HOOK[it['name']] in names or it['name'] in names
                rep.check(R, f'{imp["self_ty"]}|{it["name"]}', ok, f'{HOOK[it["name"]]} / inner {it["name"]}',
                          f'`{it["def"]}` neither calls {HOOK[it["name"]]} nor an inner {it["name"]} (it calls {sorted(set(x for x in names if x and (x.startswith("visit_") or x.startswith("deserialize_"))))}): '
                          f'values of that shape written by the serializer are no longer read back', facts.loc(b))
    want = 5 if ('toml' in facts.crates and facts.has_body('toml::de::from_str')) else (4 if 'toml' in facts.crates else 3)
    rep.check(R, 'deserialize_option|count', n >= want, f'{n} explicit impls', f'only {n} explicit deserialize_option impls found (expected {want} in this configuration)')
    for d, b in facts.bodies.items():
        seg = last_seg(strip_generics(d))
        is_variant_ser = (seg == 'serialize_newtype_variant' and ('toml_edit::ser::value::ValueSerializer' in d or 'toml::value::ValueSerializer' in d)) or \
            (seg == 'end' and 'Variant' in d.split(' as ')[0] and ('toml_edit::ser::map' in d or 'toml::value' in d))
        if not is_variant_ser:
            continue
        ins = [c for c in walk(b['body']) if c.get('k') == 'mcall' and c.get('name') == 'insert']
        keyed = False
        for c in ins:
            k = c['args'][0]
            keyed = keyed or any((x.get('k') == 'field' and x.get('name') == 'variant') or (x.get('k') == 'path' and (x.get('path') or '').startswith('variant')) for x in walk(k))
        rep.check(R, f'{d}|single-entry', len(ins) == 1 and keyed, 'one insert keyed by the variant name', f'`{d}` builds the variant table with {len(ins)} inserts (keyed by variant: {keyed})', facts.loc(b))


VARIANT_METHODS = ('serialize_unit_variant', 'serialize_newtype_variant', 'serialize_tuple_variant', 'serialize_struct_variant')


def _doc_array_refused(facts):
    """backing of the one reviewed exception: what `toml::ser::Serializer::serialize_tuple_variant` collects is an array, and the finishing step of the
    document serializer refuses an array — decided by evaluating write_document on Ok(Value::Array(..))"""
    from .den import RecInterp, Evaluator, EvalPanic, Unanalysable
    ends = [d for d in facts.bodies if d.endswith('::end') and 'SerializeDocumentArray' in d and 'SerializeTupleVariant' in d]
    if len(ends) != 1 or not facts.has_body('toml::ser::internal::write_document'):
        return False, 'SerializeDocumentArray::end / write_document not found'
    calls = [last_seg(c) for n in calls_in(facts.body(ends[0])['body']) for c in callee_all(n)[:1]]
    if 'write_document' not in calls:
        return False, f'`{ends[0]}` no longer finishes through write_document (calls {calls})'
    b = facts.body('toml::ser::internal::write_document')
    v = ('ctor', 'core::result::Result::Ok', (('ctor', 'toml_edit::value::Value::Array', (('opaque',),)),))
    it = RecInterp(Evaluator(facts), {'visit_table_mut', 'write_str', 'write_fmt', 'fmt', 'from', 'into'}, stubs={})
    try:
        r = it.apply_fn(b, [('opaque',), ('opaque',), v])
    except (EvalPanic, Unanalysable) as ex:
        return False, f'cannot evaluate write_document on an array: {ex}'
    if isinstance(r, tuple) and r[:2] == ('ctor', 'core::result::Result::Err'):
        return True, 'write_document(Ok(Value::Array)) evaluates to Err'
    return False, f'write_document accepts an array ({r!r:.80})'


TAGLESS_OK = {
    # (impl, method): (reason, backing check)
    ("toml::ser::Serializer<'d>", 'serialize_tuple_variant'): ('an array cannot be a document: whatever is collected, the finishing step returns UnsupportedType', _doc_array_refused),
}


def r12_variant_tag(rep, facts):
    R = rep.rule('C07/R12', 'the variant name is part of what is written: every Ok-capable serialize_*_variant of a workspace Serializer impl hands its `variant` '
                 'parameter on (to the inner serializer, the variant collector or the string written); a method that ignores it writes the payload alone, '
                 'which reads back as another shape. The reviewed exception (the document serializer, where the collected array is refused at the end) is re-decided by evaluation', floor=14)
    impls = sm.ser_impls(facts)
    table = sm.outcome_table(facts)
    for ty in sorted(impls):
        for m in VARIANT_METHODS:
            d = impls[ty].get(m)
            if not d or not facts.has_body(d) or table[ty][m] != 'ok':
                continue
            b = facts.body(d)
            ps = b.get('params', [])
            p = ps[3] if len(ps) > 3 else {}
            nm = p.get('name') if p.get('k') == 'p_bind' else None
            sinks = []
            if nm:
                for n in walk(b['body']):
                    if n.get('k') in ('call', 'mcall', 'struct') and any(x.get('k') == 'path' and x.get('res') == 'Local' and x.get('path') == nm for c in children(n) for x in walk(c)):
                        sinks.append(n.get('name') or last_seg(peel(n.get('f', {})).get('path') or '') or 'struct literal')
            if sinks:
                rep.ok(R, f'{ty}|{m}', f'variant -> {sorted(set(sinks))[0]}')
                continue
            if (ty, m) in TAGLESS_OK:
                reason, back = TAGLESS_OK[(ty, m)]
                ok, detail = back(facts)
                rep.check(R, f'{ty}|{m}', ok, f'reviewed: {reason} ({detail})', f'`{ty}::{m}` ignores the variant name and the reason it was accepted for no longer holds: {detail}', facts.loc(b))
                continue
            rep.bad(R, f'{ty}|{m}', f'`{ty}::{m}` can succeed but never uses its `variant` parameter: the variant name is dropped and the payload is written alone '
                    f'(e.g. Shape::Rect(3, 4) as [3, 4]), which does not read back as the enum', facts.loc(b))


def rules(rep, facts):
    feats = set(facts.crates.get('toml_edit', {}).get('features', []))
    if 'toml_edit' not in facts.crates or 'serde' not in feats:
        rep.notes.append(f'configuration {facts.config}: serde support not compiled, rules skipped.')
        return
    r1_outcomes(rep, facts)
    r2_none_policy(rep, facts)
    r2b_flag_locality(rep, facts)
    r2c_key_stash(rep, facts)
    r7_forwarding(rep, facts)
    r3_promotion(rep, facts)
    r3b_empty_tables(rep, facts)
    r4_container_typing(rep, facts)
    r6_option_mirror(rep, facts)
    r12_variant_tag(rep, facts)
    from .rules_c13 import r2_tunnel
    r2_tunnel(rep, facts, rid='C07/R13')
    if 'toml' in facts.crates and 'parse' in feats:
        # a variant's payload is written inline or — once the formatting visitors promoted it — under [table] / [[table]] headers: the enum readers of
        # both crates have to accept every container kind a payload can come back in
        from .rules_c13 import r3_enum_access
        r3_enum_access(rep, facts)
        rep.relabel('C13/R3', 'C07/R14', 'what the serializers write for enum variants is read back in every spelling: ')
    from .rules_serdeflow import r_value_serializers
    r_value_serializers(rep, facts, 'C07/R17', judge='oracle')
    from .rules_serdeflow import r_round_trip
    r_round_trip(rep, facts, 'C07/R18')
    if 'toml' in facts.crates:
        from .rules_c13 import r1_wrappers, r10_variant_collectors
        r1_wrappers(rep, facts)
        rep.relabel('C13/R1', 'C07/R15', 'what was written is read back through the same specialised methods (a wrapper that leaves one to deserialize_any refuses what the serializer produced): ')
        r10_variant_collectors(rep, facts, rid='C07/R16')
    if 'toml' in facts.crates:
        from .rules_c13 import r7_value_passes
        r7_value_passes(rep, facts, rid='C07/R9')
    from .rules_c11 import r7_widening
    r7_widening(rep, facts, rid='C07/R10')
    if 'toml' in facts.crates and facts.has_method('serde::ser::Serialize', 'toml::value::Value', 'serialize'):
        from .rules_c17 import r1_passes
        r1_passes(rep, facts, rid='C07/R8')


def _witnesses(rep):
    from .witness import report
    report(rep, 'C07/R4b', 'type level (compile-fail witnesses): the public API stores only values in inline tables and arrays', ['w03_inline_table_takes_values_only', 'w04_array_takes_values_only'])


def run(tier):
    return run_property(PROP, tier, rules, configs_thorough=['default', 'perf', 'preserve_order', 'toml_display', 'edit_display_serde'], extra=_witnesses if tier == 'thorough' else None)


def promotion_model(facts, ty):
    """the formatting visitor `ty` (a VisitMut impl) run over a model table in the evaluator; returns a list of complaints (empty: it promotes exactly what may be promoted)
    or raises Unanalysable.  The table holds an inline table with a nested one, an array of inline tables, a mixed array holding an inline table that holds another, an array of
    arrays of inline tables, and one more inline table after them."""
    from .den import Evaluator, Unanalysable
    from .places import PlaceInterp, deref, keyname
    from .rules_print import table_model, T, IT, logical
    from .rules_events import plain_table
    I = 'toml_edit::item::Item::'
    base = strip_generics(ty).split('<')[0]

    class FmtWalk(PlaceInterp):
        MAX_DEPTH = 120

        def _mcall(self, e, env):
            name = e.get('name') or ''
            if name.startswith('visit_') and name.endswith('_mut'):
                raw = self.val(e['recv'], env)
                recv = deref(raw)
                if isinstance(recv, tuple) and len(recv) == 3 and recv[0] == 'struct' and recv[1] == base:
                    args = [self.val(a, env) for a in e.get('args', [])]
                    ov = [it_['def'] for imp in self.ev.facts.impls if (imp.get('trait') or '').endswith('visit_mut::VisitMut') and strip_generics(imp.get('self_ty') or '').split('<')[0] == base
                          for it_ in imp['items'] if it_['name'] == name and self.ev.facts.has_body(it_['def'])]
                    d = ov[0] if ov else f'toml_edit::visit_mut::{name}'
                    if not self.ev.facts.has_body(d):
                        raise Unanalysable(f'walker `{d}` not found')
                    return self.apply_fn(self.ev.facts.body(d), [recv] + args)
            if self._workspace_method(e) is None and name in ('iter', 'iter_mut', 'is_empty', 'len'):
                recv = self.val(e['recv'], env)
                t = self.type_of(recv)
                for imp in self.ev.facts.impls:
                    if (imp.get('trait') or '').endswith('TableLike') and (imp.get('self_ty') or '').split('<')[0] == t:
                        for it_ in imp['items']:
                            if it_['name'] == name and self.ev.facts.has_body(it_['def']):
                                return self.apply_fn(self.ev.facts.body(it_['def']), [recv] + [self.val(a, env) for a in e.get('args', [])])
            return super()._mcall(e, env)
    desc = T({'t': IT({'a': 1, 'n': IT({'b': 2, 'deep': IT({'k': [IT({'m': 1}), IT({'m': 2})]})})}), 'aoi': [IT({'x': 1, 'in': IT({'y': [IT({'q': 1})]})}), IT({'x': 2})],
              'mixed': [1, IT({'c': IT({'d': IT({'e': IT({'f': 1})}), 'arr': [IT({'g': 1}), IT({'g': 2})]}), 'sib': IT({'h': IT({'i': 1})})}), [IT({'j': IT({'k': 1})})]],
              'nested': [[IT({'e': 1})], [[IT({'l': IT({'m': 1})})]]], 'after': IT({'z': 1, 'zz': IT({'y': 1})}), 'v': 7, 'last': [IT({'w': 1})]})
    root = table_model(desc)
    w = FmtWalk(Evaluator(facts))
    visitor = w._default_of(base)
    if not (isinstance(visitor, tuple) and len(visitor) == 3 and visitor[0] == 'struct'):
        raise Unanalysable(f'no default instance of `{base}`')
    w.apply_fn(facts.body(f'toml_edit::visit_mut::visit_table_mut') if not facts.has_method('toml_edit::visit_mut::VisitMut', ty, 'visit_table_mut') else
               facts.body(facts.method('toml_edit::visit_mut::VisitMut', ty, 'visit_table_mut')), [visitor, root])
    out = []
    if plain_table(root) != logical(desc):
        out.append(f'the content changed: {plain_table(root)!r:.200} instead of {logical(desc)!r:.200}')
    kinds = {keyname(k): deref(v)[1].rsplit('::', 1)[-1] for k, v in deref(root[2]['items']).pairs}
    want = {'t': 'Table', 'aoi': 'ArrayOfTables', 'mixed': 'Value', 'nested': 'Value', 'after': 'Table', 'v': 'Value', 'last': 'ArrayOfTables'}
    if kinds != want:
        out.append(f'at the top level the entries are {kinds}, expected {want} (an inline table / an array of inline tables outside a value becomes a [table] / [[table]], everything else stays)')

    def below_value(v, inside, path):
        v = deref(v)
        if isinstance(v, tuple) and len(v) == 3 and v[0] == 'ctor':
            nm = v[1]
            if nm in (I + 'Table', I + 'ArrayOfTables') and inside:
                out.append(f'`{path}` is a {nm.rsplit("::", 1)[-1]} inside a value: the printer does not print it (`{{}}` is printed instead)')
            for x in v[2]:
                below_value(x, inside or nm == I + 'Value', path)
        elif isinstance(v, tuple) and len(v) == 3 and v[0] == 'struct' and isinstance(v[2], dict):
            items = deref(v[2].get('items')) if 'items' in v[2] else None
            if items is not None:
                for k, x in items.pairs:
                    below_value(x, inside, f'{path}.{keyname(k)}' if path else keyname(k))
            vals = deref(v[2].get('values')) if 'values' in v[2] else None
            if vals is not None:
                for i, x in enumerate(vals.items):
                    below_value(x, inside, f'{path}[{i}]')
            for fk in ('value',):
                pass
    below_value(('ctor', I + 'Table', (root,)), False, '')
    t_ = deref(deref(root[2]['items']).pairs[0][1])
    if t_[1] == I + 'Table':
        inner = {keyname(k): deref(v)[1].rsplit('::', 1)[-1] for k, v in deref(deref(t_[2][0])[2]['items']).pairs}
        if inner.get('n') != 'Table':
            out.append(f'the inline table nested in the promoted table `t` stays {inner.get("n")} (expected a [t.n] table)')
    return out
