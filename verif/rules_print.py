"""The printer evaluated end to end (verif/printdrive.py): model documents as the construction API builds them are printed by evaluating
`Display for DocumentMut`, and the text is handed to an independent TOML 1.0 decoder (Python's tomllib, written from the specification by
other people) — it must be valid TOML and decode to the tree that was built, in the same order (C06/R15; shared with C08, C17)."""
import tomllib

from .den import Evaluator, Unanalysable, EvalPanic, VecObj
from .places import MapObj
from .printdrive import PrintInterp

I, V = 'toml_edit::item::Item::', 'toml_edit::value::Value::'
NONE_ = ('ctor', 'core::option::Option::None')
SOME = 'core::option::Option::Some'
RS = 'toml_edit::raw_string::RawStringInner::'


def _dec():
    return ('struct', 'toml_edit::repr::Decor', {'prefix': NONE_, 'suffix': NONE_})


def _key(n):
    return ('struct', 'toml_edit::key::Key', {'key': n, 'repr': NONE_, 'leaf_decor': _dec(), 'dotted_decor': _dec()})


def _fmt(v):
    return ('struct', 'toml_edit::repr::Formatted', {'value': v, 'repr': NONE_, 'decor': _dec()})


def T(d, implicit=False, dotted=False, pos=None):
    return ('T', d, {'implicit': implicit, 'dotted': dotted, 'pos': pos})


def AOT(*tables):
    return ('AOT', list(tables))


def IT(d, dotted=False):
    return ('IT', d, dotted)


def value_model(x):
    if isinstance(x, bool):
        return ('ctor', V + 'Boolean', (_fmt(x),))
    if isinstance(x, int):
        return ('ctor', V + 'Integer', (_fmt(x),))
    if isinstance(x, str):
        return ('ctor', V + 'String', (_fmt(x),))
    if isinstance(x, list):
        return ('ctor', V + 'Array', (('struct', 'toml_edit::array::Array', {'values': VecObj([('ctor', I + 'None') if y is None else ('ctor', I + 'Value', (value_model(y),)) for y in x]), 'trailing': _raw_empty(), 'trailing_comma': False,
                                                                           'decor': _dec(), 'span': NONE_}),))
    if isinstance(x, tuple) and x[0] == 'IT':
        return ('ctor', V + 'InlineTable', (('struct', 'toml_edit::inline_table::InlineTable', {'items': MapObj([(_key(k), ('ctor', I + 'None') if v is None else ('ctor', I + 'Value', (value_model(v),))) for k, v in x[1].items()]),
                                                                                                'preamble': _raw_empty(), 'decor': _dec(), 'implicit': False, 'dotted': x[2], 'span': NONE_}),))
    raise ValueError(x)


def _raw_empty():
    return ('struct', 'toml_edit::raw_string::RawString', {'0': ('ctor', RS + 'Empty')})


def table_model(t):
    _, d, fl = t
    items = []
    for k, v in d.items():
        if isinstance(v, tuple) and v[0] == 'T':
            items.append((_key(k), ('ctor', I + 'Table', (table_model(v),))))
        elif isinstance(v, tuple) and v[0] == 'AOT':
            items.append((_key(k), ('ctor', I + 'ArrayOfTables', (('struct', 'toml_edit::array_of_tables::ArrayOfTables', {'values': VecObj([('ctor', I + 'Table', (table_model(x),)) for x in v[1]]), 'span': NONE_}),))))
        elif v is None:
            items.append((_key(k), ('ctor', I + 'None')))
        else:
            items.append((_key(k), ('ctor', I + 'Value', (value_model(v),))))
    return ('struct', 'toml_edit::table::Table', {'items': MapObj(items), 'decor': _dec(), 'implicit': fl['implicit'], 'dotted': fl['dotted'],
                                                  'doc_position': NONE_ if fl['pos'] is None else ('ctor', SOME, (fl['pos'],)), 'span': NONE_})


def logical(x):
    """the plain tree a description denotes (placeholders are not there)"""
    if isinstance(x, tuple) and x[0] == 'T':
        return {k: logical(v) for k, v in x[1].items() if v is not None}
    if isinstance(x, tuple) and x[0] == 'AOT':
        return [logical(t) for t in x[1]]
    if isinstance(x, tuple) and x[0] == 'IT':
        return {k: logical(v) for k, v in x[1].items() if v is not None}
    if isinstance(x, list):
        return [logical(y) for y in x if y is not None]
    return x


def ordered(x):
    """the tree with the key order made explicit (tomllib keeps document order in its dicts)"""
    if isinstance(x, dict):
        return [(k, ordered(v)) for k, v in x.items()]
    if isinstance(x, list):
        return [ordered(v) for v in x]
    return x


def documents():
    S = ['', 'plain', 'two words', 'quote " inside', "apostrophe ' inside", 'back\\slash', 'line\nbreak', 'tab\there', 'é ü 😀', '\x01\x7f', "'''", '"""', 'a = 1', '# no comment', 'trailing ']
    docs = []
    docs.append(('scalars', T({'i': 0, 'n': -17, 'big': 2**63 - 1, 'small': -2**63, 't': True, 'f': False})))
    docs.append(('strings', T({f's{i}': s for i, s in enumerate(S)})))
    docs.append(('keys', T({'plain': 1, 'two words': 2, '': 3, 'dotted.name': 4, 'é': 5, '"q"': 6, "it's": 7, '1': 8, 'a-b_c': 9, ' ': 10, 'line\nbreak': 11})))
    docs.append(('arrays', T({'empty': [], 'ints': [1, 2, 3], 'nested': [[1], [], [[2]]], 'mixed': [1, 'two', True, [3]], 'strs': S[:6], 'tables': [IT({'a': 1}), IT({}), IT({'b': IT({'c': [1]})})]})))
    docs.append(('inline tables', T({'empty': IT({}), 'one': IT({'a': 1}), 'nested': IT({'a': IT({'b': IT({})}), 'k w': 'v'}), 'dotted': IT({'x': IT({'y': 1, 'z': IT({'w': 2}, dotted=True)}, dotted=True), 'v': 3})})))
    docs.append(('tables', T({'top': 1, 't': T({'a': 1, 'sub': T({'b': 2, 'deep': T({'c': 3})})}), 'u': T({}), 'last': T({'z': 'z'})})))
    docs.append(('implicit tables', T({'a': T({'b': T({'c': T({'v': 1})}, implicit=True)}, implicit=True), 'e': T({'f': T({})}, implicit=True),
                                       'lints': T({'rust': T({'unsafe_code': 'deny'}, implicit=True, dotted=True)}, implicit=True), 'z': T({'k': 1})})))
    docs.append(('dotted-key tables', T({'v': 0, 'd': T({'x': 1, 'e': T({'y': 2}, implicit=True, dotted=True), 'i': IT({'z': 3}, dotted=True)}, implicit=True, dotted=True), 't': T({'p': T({'q': 1}, implicit=True, dotted=True), 'r': 2})})))
    docs.append(('arrays of tables', T({'top': 1, 'aot': AOT(T({'a': 1}), T({}), T({'b': 2, 'sub': T({'c': 3}), 'inner': AOT(T({'d': 4}), T({'e': 5}))})), 'after': T({'z': 1})})))
    docs.append(('values after tables', T({'t': T({'a': 1}), 'late': 2, 'aot': AOT(T({'b': 1})), 'later': [1], 'u': T({'c': 1}), 'latest': IT({'k': 1})})))
    docs.append(('placeholders', T({'a': 1, 'ghost': None, 't': T({'ghost': None, 'b': 2}), 'aot': AOT(T({'ghost': None}))})))
    docs.append(('placeholders inside values', T({'first': [None, 1, 2], 'middle': [1, None, 2], 'only': [None], 'last': [1, None], 'two': [None, None, 3, None, 4], 'it': IT({'ghost': None, 'y': 1}),
                                                  'it2': IT({'x': 1, 'ghost': None}), 'nested': [[None, 1], IT({'g': None})]})))
    docs.append(('positions', T({'first': T({'a': 1}, pos=2), 'second': T({'b': 2}, pos=1), 'third': T({'c': 3}), 'aot': AOT(T({'d': 4}, pos=0), T({'e': 5}, pos=3))})))     # (positions say where a section is printed; the elements of one array keep their order)
    docs.append(('quoted table names', T({'a b': T({'c.d': T({'': T({'v': 1})})}), 'é': AOT(T({'k': 'v'}))})))
    docs.append(('empty document', T({})))
    return docs


def r15_printed_documents(rep, facts, rid='C06/R15'):
    docs = documents()
    R = rep.rule(rid, f'whatever the construction API can build prints as valid TOML that decodes back to the same tree in the same order: {len(docs)} model documents (scalars at the limits of i64, '
                 'strings and keys with quotes, backslashes, newlines, control characters and Unicode, nested / empty / mixed arrays, inline tables with dotted entries, standard, implicit, '
                 'dotted-key and empty tables, arrays of tables with nested tables, values stored after tables, placeholders, explicit positions) are printed by evaluating Display for '
                 'DocumentMut, and the text is decoded by an independent TOML 1.0 decoder (Python\'s tomllib); printing twice gives the same text', floor=14)
    d = facts.method('core::fmt::Display', 'toml_edit::document::DocumentMut', 'fmt')
    if not d or not facts.has_body(d):
        rep.incomplete(R, 'Display for DocumentMut', 'not found')
        return
    b = facts.body(d)
    for name, desc in docs:
        def once():
            doc = ('struct', 'toml_edit::document::DocumentMut', {'root': ('ctor', I + 'Table', (table_model(desc),)), 'trailing': _raw_empty()})
            it = PrintInterp(Evaluator(facts))
            it.apply_fn(b, [doc, ('formatter',)])
            return it.text()
        try:
            text = once()
            again = once()
        except EvalPanic as ex:
            rep.bad(R, name, f'printing the model document `{name}` panics: {ex}', facts.loc(b))
            continue
        except (Unanalysable, TypeError, KeyError, IndexError, AttributeError, ValueError) as ex:
            rep.incomplete(R, name, f'cannot evaluate the printer on the model document `{name}`: {type(ex).__name__}: {ex}', facts.loc(b))
            continue
        want = logical(desc)
        try:
            got = tomllib.loads(text)
        except tomllib.TOMLDecodeError as ex:
            rep.bad(R, name, f'the model document `{name}` prints as text that is not valid TOML ({ex}): {text!r:.300}', facts.loc(b))
            continue
        if got != want:
            rep.bad(R, name, f'the model document `{name}` prints as {text!r:.260}, which decodes to {got!r:.200} instead of {want!r:.200}', facts.loc(b))
        elif ordered(got) != ordered(want) and not _order_exempt(desc):
            rep.bad(R, name, f'the model document `{name}` prints its entries in another order than they were stored: {text!r:.300}', facts.loc(b))
        elif text != again:
            rep.bad(R, name, f'printing the model document `{name}` twice gives different texts', facts.loc(b))
        else:
            rep.ok(R, name, f'{len(text)} bytes, decodes to the tree', facts.loc(b))


def _order_exempt(desc):
    """documents whose printed order legitimately differs from storage order: a table's own values are printed before its sub-tables, and explicit positions reorder the sections"""
    def rec(t):
        seen_table = False
        for v in t[1].values():
            if isinstance(v, tuple) and v[0] in ('T', 'AOT'):
                if v[0] == 'T' and not v[2]['dotted']:
                    seen_table = True
                if v[0] == 'AOT':
                    seen_table = True
                if v[0] == 'T' and (v[2]['pos'] is not None or rec(v)):
                    return True
                if v[0] == 'AOT' and any(x[2]['pos'] is not None or rec(x) for x in v[1]):
                    return True
            elif v is not None and seen_table:
                return True
        return False
    return rec(desc)


def body_of(t):
    """what a table prints as its own body: its values and the values reached through dotted child tables (sections with a header of their own are not part of it)"""
    out = {}
    for k, v in t[1].items():
        if v is None:
            continue
        if isinstance(v, tuple) and v[0] == 'T':
            if v[2]['dotted']:
                sub = body_of(v)
                if sub:
                    out[k] = sub
        elif isinstance(v, tuple) and v[0] == 'AOT':
            continue
        else:
            out[k] = logical(v)
    return out


def r16_printed_pieces(rep, facts, rid='C06/R16'):
    docs = documents()
    R = rep.rule(rid, 'every part of a document prints, on its own, as what it holds: for every entry of every table of the model documents Display for Item is evaluated — a value prints as a '
                 'value text that decodes (after `v = `, by Python\'s tomllib) to the value, a table prints as a body that decodes to its own values including those under dotted keys, an array '
                 'of tables prints as an array value holding the same tables', floor=100)
    d = facts.method('core::fmt::Display', 'toml_edit::item::Item', 'fmt')
    if not d or not facts.has_body(d):
        rep.incomplete(R, 'Display for Item', 'not found')
        return
    b = facts.body(d)

    def pieces(name, t, path):
        for k, v in t[1].items():
            here = f'{path}.{k}' if path else k
            if v is None:
                continue
            if isinstance(v, tuple) and v[0] == 'T':
                yield f'{name}|{here!r}', ('ctor', I + 'Table', (table_model(v),)), 'body', body_of(v)
                yield from pieces(name, v, here)
            elif isinstance(v, tuple) and v[0] == 'AOT':
                yield f'{name}|{here!r}', table_model(T({k: v}))[2]['items'].pairs[0][1], 'value', logical(v)
                for i, x in enumerate(v[1]):
                    yield from pieces(name, x, f'{here}[{i}]')
            else:
                yield f'{name}|{here!r}', ('ctor', I + 'Value', (value_model(v),)), 'value', logical(v)
    for name, desc in docs:
        for key, item, kind, want in [(f'{name}|<root>', ('ctor', I + 'Table', (table_model(desc),)), 'body', body_of(desc))] + list(pieces(name, desc, '')):
            try:
                it = PrintInterp(Evaluator(facts))
                it.apply_fn(b, [item, ('formatter',)])
                text = it.text()
            except EvalPanic as ex:
                rep.bad(R, key, f'printing {key} on its own panics: {ex}', facts.loc(b))
                continue
            except (Unanalysable, TypeError, KeyError, IndexError, AttributeError, ValueError) as ex:
                rep.incomplete(R, key, f'cannot evaluate Display for Item on {key}: {type(ex).__name__}: {ex}', facts.loc(b))
                continue
            src = text if kind == 'body' else 'v = ' + text + '\n'
            try:
                got = tomllib.loads(src)
            except tomllib.TOMLDecodeError as ex:
                rep.bad(R, key, f'{key} printed on its own is not valid TOML ({ex}): {text!r:.300}', facts.loc(b))
                continue
            got = got if kind == 'body' else got.get('v')
            if got != want:
                rep.bad(R, key, f'{key} printed on its own gives {text!r:.260}, which decodes to {got!r:.200} instead of {want!r:.200}', facts.loc(b))
            else:
                rep.ok(R, key, f'{len(text)} bytes', facts.loc(b))


def r17_conversions(rep, facts, rid='C06/R17'):
    """inline <-> standard conversions, then printing: what was converted is still there wherever it is put"""
    R = rep.rule(rid, 'a converted container still prints its content wherever it is placed: InlineTable::into_table (plain and dotted-key inline tables), Table::into_inline_table (plain, '
                 'implicit and dotted tables) and Item::into_table / into_array_of_tables are evaluated on model containers, the result is placed as the document root, as an element of an '
                 'array of tables, as a [table] and as a value, and the document is printed by evaluating Display for DocumentMut: the text must decode (Python\'s tomllib) to the content', floor=10)
    d = facts.method('core::fmt::Display', 'toml_edit::document::DocumentMut', 'fmt')
    if not d or not facts.has_body(d):
        rep.incomplete(R, 'Display for DocumentMut', 'not found')
        return
    b = facts.body(d)
    from .places import deref

    def print_root(root_table):
        doc = ('struct', 'toml_edit::document::DocumentMut', {'root': ('ctor', I + 'Table', (root_table,)), 'trailing': _raw_empty()})
        it = PrintInterp(Evaluator(facts))
        it.apply_fn(b, [doc, ('formatter',)])
        return it.text()

    def holder(items):
        t = table_model(T({}))
        t[2]['items'] = MapObj(items)
        return t
    content = {'a': 1, 'n': IT({'b': 'x'}), 'l': [1, 2]}
    want = logical(T(content))
    cases = []
    for dotted in (False, True):
        def conv_it(dotted=dotted):
            it_ = deref(value_model(IT(content, dotted=dotted))[2][0])
            return PrintInterp(Evaluator(facts)).apply_fn(facts.body('toml_edit::inline_table::InlineTable::into_table'), [it_])
        lab = 'a dotted-key inline table' if dotted else 'an inline table'
        cases.append((f'{lab} -> into_table, as the document root', conv_it, lambda t: print_root(t), want))
        cases.append((f'{lab} -> into_table, as a [table]', conv_it, lambda t: print_root(holder([(_key('t'), ('ctor', I + 'Table', (t,)))])), {'t': want}))
        cases.append((f'{lab} -> into_table, as an element of an array of tables', conv_it,
                      lambda t: print_root(holder([(_key('aot'), ('ctor', I + 'ArrayOfTables', (('struct', 'toml_edit::array_of_tables::ArrayOfTables', {'values': VecObj([('ctor', I + 'Table', (t,))]), 'span': NONE_}),)))])),
                      {'aot': [want]}))
    for implicit, dotted in ((False, False), (True, False), (True, True)):
        def conv_t(implicit=implicit, dotted=dotted):
            t_ = table_model(T(content, implicit=implicit, dotted=dotted))
            return PrintInterp(Evaluator(facts)).apply_fn(facts.body('toml_edit::table::Table::into_inline_table'), [t_])
        lab = ('a dotted-key table' if dotted else 'a header-implied table' if implicit else 'a table')
        cases.append((f'{lab} -> into_inline_table, as a value', conv_t, lambda v: print_root(holder([(_key('v'), ('ctor', I + 'Value', (('ctor', V + 'InlineTable', (v,)),)))])), {'v': want}))
        cases.append((f'{lab} -> into_inline_table, as an array element', conv_t,
                      lambda v: print_root(holder([(_key('v'), ('ctor', I + 'Value', (value_model([1])[0:2] + ((deref(value_model([1])[2][0])),),)))])) if False else
                      print_root(holder([(_key('v'), ('ctor', I + 'Value', (_array_of([('ctor', V + 'InlineTable', (v,))]),)))])), {'v': [want]}))
    for name, conv, place, expect in cases:
        try:
            text = place(deref(conv()))
        except EvalPanic as ex:
            rep.bad(R, name, f'{name}: the conversion or the printer panics: {ex}', facts.loc(b))
            continue
        except (Unanalysable, TypeError, KeyError, IndexError, AttributeError, ValueError) as ex:
            rep.incomplete(R, name, f'cannot evaluate `{name}`: {type(ex).__name__}: {ex}', facts.loc(b))
            continue
        try:
            got = tomllib.loads(text)
        except tomllib.TOMLDecodeError as ex:
            rep.bad(R, name, f'{name}: the document prints as text that is not valid TOML ({ex}): {text!r:.300}', facts.loc(b))
            continue
        rep.check(R, name, got == expect, f'{len(text)} bytes, decodes to the content', f'{name}: the document prints as {text!r:.260}, which decodes to {got!r:.200} instead of {expect!r:.200}', facts.loc(b))


def _array_of(values):
    return ('ctor', V + 'Array', (('struct', 'toml_edit::array::Array', {'values': VecObj([('ctor', I + 'Value', (v,)) for v in values]), 'trailing': _raw_empty(), 'trailing_comma': False,
                                                                       'decor': _dec(), 'span': NONE_}),))
