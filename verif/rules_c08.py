"""C08 — edits change exactly what was asked and keep everything else verbatim
(decided part: order-preserving in-place storage operations, decor carried on
replacement, wholesale conversions, placement of position-less tables)."""
from .core import run_property, AnalysisIncomplete, walk, peel, last_seg, calls_in, callee_all, strip_generics
from .shared import order_ops, array_separators
from .den import truth_table, Evaluator, Unanalysable

PROP = 'C08'


def callee_segs(body):
    out = []
    for n in calls_in(body['body']):
        for c in callee_all(n):
            out.append((last_seg(c), strip_generics(c), n))
    return out


def r2_inplace(rep, facts):
    R = rep.rule('C08/R2', 'insertion of an existing key replaces the value in place (mem::replace on the occupied entry, no removal); '
                 'Array::replace carries the old element\'s decor; push/insert decorate through value_op, the *_formatted forms do not', floor=10)
    for d in ('toml_edit::table::Table::insert', 'toml_edit::table::Table::insert_formatted',
              'toml_edit::inline_table::InlineTable::insert', 'toml_edit::inline_table::InlineTable::insert_formatted'):
        b = facts.body(d)
        segs = callee_segs(b)
        names = {s for s, _, _ in segs}
        # storage-level removals (a helper that drops a placeholder before the lookup is judged by C08/R8, which evaluates where the entry ends up)
        rem = sorted(s for s in names if s in ('remove', 'shift_remove', 'swap_remove', 'remove_entry', 'shift_remove_entry', 'swap_remove_entry', 'shift_remove_full', 'swap_remove_full', 'pop', 'drain', 'retain'))
        occupied = any((x.get('path') or '').endswith('Entry::Occupied') for x in walk(b['body']) if x.get('k') in ('p_tuplestruct', 'p_struct'))
        vacant = any((x.get('path') or '').endswith('Entry::Vacant') for x in walk(b['body']) if x.get('k') in ('p_tuplestruct', 'p_struct'))
        # the value of the occupied entry is exchanged where it sits: mem::replace on the slot, or the entry's own insert (which is that)
        inplace = ('replace' in names and any(full == 'core::mem::replace' for _, full, _ in segs)) or any('OccupiedEntry' in full and seg_ == 'insert' for seg_, full, _ in segs)
        # decided by evaluation where the function can be evaluated: on a container holding a, b, c the insertion over `b` leaves the keys a, b, c in this order with
        # the new value under b and hands back the old one; a new key goes to the end.  The reading of the entry match above is the fallback.
        try:
            from .rules_containers import _table_model, fval, tag_of, _visible, unopt, I as I_
            from .places import PlaceInterp
            from .den import EvalPanic as _Ep
            ty_ = d.rsplit('::', 1)[0]
            inline = ty_.endswith('InlineTable')
            mk = (lambda t: fval(t)) if inline else (lambda t: ('ctor', I_ + 'Value', (fval(t),)))
            stored = lambda t: ('ctor', I_ + 'Value', (fval(t),))
            verdicts = []
            for q, want_state, want_ret in (('b', [('a', 'a'), ('b', 'NEW'), ('c', 'c')], 'b'), ('z', [('a', 'a'), ('b', 'b'), ('c', 'c'), ('z', 'NEW')], None)):
                m_ = _table_model(ty_, [(n_, stored(n_)) for n_ in ('a', 'b', 'c')])
                from .rules_containers import key as key_
                arg_key = key_(q) if d.endswith('_formatted') else q
                r_ = PlaceInterp(Evaluator(facts)).apply_fn(b, [m_, arg_key, mk('NEW')])
                got_ret = tag_of(unopt(r_)) if unopt(r_) is not None else None
                verdicts.append((_visible(m_) == want_state and got_ret == want_ret, q, _visible(m_), got_ret))
            ok_model = all(v[0] for v in verdicts)
            rep.check(R, d + '|in-place', ok_model, 'evaluated: over an existing key the value changes where it sits, a new key goes to the end',
                      f'`{d}` evaluated on a container holding a, b, c: ' + '; '.join(f'inserting `{q}` leaves {st} and returns {rt}' for okv, q, st, rt in verdicts if not okv) +
                      ': the key moves or its neighbours shift', facts.loc(b))
            continue
        except (Unanalysable, _Ep, TypeError, KeyError, IndexError, AttributeError, ValueError, ImportError):
            pass
        rep.check(R, d + '|in-place', occupied and vacant and inplace and not rem, 'Occupied -> mem::replace(entry.get_mut(), item); Vacant -> insert',
                  f'`{d}` does not replace an occupied entry in place (calls: {sorted(names)[:8]}; removals: {rem}): the key would move or its neighbours shift', facts.loc(b))
    # Array::replace carries decor
    d = 'toml_edit::array::Array::replace'
    b = facts.body(d)
    old = None
    for n in walk(b['body']):
        if n.get('k') == 'let' and n['pat'].get('k') == 'p_bind':
            chain = [x.get('name') for x in walk(n.get('init', {})) if x.get('k') == 'mcall']
            if 'decor' in chain and 'get' in chain:
                old = n['pat']['name']
    carried = False
    order_ok = False
    stmts = b['body'].get('stmts', []) + ([b['body']['expr']] if b['body'].get('expr') else [])
    assign_idx = None
    store_idx = None
    for i, s in enumerate(stmts):
        for n in walk(s):
            if n.get('k') == 'assign':
                l = peel(n['lhs'])
                if l.get('k') == 'mcall' and l.get('name') == 'decor_mut' and old and any(x.get('path') == old for x in walk(n['rhs'])):
                    carried = True
                    assign_idx = i
            if n.get('k') == 'mcall' and n.get('name') in ('replace_formatted',) or (n.get('k') == 'call' and last_seg((peel(n.get('f', {})).get('path') or '')) == 'replace'):
                store_idx = i if store_idx is None else store_idx
    order_ok = assign_idx is not None and store_idx is not None and assign_idx < store_idx
    # decided by evaluation where possible: replacing the middle element of [x, y, z], each with its own decor, leaves y's decor on the new value
    try:
        from .rules_containers import fval, tag_of, I as I_
        from .places import PlaceInterp, deref as deref_
        from .den import EvalPanic as _Ep, VecObj as VecObj_
        NONE_ = ('ctor', 'core::option::Option::None')

        def dv(tag):
            v_ = fval(tag)
            v_[2][0][2]['decor'] = ('struct', 'toml_edit::repr::Decor', {'prefix': ('ctor', 'core::option::Option::Some', (('raw', 'pre-' + tag),)), 'suffix': ('ctor', 'core::option::Option::Some', (('raw', 'suf-' + tag),))})
            return v_
        arr = ('struct', 'toml_edit::array::Array', {'values': VecObj_([('ctor', I_ + 'Value', (dv(t),)) for t in ('x', 'y', 'z')]), 'trailing': ('opaque',), 'trailing_comma': False,
                                                      'decor': ('struct', 'toml_edit::repr::Decor', {'prefix': NONE_, 'suffix': NONE_}), 'span': NONE_})
        PlaceInterp(Evaluator(facts)).apply_fn(b, [arr, 1, fval('NEW')])
        el = deref_(deref_(arr[2]['values']).items[1])
        fm = deref_(deref_(el[2][0])[2][0])
        dec = deref_(fm[2]['decor'])
        got = (tag_of(el), repr(deref_(dec[2]['prefix'])), repr(deref_(dec[2]['suffix'])))
        carried = order_ok = got[0] == 'NEW' and 'pre-y' in got[1] and 'suf-y' in got[2]
        # ... and an element without decor of its own leaves the incoming value without any: the decor a value brings along from where it stood before
        # (a comment after `key = value`) does not travel into the array
        arr2 = ('struct', 'toml_edit::array::Array', {'values': VecObj_([('ctor', I_ + 'Value', (fval(t),)) for t in ('x', 'y', 'z')]), 'trailing': ('opaque',), 'trailing_comma': False,
                                                       'decor': ('struct', 'toml_edit::repr::Decor', {'prefix': NONE_, 'suffix': NONE_}), 'span': NONE_})
        PlaceInterp(Evaluator(facts)).apply_fn(b, [arr2, 1, dv('NEW')])
        el2 = deref_(deref_(arr2[2]['values']).items[1])
        dec2 = deref_(deref_(deref_(el2[2][0])[2][0])[2]['decor'])
        plain_decor = deref_(dec2[2]['prefix'])[1].endswith('::None') and deref_(dec2[2]['suffix'])[1].endswith('::None')
        if not plain_decor:
            carried = order_ok = False
    except (Unanalysable, _Ep, TypeError, KeyError, IndexError, AttributeError, ValueError, ImportError):
        pass
    rep.check(R, d + '|carries-decor', carried and order_ok, 'the new value takes the replaced element\'s decor, set or unset (evaluated)',
              '`Array::replace` does not copy the replaced element\'s decor onto the new value before storing it (comments/whitespace around the element are lost)', facts.loc(b))
    # push / insert give the new element the default decoration (" " before it when the array already has elements, nothing when it is the
    # first; no suffix); the *_formatted forms store the value as given.  Decided by evaluating each method on an empty and a non-empty array
    # with `decorate` / `decor_mut` / `fmt` and the Vec operations recorded (whatever helper or closure the decoration goes through).
    from .den import RecInterp, Unanalysable as UN, EvalPanic
    SOME = 'core::option::Option::Some'

    def sample():
        return ('ctor', 'toml_edit::value::Value::Integer', (('struct', 'toml_edit::repr::Formatted', {'value': 7, 'repr': ('opaque',), 'decor': (
            'struct', 'toml_edit::repr::Decor', {'prefix': ('ctor', SOME, ('<old prefix>',)), 'suffix': ('ctor', SOME, ('<old suffix>',))})}),))

    def decor_of(x, depth=0):
        """(prefix, suffix) of the first modelled Decor inside a stored element"""
        if depth > 8:
            return None
        if isinstance(x, tuple) and len(x) == 3 and x[0] == 'struct' and isinstance(x[2], dict):
            if 'prefix' in x[2] and 'suffix' in x[2]:
                un = lambda o: o[2][0] if isinstance(o, tuple) and o[:2] == ('ctor', SOME) else None
                return un(x[2]['prefix']), un(x[2]['suffix'])
            for v in x[2].values():
                r = decor_of(v, depth + 1)
                if r is not None:
                    return r
        elif isinstance(x, tuple):
            for v in x:
                r = decor_of(v, depth + 1)
                if r is not None:
                    return r
        return None
    for d, want in (('toml_edit::array::Array::push', True), ('toml_edit::array::Array::insert', True),
                    ('toml_edit::array::Array::push_formatted', False), ('toml_edit::array::Array::insert_formatted', False),
                    ('toml_edit::array::Array::replace_formatted', False)):
        b = facts.body(d)
        pn = [p['name'] for p in b.get('params', []) if p.get('k') == 'p_bind']
        got = {}
        try:
            for n_el in (0, 2):
                it = RecInterp(Evaluator(facts), {'push', 'insert', 'replace', 'get_mut', 'remove'})
                env = {pn[0]: ('struct', 'Array', {'values': tuple(('item',) for _ in range(n_el)), 'trailing_comma': False}), '@assign': {}, '@calls': []}
                for extra in pn[1:]:
                    env[extra] = sample() if extra == pn[-1] else 0
                try:
                    it.run_body(b, env)
                except EvalPanic:
                    pass            # e.g. replace_formatted(0, ..) on an empty array: a documented panic, nothing was stored before it
                except Exception as ex:
                    if not hasattr(ex, 'v'):
                        raise
                stored = [decor_of(a[-1]) for nm, a in it.calls if nm in ('push', 'insert') and a] + \
                         [decor_of(v) for nm, a in it.calls if nm == 'replace' and a for v in a[-1:]]
                stored = [x for x in stored if x is not None]
                got[n_el] = stored[0] if len(stored) == 1 else (None if not stored else tuple(stored))
        except UN as e:
            rep.incomplete(R, d + ('|decorates' if want else '|verbatim'), f'cannot evaluate: {e}', facts.loc(b))
            continue
        if want:
            ok = got == {0: ('', ''), 2: (' ', '')}
            rep.check(R, d + '|decorates', ok, 'stored with decor ("", "") as first element, (" ", "") after others',
                      f'`{d}` stores the new element with decor (prefix, suffix) = {got[0]} in an empty array and {got[2]} in a non-empty one, expected ("", "") / (" ", ""): whatever '
                      f'decoration the value brought along (a trailing comment in its suffix) must be replaced, or it swallows the `,` / `]` written after it', facts.loc(b))
        else:
            keep = ('<old prefix>', '<old suffix>')
            ok = all(v in (None, keep) for v in got.values())
            rep.check(R, d + '|verbatim', ok, 'stores the value as given', f'`{d}` changes the decor of an already formatted value ({got})', facts.loc(b))

def r3_conversions(rep, facts):
    R = rep.rule('C08/R3', 'conversions between inline and standard forms move the item storage wholesale and convert every element', floor=6)

    def moves_field(b, field, ctor_seg):
        from .shared import local_origins
        orig = local_origins(b['body'])

        def src(x):
            # the expression a local stands for (`let mut tables = a.values; .. aot.values = tables`)
            x = peel(x)
            hops = 0
            while x.get('k') == 'path' and x.get('res') == 'Local' and x.get('path') in orig and hops < 4:
                x = peel(orig[x['path']])
                hops += 1
            return x
        for n in calls_in(b['body']):
            if n.get('k') == 'call' and last_seg((peel(n.get('f', {})).get('path') or '')) == ctor_seg:
                for a in n.get('args', []):
                    a = src(a)
                    if a.get('k') == 'field' and a.get('name') == field and peel(a['base']).get('res') == 'Local':
                        return True
        for n in walk(b['body']):
            if n.get('k') == 'assign':
                l, r = peel(n['lhs']), src(n['rhs'])
                if l.get('k') == 'field' and l.get('name') == field and r.get('k') == 'field' and r.get('name') == field:
                    return True
        return False

    def converts_each(b, meth):
        """the conversion is called in a loop over the elements, on every iteration (not under a condition)"""
        from .core import children

        def cond_depth(node, target, depth):
            if node is target:
                return depth
            k = node.get('k') if isinstance(node, dict) else None
            d2 = depth
            if k == 'if' or (k == 'match' and 'ForLoopDesugar' not in (node.get('src') or '') and 'TryDesugar' not in (node.get('src') or '')):
                d2 = depth + 1
            for c in children(node):
                r = cond_depth(c, target, d2)
                if r is not None:
                    return r
            return None
        from .shared import method_chain, local_origins
        SELECTING = {'filter', 'filter_map', 'skip', 'take', 'step_by', 'skip_while', 'take_while', 'map_while', 'zip', 'nth', 'find', 'last', 'next', 'peekable_next_if'}
        orig = local_origins(b['body'])

        def whole(iterable):
            """the iterated expression hands out every element (no selecting adaptor between the storage and the loop)"""
            _, chain = method_chain(iterable, orig)
            return not (set(chain) & SELECTING)
        for m in walk(b['body']):
            if m.get('k') == 'match' and 'ForLoopDesugar' in (m.get('src') or ''):
                sc = peel(m['scrut'])
                iterable = sc['args'][0] if sc.get('k') == 'call' and sc.get('args') else sc
                for n in walk(m):
                    if n.get('k') == 'loop':
                        for x in walk(n):
                            if x.get('k') == 'mcall' and x.get('name') == meth:
                                return cond_depth(n, x, 0) == 0 and whole(iterable)
        for n in walk(b['body']):
            if n.get('k') == 'loop':
                for x in walk(n):
                    if x.get('k') == 'mcall' and x.get('name') == meth:
                        return cond_depth(n, x, 0) == 0
        # iterator form: <elements>.for_each(Item::make_value) / .for_each(|v| v.make_value())
        for n in walk(b['body']):
            if n.get('k') == 'mcall' and n.get('name') == 'for_each' and n.get('args'):
                if not whole(n['recv']):
                    return False
                a = peel(n['args'][0])
                if a.get('k') == 'path' and last_seg(a.get('path') or '') == meth:
                    return True
                if a.get('k') == 'closure':
                    for x in walk(a['body']):
                        if x.get('k') == 'mcall' and x.get('name') == meth:
                            return cond_depth(a['body'], x, 0) == 0
        return False
    # Item::into_array_of_tables, decided on its results for arrays of 0..2 elements of both kinds (evaluated with make_item recorded): Ok exactly
    # for non-empty arrays of inline tables, with the elements kept in order and each converted once; otherwise the item comes back unchanged
    aot_done = False
    try:
        from .den import RecInterp as _RI, Unanalysable as _UN, EvalPanic as _EP
        bb = facts.body('toml_edit::item::Item::into_array_of_tables')
        IT = lambda i: ('ctor', 'toml_edit::item::Item::Value', (('ctor', 'toml_edit::value::Value::InlineTable', (('it', i),)),))
        INT = lambda i: ('ctor', 'toml_edit::item::Item::Value', (('ctor', 'toml_edit::value::Value::Integer', (('int', i),)),))
        bad = []
        for elems in ([], [IT(0)], [IT(0), IT(1)], [IT(0), IT(1), IT(2)], [INT(0)], [IT(0), INT(1)], [INT(0), IT(1)]):
            it = _RI(Evaluator(facts), {'make_item'})
            arr = ('struct', 'toml_edit::array::Array', {'values': tuple(elems), 'trailing_comma': False, 'trailing': ('opaque',), 'decor': ('opaque',), 'span': ('opaque',)})
            node = ('ctor', 'toml_edit::item::Item::Value', (('ctor', 'toml_edit::value::Value::Array', (arr,)),))
            r = it.apply_fn(bb, [node])
            want_ok = bool(elems) and all(e[2][0][1].endswith('InlineTable') for e in elems)
            shape = ''.join('t' if e[2][0][1].endswith('InlineTable') else 'v' for e in elems) or 'empty'
            is_ok = isinstance(r, tuple) and r[:2] == ('ctor', 'core::result::Result::Ok')
            if is_ok != want_ok:
                bad.append(f'[{shape}] -> {"Ok" if is_ok else "Err"}')
            elif is_ok:
                vals = r[2][0][2].get('values') if isinstance(r[2][0], tuple) and r[2][0][0] == 'struct' else None
                n_conv = sum(1 for nm, _ in it.calls if nm == 'make_item')
                if vals != tuple(elems) or n_conv != len(elems):
                    bad.append(f'[{shape}] -> Ok with {len(vals) if vals is not None else "?"} of {len(elems)} elements, {n_conv} converted')
            elif r[2][0] != node:
                bad.append(f'[{shape}] -> Err does not hand the item back')
        rep.check(R, 'toml_edit::item::Item::into_array_of_tables|table', not bad, '7 arrays: Ok <=> non-empty and all inline tables; elements kept in order, each converted once',
                  f'`Item::into_array_of_tables`: {"; ".join(bad[:3])} (only non-empty arrays of inline tables convert, keeping every element)', facts.loc(bb))
        aot_done = True
    except (_UN, _EP, KeyError, IndexError, TypeError) as e:
        rep.notes.append(f'Item::into_array_of_tables could not be evaluated ({e}); read structurally.')
    for d, field, ctor, each in (('toml_edit::table::Table::into_inline_table', 'items', 'with_pairs', 'make_value'),
                                 ('toml_edit::inline_table::InlineTable::into_table', 'items', 'with_pairs', None),
                                 ('toml_edit::array_of_tables::ArrayOfTables::into_array', 'values', 'with_vec', 'make_value'),
                                 ('toml_edit::item::Item::into_array_of_tables', 'values', None, 'make_item')):
        if aot_done and d.endswith('into_array_of_tables'):
            continue
        b = facts.body(d)
        mv = moves_field(b, field, ctor or '')
        rep.check(R, d + '|moves-storage', mv, f'`{field}` moved wholesale', f'`{d}` does not move `{field}` wholesale into the new container (entries could be lost or re-ordered)', facts.loc(b))
        if each:
            rep.check(R, d + '|converts-each', converts_each(b, each), f'{each} on every element', f'`{d}` does not call {each} on every element unconditionally (an element that stays in its old form is not printable in the new container and is silently dropped)', facts.loc(b))
    b = facts.body('toml_edit::item::Item::into_array_of_tables')
    guards = [n.get('name') for n in walk(b['body']) if n.get('k') == 'mcall' and n.get('name') in ('is_empty', 'all', 'is_inline_table')]
    if aot_done:
        guards = ['is_empty', 'all', 'is_inline_table']        # decided by the table above
    rep.check(R, 'Item::into_array_of_tables|guards', {'is_empty', 'all', 'is_inline_table'} <= set(guards), 'only non-empty arrays of inline tables convert',
              f'into_array_of_tables guards are {guards}', facts.loc(b))


def r4_placement(rep, facts):
    R = rep.rule('C08/R4', 'tables without a position print after the preceding positioned table; a header is written for every table that is not the root and is an array element, '
                 'explicit, or has rows of its own — implicit tables without rows are hidden, rows are never written without their header (visit_table evaluated, 32 cases)', floor=30)
    d = facts.method('core::fmt::Display', 'toml_edit::document::DocumentMut', 'fmt')
    b = facts.body(d)
    from .shared import position_carry
    okp, detail, pb = position_carry(facts)
    rep.check(R, 'Display for DocumentMut|position-inherited', okp, detail, f'tables are no longer keyed by the last seen position: {detail}', facts.loc(pb))
    from .shared import visit_table_model
    visit_table_model(rep, R, facts)


STORE_OPS = {'insert', 'insert_formatted', 'push', 'push_formatted', 'extend'}
NEUTRAL_OPS = {'reserve', 'len', 'is_empty', 'capacity'}      # sizing the storage stores nothing and drops nothing


def r2d_bulk_insertion(rep, facts):
    R = rep.rule('C08/R2d', 'adding many entries is adding each of them: every workspace impl of Extend hands each incoming element to the container\'s '
                 'own storing operation (insert / push / the storage\'s extend), unconditionally — a keep-first operation (entry().or_insert, a contains_key guard) '
                 'would silently drop the replacement of a key that is already there', floor=4)
    from .shared import conditions_above
    n = 0
    for imp in facts.impls:
        if (imp.get('trait') or '') != 'core::iter::traits::collect::Extend':
            continue
        for it in imp['items']:
            if it['name'] != 'extend' or not facts.has_body(it['def']):
                continue
            b = facts.body(it['def'])
            ps = b.get('params', [])
            me = ps[0].get('name') if ps and ps[0].get('k') == 'p_bind' else None
            on_self = [x for x in walk(b['body']) if x.get('k') == 'mcall' and x.get('name') not in NEUTRAL_OPS and any(y.get('k') == 'path' and y.get('res') == 'Local' and y.get('path') == me for y in walk(x['recv']))]
            # only the outermost call of a chain on self counts (`self.items.entry(k).or_insert(v)` is one chain)
            inner = {id(y) for x in on_self for y in walk(x['recv'])}
            outer = [x for x in on_self if id(x) not in inner]
            names = [x.get('name') for x in outer]
            chain = sorted({y.get('name') for x in on_self for y in [x]})
            guarded = [x for x in outer if conditions_above(b['body'], x)]
            ok = len(outer) == 1 and names[0] in STORE_OPS and set(chain) <= STORE_OPS and not guarded
            n += 1
            rep.check(R, f'{imp["self_ty"]}|extend', ok, f'self..{names[0] if names else "?"}(element)',
                      f'`{it["def"]}` stores an incoming element through {chain}' + (' under a condition' if guarded else '') +
                      ': an element whose key is already present does not replace the old value (or some elements are not stored at all)', facts.loc(b))
    rep.check(R, 'count', n >= (5 if 'toml' in facts.crates else 4), f'{n} impls of Extend', f'only {n} impls of Extend found in the workspace')


def r7_fmt_scope(rep, facts):
    R = rep.rule('C08/R7', 'reformatting a table touches its own key/value pairs only: the workers of Table::fmt / InlineTable::fmt, evaluated on a table holding a value, a '
                 'sub-table, a dotted-key table, an array of tables and a placeholder with the decor resets recorded, clear the key decor and the value decor of the value '
                 'entry and nothing else (the headers and dotted keys of the children keep their source text)', floor=2)
    from .den import RecInterp, Evaluator, Unanalysable, EvalPanic
    I, V = 'toml_edit::item::Item::', 'toml_edit::value::Value::'
    decor = lambda tag: ('struct', 'toml_edit::repr::Decor', {'prefix': ('p', tag), 'suffix': ('s', tag), 'tag': tag})
    key = lambda n: ('struct', 'toml_edit::key::Key', {'key': n, 'repr': ('opaque',), 'leaf_decor': decor('leaf decor of key ' + n), 'dotted_decor': decor('dotted decor of key ' + n)})
    fv = lambda n: ('struct', 'toml_edit::repr::Formatted', {'value': ('elem', n), 'repr': ('ctor', 'core::option::Option::None'), 'decor': decor('decor of value ' + n)})
    tbl = lambda n, imp, dot: ('ctor', I + 'Table', (('struct', 'toml_edit::table::Table', {'decor': decor('decor of table ' + n), 'items': (), 'implicit': imp, 'dotted': dot}),))
    entries = (('v', ('ctor', I + 'Value', (('ctor', V + 'Integer', (fv('v'),)),))), ('t', tbl('t', False, False)), ('d', tbl('d', True, True)),
               ('a', ('ctor', I + 'ArrayOfTables', (('struct', 'toml_edit::array_of_tables::ArrayOfTables', {'values': (), 'span': None}),))), ('g', ('ctor', I + 'None')))
    want = ['leaf decor of key v', 'dotted decor of key v', 'decor of value v']
    for ty, entry in (('toml_edit::table::Table', 'toml_edit::table::Table::fmt'), ('toml_edit::inline_table::InlineTable', 'toml_edit::inline_table::InlineTable::fmt')):
        if not facts.has_body(entry):
            rep.incomplete(R, last_seg(ty) + '::fmt', f'`{entry}` not found')
            continue
        b = facts.body(entry)
        tab = ('struct', ty, {'items': tuple((key(n), it) for n, it in entries), 'decor': decor('decor of the table itself'), 'implicit': False, 'dotted': False})
        it = RecInterp(Evaluator(facts), {'clear'})
        try:
            it.apply_fn(b, [tab])
        except EvalPanic as ex:
            rep.bad(R, last_seg(ty) + '::fmt', f'`{entry}` panics on a table with children: {ex}', facts.loc(b))
            continue
        except Unanalysable as ex:
            rep.incomplete(R, last_seg(ty) + '::fmt', f'cannot evaluate `{entry}`: {ex}', facts.loc(b))
            continue
        got = [t[1][2].get('tag', '?') if isinstance(t[1], tuple) and len(t[1]) == 3 and isinstance(t[1][2], dict) else '?' for t in it.trace if t[0] == 'clear']
        rep.check(R, last_seg(ty) + '::fmt', sorted(got) == sorted(want), f'clears {got}',
                  f'`{entry}` clears {got}; it should clear exactly {want}: ' + ('the keys / headers of child tables are rewritten although the edit did not address them'
                                                                             if set(got) - set(want) else 'part of the pair keeps its old spacing'), facts.loc(b))


def r3b_conversion_flags(rep, facts):
    R = rep.rule('C08/R3b', 'converting between the inline and the standard form gives a plain container that holds the same entries: InlineTable::into_table and Table::into_inline_table, '
                 'evaluated on a container flagged dotted and implicit, return one that is neither (a dotted table prints only through its parent\'s body, an implicit one only through '
                 'its children: used as an array-of-tables entry or a document root it would vanish) with the keys in the same order', floor=2)
    from .places import PlaceInterp, MapObj, keyname, deref
    from .rules_containers import key, fval, I
    NONE_ = ('ctor', 'core::option::Option::None')
    dec = lambda: ('struct', 'toml_edit::repr::Decor', {'prefix': NONE_, 'suffix': NONE_})
    for d, ty in (('toml_edit::inline_table::InlineTable::into_table', 'toml_edit::inline_table::InlineTable'), ('toml_edit::table::Table::into_inline_table', 'toml_edit::table::Table')):
        if not facts.has_body(d):
            rep.incomplete(R, last_seg(d), f'`{d}` not found')
            continue
        b = facts.body(d)
        f = {'items': MapObj([(key(n), ('ctor', I + 'Value', (fval(n),))) for n in ('b', 'a', 'c')]), 'decor': dec(), 'implicit': True, 'dotted': True, 'span': NONE_}
        f.update({'preamble': ('opaque',)} if ty.endswith('InlineTable') else {'doc_position': NONE_})
        try:
            r = deref(PlaceInterp(Evaluator(facts), {'fmt'}).apply_fn(b, [('struct', ty, f)]))
        except (Unanalysable, TypeError, KeyError, IndexError) as ex:
            rep.incomplete(R, last_seg(d), f'cannot evaluate `{d}`: {ex}', facts.loc(b))
            continue
        st = r[2] if isinstance(r, tuple) and len(r) == 3 and r[0] == 'struct' else {}
        items = st.get('items')
        keys = [keyname(k) for k, _ in (items.pairs if isinstance(items, MapObj) else items or [])]
        ok = st.get('dotted') is False and st.get('implicit') is False and keys == ['b', 'a', 'c']
        rep.check(R, last_seg(d), ok, 'plain container, same keys', f'`{d}` of a container flagged dotted / implicit returns dotted={st.get("dotted")}, implicit={st.get("implicit")}, keys {keys}: '
                  f'the converted table is printed only through a parent it may not have, or loses entries', facts.loc(b))


def rules(rep, facts):
    if 'toml_edit' not in facts.crates:
        return
    R1 = rep.rule('C08/R1', 'no order-breaking storage operation (swap_remove*, IndexMap::remove, sort_unstable*, swap_indices) anywhere in '
                  'toml_edit / toml library code; removal goes through shift_remove', floor=2)
    order_ops(rep, R1, facts)
    r2_inplace(rep, facts)
    r2d_bulk_insertion(rep, facts)
    r7_fmt_scope(rep, facts)
    from .rules_containers import r8_map_summaries, r9c_sequence_summaries
    r8_map_summaries(rep, facts, rid='C08/R8')
    r9c_sequence_summaries(rep, facts, rid='C08/R8b')
    r3_conversions(rep, facts)
    r3b_conversion_flags(rep, facts)
    R6 = rep.rule('C08/R6', 'sorting touches what the API documents: each of the four sort functions sorts its own entries once, recurses only into dotted '
                  'children (sub-tables with their own header keep their order), through the same function and with the same comparison', floor=8)
    from .shared import sort_recursion
    sort_recursion(rep, R6, facts)
    feats = set(facts.crates['toml_edit'].get('features', []))
    if 'display' in feats:
        from .rules_print import r15_printed_documents
        r15_printed_documents(rep, facts, rid='C08/R9')
        if 'parse' in set(facts.crates.get('toml_edit', {}).get('features', [])):
            from .rules_events import r_edits, r_value_edits
            r_edits(rep, facts)
            r_value_edits(rep, facts)
        r4_placement(rep, facts)
        R5 = rep.rule('C08/R5', 'array printing follows the edited state: separator for every element but the first, trailing comma only '
                      'when the flag is set and the array is non-empty (emptying an array never prints `[,]`)', floor=2)
        array_separators(rep, R5, facts)


def _crossref(rep):
    from .shared import clippy_crossref
    clippy_crossref(rep, 'C08/R1x')


def run(tier):
    return run_property(PROP, tier, rules, configs_thorough=['default', 'perf', 'preserve_order', 'perf_preserve_order', 'unbounded', 'edit_nodefault'], extra=_crossref if tier == 'thorough' else None)
