"""Normalisation of the typed-HIR facts before the rules read them.

Maintainers extract helpers, merge twin functions into one generic helper, or name a closure.  The rules, on the other
hand, are anchored in the functions that exist today.  To keep them applicable, every *new private function* (one whose
def path is not in allow/anchors.json) is expanded at its uses:

  helper(a, b)            ->  { let <non-trivial params> = <args>; <body of helper, params substituted> }
  recv.helper(a)          ->  the same with `self` := recv
  map(helper) / f(helper) ->  closure `|params| <body of helper>`        (a function used as a value)

Local names of the expanded body are made unique (`name#id~k`).  Recursive helpers are left alone.  A helper that is no
longer mentioned anywhere afterwards is removed from the HIR tables, so that rules enumerating functions see the same
population as before; its MIR stays (see Facts.helper_owners for how panic sites in it are attributed).

This is a view for the analysis, nothing is written back.  `return` / `?` inside an expanded body keep their text-level
form; rules that evaluate bodies treat a helper in tail position only."""
import copy

from .core import walk, peel, callee_all

MAX_ROUNDS = 4
SIMPLE = ('path', 'lit', 'closure')


def _mentions(node, names):
    out = set()
    for n in walk(node):
        k = n.get('k')
        if k == 'path' and n.get('res') in ('Fn', 'AssocFn'):
            for p in (n.get('resolved'), n.get('path')):
                if p in names:
                    out.add(p)
        elif k == 'mcall':
            for p in callee_all(n):
                if p in names:
                    out.add(p)
    return out


def _substitutable(arg):
    a = arg
    while isinstance(a, dict) and a.get('k') in ('addrof', 'cast') or (isinstance(a, dict) and a.get('k') == 'unary' and a.get('op') == '*'):
        a = a.get('a') or a.get('e')
    if not isinstance(a, dict):
        return False
    k = a.get('k')
    if k in SIMPLE:
        return True
    if k == 'field':
        return _substitutable(a.get('base'))
    if k == 'struct' and 'Range' in (a.get('path') or ''):
        return all(_substitutable(f['e']) for f in a.get('fields', []))
    if k == 'call' and 'RangeInclusive' in ((peel(a.get('f', {})).get('path')) or ''):
        return all(_substitutable(x) for x in a.get('args', []))
    if k == 'tup':
        return all(_substitutable(x) for x in a.get('elems', []))
    if k == 'mcall' and a.get('name') in ('borrow_mut', 'borrow', 'deref_mut', 'deref', 'as_ref', 'as_mut', 'by_ref') and not a.get('args'):
        return _substitutable(a.get('recv'))
    return False


class Normaliser:
    def __init__(self, facts, baseline):
        self.f = facts
        self.unknown = set()
        for d, v in facts.fns.items():
            if d in baseline or '::test' in d or d not in facts.bodies:
                continue
            if v.get('vis') == 'pub':
                continue
            self.unknown.add(d)
        # recursive helpers (directly or through other helpers) are not expanded
        graph = {d: _mentions(facts.bodies[d]['body'], self.unknown) for d in self.unknown}
        rec = set()
        for d in self.unknown:
            seen, stack = set(), list(graph[d])
            while stack:
                x = stack.pop()
                if x == d:
                    rec.add(d)
                    break
                if x in seen:
                    continue
                seen.add(x)
                stack.extend(graph.get(x, ()))
        self.unknown -= rec
        self.counter = 0
        self.expanded = {}      # helper -> set of owners it was expanded into
        self.delegates = {}     # baseline fn -> helper, when the fn's whole body is one call of the helper

    # ------------------------------------------------------------------
    def run(self):
        if not self.unknown:
            return
        f = self.f
        for d, b in f.bodies.items():
            if d in self.unknown:
                continue
            body = peel(b['body'])
            tail = body
            if isinstance(tail, dict) and tail.get('k') in ('call', 'mcall'):
                hs = [p for p in callee_all(tail) if p in self.unknown] if tail.get('k') == 'mcall' else \
                     [p for p in callee_all(tail) if p in self.unknown]
                if hs:
                    self.delegates[d] = hs[0]
        for _ in range(MAX_ROUNDS):
            changed = False
            for d, b in list(f.bodies.items()):
                if not _mentions(b['body'], self.unknown):
                    continue
                b['body'] = self.rewrite(b['body'], d)
                changed = True
            if not changed:
                break
        # helpers nobody mentions any more leave the HIR tables
        still = set()
        for d, b in f.bodies.items():
            if d in self.unknown:
                continue
            still |= _mentions(b['body'], self.unknown)
        # closure over helpers referenced from surviving helpers
        stack = list(still)
        while stack:
            x = stack.pop()
            for y in _mentions(f.bodies[x]['body'], self.unknown):
                if y not in still:
                    still.add(y)
                    stack.append(y)
        for h in self.unknown - still:
            if h in self.expanded:
                f.bodies.pop(h, None)
                f.hidden_fns[h] = f.fns.pop(h, None)

    def rewrite(self, node, owner):
        if isinstance(node, list):
            return [self.rewrite(x, owner) for x in node]
        if not isinstance(node, dict):
            return node
        k = node.get('k')
        if k == 'call':
            fnode = node.get('f', {})
            if isinstance(fnode, dict) and fnode.get('k') == 'path' and fnode.get('res') in ('Fn', 'AssocFn'):
                hs = [p for p in (fnode.get('resolved'), fnode.get('path')) if p in self.unknown]
                if hs and hs[0] != owner:
                    args = [self.rewrite(a, owner) for a in node.get('args', [])]
                    r = self.expand(hs[0], args, node, owner)
                    if r is not None:
                        return r
        if k == 'mcall':
            hs = [p for p in callee_all(node) if p in self.unknown]
            if hs and hs[0] != owner:
                args = [self.rewrite(node['recv'], owner)] + [self.rewrite(a, owner) for a in node.get('args', [])]
                r = self.expand(hs[0], args, node, owner)
                if r is not None:
                    return r
        if k == 'path' and node.get('res') in ('Fn', 'AssocFn'):
            hs = [p for p in (node.get('resolved'), node.get('path')) if p in self.unknown]
            if hs and hs[0] != owner:
                r = self.eta(hs[0], node, owner)
                if r is not None:
                    return r
        out = {}
        for key, v in node.items():
            if key == 'f' and k == 'call':
                # the callee position itself is handled above; other callee expressions are rewritten normally
                out[key] = self.rewrite(v, owner) if not (isinstance(v, dict) and v.get('k') == 'path') else v
            elif isinstance(v, (dict, list)):
                out[key] = self.rewrite(v, owner)
            else:
                out[key] = v
        return out

    def fresh_copy(self, helper):
        self.counter += 1
        suf = f'~{self.counter}'
        hb = self.f.bodies[helper]
        params = copy.deepcopy(hb.get('params', []))
        body = copy.deepcopy(hb['body'])
        names = set()
        for root in params + [body]:
            for n in walk(root):
                if n.get('k') == 'p_bind':
                    names.add(n['name'])
        for root in params + [body]:
            for n in walk(root):
                if n.get('k') == 'p_bind':
                    n['name'] = n['name'] + suf
                elif n.get('k') == 'path' and n.get('res') == 'Local' and n.get('path') in names:
                    n['path'] = n['path'] + suf
        return params, body

    def expand(self, helper, args, call_node, owner):
        params, body = self.fresh_copy(helper)
        if len(params) != len(args):
            return None
        lets = []
        for p, a in zip(params, args):
            if p.get('k') == 'p_bind' and 'sub' not in p and _substitutable(a):
                self.subst(body, p['name'], a)
            else:
                lets.append({'k': 'let', 'pat': p, 'init': a, 'l': call_node.get('l')})
        self.expanded.setdefault(helper, set()).add(owner)
        body = self.fold(body)
        return {'k': 'block', 'stmts': lets, 'expr': body, 't': call_node.get('t'), 'l': call_node.get('l'), 'inl': helper}

    def fold(self, node):
        """after substitution a selector parameter is a constant: `match Kind::A { Kind::A => x, Kind::B => y }` is `x`, and
        `if true { x } else { y }` is `x` (the merged helper reads like the function it was extracted from)"""
        if isinstance(node, list):
            return [self.fold(x) for x in node]
        if not isinstance(node, dict):
            return node
        node = {k: (self.fold(v) if isinstance(v, (dict, list)) else v) for k, v in node.items()}
        if node.get('k') == 'match' and not any(x in (node.get('src') or '') for x in ('TryDesugar', 'ForLoopDesugar')):
            sc = peel(node.get('scrut', {}))
            if sc.get('k') == 'path' and (sc.get('res') or '').startswith('Ctor') and 'Fn' not in (sc.get('res') or ''):
                for arm in node.get('arms', []):
                    pat = arm.get('pat', {})
                    pp = pat.get('path') or (pat.get('e') or {}).get('path')
                    if arm.get('guard') is not None:
                        break
                    if pat.get('k') in ('p_path', 'p_expr') and pp:
                        if pp == sc.get('path'):
                            return arm['body']
                        continue
                    if pat.get('k') == 'p_wild':
                        return arm['body']
                    break
        if node.get('k') == 'if':
            c = peel(node.get('cond', {}))
            if c.get('k') == 'lit' and c.get('lk') == 'bool':
                if c.get('v') is True or c.get('v') == 'true':
                    return node['then']
                if 'else' in node:
                    return node['else']
        return node

    def eta(self, helper, path_node, owner):
        params, body = self.fresh_copy(helper)
        self.expanded.setdefault(helper, set()).add(owner)
        return {'k': 'closure', 'params': params, 'body': body, 't': path_node.get('t'), 'l': path_node.get('l'), 'inl': helper}

    def subst(self, root, name, arg):
        """replace every use of local `name` below root by a copy of arg (in place)"""
        def rec(n):
            if isinstance(n, list):
                for i, x in enumerate(n):
                    if isinstance(x, dict) and x.get('k') == 'path' and x.get('res') == 'Local' and x.get('path') == name:
                        n[i] = copy.deepcopy(arg)
                    else:
                        rec(x)
            elif isinstance(n, dict):
                for key, v in list(n.items()):
                    if isinstance(v, dict) and v.get('k') == 'path' and v.get('res') == 'Local' and v.get('path') == name:
                        n[key] = copy.deepcopy(arg)
                    else:
                        rec(v)
        rec(root)
