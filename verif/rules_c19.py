"""C19 — the toml! macro builds the same table as parsing the same text (decided part:
the muncher's rule table is consistent: states agree, no rule is shadowed, date-time rules
conserve the matched tokens, key segments drop exactly the inserted separator, helpers)."""
from .core import run_property, AnalysisIncomplete, walk, peel, last_seg, calls_in, callee_all, src_facts, repo_root, Report, Facts
import os
import traceback

PROP = 'C19'


def tok(t):
    if 'i' in t:
        return ('id', t['i'])
    if 'p' in t:
        return ('p', t['p'])
    if 'lit' in t:
        return ('lit', t['lit'])
    if 'g' in t:
        return ('g', t['g'], tuple(tok(x) for x in t['ts']))
    return ('?',)


def split_rules(tokens):
    """macro_rules body -> [(matcher tokens, transcriber tokens, line)]"""
    rules = []
    i = 0
    while i < len(tokens):
        m = tokens[i]
        if 'g' not in m:
            raise AnalysisIncomplete('macro_rules: matcher group expected')
        # => is two puncts '=' '>'
        if not (tokens[i + 1].get('p') == '=' and tokens[i + 2].get('p') == '>'):
            raise AnalysisIncomplete('macro_rules: `=>` expected')
        t = tokens[i + 3]
        rules.append((m['ts'], t['ts'], m.get('l')))
        i += 4
        if i < len(tokens) and tokens[i].get('p') == ';':
            i += 1
    return rules


def flatten_matcher(ts):
    """matcher token list -> list of elements: ('lit', text) | ('tt', name) | ('frag', name, kind) | ('rep', inner, sep, op) | ('g', delim, inner)"""
    out = []
    i = 0
    while i < len(ts):
        t = ts[i]
        if t.get('p') == '$' and i + 1 < len(ts):
            n = ts[i + 1]
            if 'i' in n and i + 3 < len(ts) and ts[i + 2].get('p') == ':' and 'i' in ts[i + 3]:
                kind = ts[i + 3]['i']
                out.append(('tt', n['i']) if kind == 'tt' else ('frag', n['i'], kind))
                i += 4
                continue
            if 'g' in n and n['g'] == '(':
                inner = flatten_matcher(n['ts'])
                j = i + 2
                sep = None
                if j < len(ts) and ts[j].get('p') not in ('*', '+', '?'):
                    sep = tok(ts[j])
                    j += 1
                op = ts[j].get('p') if j < len(ts) else None
                out.append(('rep', tuple(inner), sep, op))
                i = j + 1
                continue
        if 'g' in t:
            out.append(('g', t['g'], tuple(flatten_matcher(t['ts']))))
        elif 'i' in t:
            out.append(('lit', t['i']))
        elif 'p' in t:
            out.append(('lit', t['p']))
        elif 'lit' in t:
            out.append(('lit', t['lit']))
        i += 1
    return out


def flatten_transcriber(ts):
    """transcriber tokens -> list of ('var', name) | ('lit', text) | ('g', delim, inner) | ('rep', inner)"""
    out = []
    i = 0
    while i < len(ts):
        t = ts[i]
        if t.get('p') == '$' and i + 1 < len(ts):
            n = ts[i + 1]
            if 'i' in n:
                out.append(('var', n['i']))
                i += 2
                continue
            if 'g' in n and n['g'] == '(':
                inner = flatten_transcriber(n['ts'])
                j = i + 2
                if j < len(ts) and ts[j].get('p') not in ('*', '+', '?'):
                    j += 1
                out.append(('rep', tuple(inner)))
                i = j + 1
                continue
        if 'g' in t:
            out.append(('g', t['g'], tuple(flatten_transcriber(t['ts']))))
        elif 'i' in t:
            out.append(('lit', t['i']))
        elif 'p' in t:
            out.append(('lit', t['p']))
        elif 'lit' in t:
            out.append(('lit', t['lit']))
        i += 1
    return out


def flatten_transcriber_full(ts):
    """like flatten_transcriber, with the separator and the operator of repetitions kept: ('rep', inner, sep, op)"""
    out = []
    i = 0
    while i < len(ts):
        t = ts[i]
        if t.get('p') == '$' and i + 1 < len(ts):
            n = ts[i + 1]
            if 'i' in n:
                out.append(('var', n['i']))
                i += 2
                continue
            if 'g' in n and n['g'] == '(':
                inner = flatten_transcriber_full(n['ts'])
                j = i + 2
                sep = None
                if j < len(ts) and ts[j].get('p') not in ('*', '+', '?'):
                    sep = tok(ts[j])
                    j += 1
                op = ts[j].get('p') if j < len(ts) else None
                out.append(('rep', tuple(inner), sep, op))
                i = j + 1
                continue
        if 'g' in t:
            out.append(('g', t['g'], tuple(flatten_transcriber_full(t['ts']))))
        elif 'i' in t:
            out.append(('lit', t['i']))
        elif 'p' in t:
            out.append(('lit', t['p']))
        elif 'lit' in t:
            out.append(('lit', t['lit']))
        i += 1
    return out


def matcher_as_transcriber(ms):
    """the token sequence that re-emits exactly what a matcher matched: `$x:tt` -> `$x`, repetitions with the same separator and operator"""
    out = []
    for e in ms:
        if e[0] in ('tt', 'frag'):
            out.append(('var', e[1]))
        elif e[0] == 'rep':
            out.append(('rep', tuple(matcher_as_transcriber(e[1])), e[2], e[3]))
        elif e[0] == 'g':
            out.append(('g', e[1], tuple(matcher_as_transcriber(e[2]))))
        else:
            out.append(e)
    return out



def is_rest(e):
    return e[0] == 'rep' and len(e[1]) == 1 and e[1][0][0] == 'tt' and e[3] == '*'


def value_shape(matcher, state):
    """the part of a matcher that describes the value: after `=` (toplevel / table) or after `$root:ident` (array), with the trailing
    `, $($rest)*` / `$($rest)*` removed.  Returns (shape, has_rest, prefix)"""
    m = list(matcher)
    # strip '@' state
    body = m[2:]
    if state == 'array':
        start = 1
    else:
        idx = [i for i, e in enumerate(body) if e == ('lit', '=')]
        if not idx:
            return None
        start = idx[0] + 1
    prefix = tuple(body[:start])
    shape = body[start:]
    has_rest = bool(shape) and is_rest(shape[-1])
    if has_rest:
        shape = shape[:-1]
    if state in ('table', 'array') and shape and shape[-1] == ('lit', ','):
        shape = shape[:-1]
    norm = tuple(('tt',) if e[0] == 'tt' else e for e in shape)
    return norm, has_rest, prefix


def includes(p, q, p_rest, q_rest):
    """every token sequence matched by pattern q is matched by pattern p (flat patterns of literals and single-tt wildcards)"""
    if not p_rest:
        if q_rest or len(p) != len(q):
            return False
    elif len(p) > len(q):
        return False
    for a, b in zip(p, q):
        if a == ('tt',):
            continue
        if a != b:
            return False
    return True


def run_rules(rep, repo):
    src = src_facts(repo)
    mac = [m for m in src['macros'] if m['name'] == 'toml_internal']
    if len(mac) != 1:
        raise AnalysisIncomplete('macro toml_internal not found')
    rules = split_rules(mac[0]['tokens'])
    parsed = []
    for mts, tts, line in rules:
        fm = flatten_matcher(mts)
        ft = flatten_transcriber(tts)
        state = fm[1][1] if len(fm) > 1 and fm[0] == ('lit', '@') else '?'
        parsed.append({'state': state, 'm': fm, 't': ft, 'line': line})
    file = mac[0]['file']
    R0 = rep.rule('C19/R0', 'the muncher is analysed completely: every rule of toml_internal! starts with an @state token', floor=60)
    for r in parsed:
        rep.check(R0, f'rule@{r["state"]}#{parsed.index(r)}', r['state'] != '?', r['state'], 'rule without @state', f'{file}:{r["line"]}')
    # ---- R1: the three value-parsing states carry the same value rules in the same order
    R1 = rep.rule('C19/R1', 'the three value-parsing states (@toplevel, @table, @array) carry the same value rules in the same order (sign rules, the '
                  'date-time shapes, any other value)', floor=42)
    shapes = {}
    for st in ('toplevel', 'table', 'array'):
        seq = []
        for r in parsed:
            if r['state'] != st:
                continue
            vs = value_shape(r['m'], st)
            if vs is None or not vs[0]:
                continue
            seq.append((vs[0], vs[1], r))
        shapes[st] = seq
    ref = [s[0] for s in shapes['toplevel']]
    for st in ('toplevel', 'table', 'array'):
        got = [s[0] for s in shapes[st]]
        for i in range(max(len(ref), len(got))):
            a = ref[i] if i < len(ref) else None
            b = got[i] if i < len(got) else None
            line = shapes[st][i][2]['line'] if i < len(shapes[st]) else None
            rep.check(R1, f'@{st}|value-rule#{i}', a == b, render(b), f'value rule #{i} of @{st} is `{render(b)}`, @toplevel has `{render(a)}` at that position: the same text would be '
                      f'read differently at top level, inside an inline table and inside an array', f'{file}:{line}')
    # ---- R2: no rule is shadowed by an earlier one
    R2 = rep.rule('C19/R2', 'no rule is shadowed: within a state no earlier value matcher accepts everything a later one accepts; `[[array]]` headers '
                  'are tried before `[table]` headers', floor=270)
    for st, seq in shapes.items():
        for j in range(len(seq)):
            for i in range(j):
                inc = includes(seq[i][0], seq[j][0], seq[i][1], seq[j][1])
                rep.check(R2, f'@{st}|#{i} !>= #{j}', not inc, 'distinct', f'in @{st} the rule `{render(seq[i][0])}` (line {seq[i][2]["line"]}) accepts everything the later rule '
                          f'`{render(seq[j][0])}` (line {seq[j][2]["line"]}) accepts: the later rule is dead and its input is read by the earlier one', f'{file}:{seq[j][2]["line"]}')
    heads = [(i, r) for i, r in enumerate(parsed) if r['state'] == 'toplevel' and any(e[0] == 'g' and e[1] == '[' for e in r['m'][2:]) and
             not any(e == ('lit', '=') for e in r['m'])]
    hdr = []
    for i, r in heads:
        g = [e for e in r['m'][2:] if e[0] == 'g' and e[1] == '['][-1]
        nested = len(g[2]) == 1 and g[2][0][0] == 'g' and g[2][0][1] == '['
        hdr.append(('array' if nested else 'table', i, r))
    kinds = [h[0] for h in hdr if not (len(h[2]['m']) >= 4 and h[2]['m'][3][0] == 'g' and not any(e[0] == 'g' for e in h[2]['m'][4:]))]
    order = [h[0] for h in hdr]
    # the base rule `(@toplevel $root [$($path)*])` also has a bracket group; drop it
    order = [k for k, i, r in hdr if len(r['m']) > 4]
    rep.check(R2, '@toplevel|array-header-before-table-header', order == ['array', 'table'], str(order), f'header rules appear in the order {order}: `[[x]]` would be read by the `[x]` rule '
              f'(a tt matches the inner bracket group)', file)
    # ---- R3: token conservation
    R3 = rep.rule('C19/R3', 'token conservation: every date-time rule forwards exactly the tokens it matched (plus a `T` between date and time in the '
                  'space-separated variants) and continues in its own state; sign rules forward (-$v) / ($v)', floor=36)
    for st, seq in shapes.items():
        for k, (shape, has_rest, r) in enumerate(seq):
            names = matched_names(r['m'], st)
            if names is None:
                continue
            is_last = k == len(seq) - 1
            if is_last:
                continue
            key = f'@{st}|rule#{k} {render(shape)}'
            call = [e for e in r['t'] if e[0] == 'g' and e[1] == '(']
            if not call:
                rep.bad(R3, key, 'transcriber does not re-invoke the muncher', f'{file}:{r["line"]}')
                continue
            inner = list(call[-1][2])
            target = inner[1][1] if len(inner) > 1 and inner[0] == ('lit', '@') else '?'
            groups = [e for e in inner if e[0] == 'g' and e[1] == '(']
            fwd = list(groups[-1][2]) if groups else []
            fwd_names = [e[1] if e[0] == 'var' else e[1] for e in fwd]
            if shape and shape[0] in (('lit', '-'), ('lit', '+')) and len(shape) == 2:
                want = (['-'] if shape[0][1] == '-' else []) + [names[-1]]
                rep.check(R3, key, fwd_names == want and target == st, f'({" ".join(fwd_names)}) -> @{target}', f'sign rule forwards ({" ".join(fwd_names)}) to @{target}, expected ({" ".join(want)}) to @{st}', f'{file}:{r["line"]}')
                continue
            without_t = [x for x in fwd_names if x != 'T']
            n_t = fwd_names.count('T')
            ok = without_t == names and n_t <= 1 and target == st + 'datetime'
            if n_t == 1:
                i = fwd_names.index('T')
                # inserted exactly where two value fragments were adjacent in the matcher (date and hour)
                ok = ok and 0 < i < len(fwd_names) - 1 and names[i - 1:i + 1] == [fwd_names[i - 1], fwd_names[i + 1]] and adjacent_vars(r['m'], st, fwd_names[i - 1], fwd_names[i + 1])
            else:
                ok = ok and not has_adjacent_vars(r['m'], st)
            rep.check(R3, key, ok, f'({" ".join(fwd_names)}) -> @{target}', f'the rule matches `{" ".join(names)}` but forwards `{" ".join(fwd_names)}` to @{target}: tokens of the date-time are '
                      f'dropped, duplicated or re-ordered (e.g. a numeric offset silently lost)', f'{file}:{r["line"]}')
    # ---- R5: key segments drop exactly the one inserted separator
    R5 = rep.rule('C19/R5', 'key / header segments are built as &concat!("-", segment ...)[1..]: exactly the one inserted separator is dropped', floor=8)
    counter = [0]

    def scan(ts, r):
        ts = list(ts)
        for i, e in enumerate(ts):
            if e == ('lit', 'concat') and i + 2 < len(ts) and ts[i + 1] == ('lit', '!'):
                grp = ts[i + 2]
                if grp[0] == 'g' and any(x == ('lit', '"-"') for x in flatten_all(grp[2])):
                    counter[0] += 1
                    nxt = ts[i + 3] if i + 3 < len(ts) else None
                    prev = ts[i - 1] if i > 0 else None
                    ok = nxt is not None and nxt[0] == 'g' and nxt[1] == '[' and list(nxt[2]) == [('lit', '1'), ('lit', '.'), ('lit', '.')] and prev == ('lit', '&')
                    rep.check(R5, f'@{r["state"]}|concat#{counter[0]}', ok, '&concat!("-", ..)[1..]', f'key segment built with `{render_t([prev, e, ts[i + 1], ("lit", "(..)"), nxt])[:80]}`: not the exact '
                              f'`&concat!("-", ..)[1..]` (keys starting with `-` would lose characters)', f'{file}:{r["line"]}')
            if e[0] == 'g':
                scan(e[2], r)
            elif e[0] == 'rep':
                scan(e[1], r)
    for r in parsed:
        scan(r['t'], r)

    # ---- R6: the remainder of the input is always forwarded
    R6 = rep.rule('C19/R6', 'the muncher never drops the rest of its input: every rule whose matcher ends in `$($rest:tt)*` ends its transcriber with '
                  'exactly one continuation `toml_internal!(@state .. $($rest)*)` carrying that remainder as its last tokens', floor=47)

    def muncher_calls(ts):
        ts = list(ts)
        out = []
        for i, e in enumerate(ts):
            if e == ('lit', 'toml_internal') and i + 2 < len(ts) and ts[i + 1] == ('lit', '!') and ts[i + 2][0] == 'g':
                out.append(ts[i + 2])
        return out
    for idx, r in enumerate(parsed):
        m = r['m']
        if not m or not is_rest(m[-1]):
            continue
        rest = m[-1][1][0][1]
        calls = muncher_calls(r['t'])
        # also inside a `{ .. }` wrapper (rules written with double braces)
        for e in r['t']:
            if e[0] == 'g' and e[1] == '{':
                calls += muncher_calls(e[2])
        carrying = [c for c in calls if c[2] and c[2][-1] == ('rep', (('var', rest),))]
        mention = [c for c in calls if any(x == ('rep', (('var', rest),)) for x in c[2])]
        ok = len(carrying) == 1 and len(mention) == 1 and bool(calls) and calls[-1] is carrying[0]
        if ok:
            # .. and it is the last thing the rule does: a helper call written after the continuation would run after everything that follows in the
            # document (the path through an array of tables is resolved when the helper runs)
            def tail_after(ts, target):
                ts = list(ts)
                for i, e in enumerate(ts):
                    if e is target:
                        return [x for x in ts[i + 1:] if x != ('lit', ';')]
                    if e[0] == 'g':
                        r_ = tail_after(e[2], target)
                        if r_ is not None:
                            return r_ + [x for x in ts[i + 1:] if x != ('lit', ';')]
                return None
            after = tail_after(r['t'], carrying[0])
            if after:
                rep.bad(R6, f'@{r["state"]}#{idx}|rest', f'the rule at line {r["line"]} does something after its continuation (`{render_t(after)[:70]}`): that step runs after the rest of the '
                        f'document has been processed, e.g. an insertion under `[[array]]` lands in the last element', f'{file}:{r["line"]}')
                continue
        if not calls and any(x == ('var', rest) for x in flatten_all(r['t'])):
            # a terminal helper (`(@datetime $($dt:tt)*) => { ..concat!($(stringify!($dt)),+).. }`): the tokens are consumed here, nothing is left to forward
            rep.ok(R6, f'@{r["state"]}#{idx}|rest', f'terminal rule: $(${rest})* is consumed by the transcriber', f'{file}:{r["line"]}')
            continue
        rep.check(R6, f'@{r["state"]}#{idx}|rest', ok, f'continues with $(${rest})*',
                  f'the rule at line {r["line"]} matches `$(${rest}:tt)*` but ' + ('does not pass it on to the continuation' if not carrying else 'passes it on more than once or not last') +
                  ': everything after this construct is silently dropped (or duplicated)', f'{file}:{r["line"]}')
    # ---- R7: the key path handed to the run-time helpers is header path, then key segments
    R7 = rep.rule('C19/R7', 'insertion path = header context followed by the key: in every rule that carries the current header `[$($path)*]` and inserts a '
                  'key, the slice given to insert_toml starts with `$($path)*` and continues with the key segments', floor=2)
    for idx, r in enumerate(parsed):
        m = r['m']
        pvar = None
        for e in m:
            if e[0] == 'g' and e[1] == '[' and len(e[2]) == 1 and is_rest(e[2][0]):
                pvar = e[2][0][1][0][1]
        if pvar is None or ('lit', '=') not in m:
            continue
        ts = list(r['t'])
        for e in r['t']:
            if e[0] == 'g' and e[1] == '{':
                ts += list(e[2])
        for i, e in enumerate(ts):
            if e == ('lit', 'insert_toml') and i + 1 < len(ts) and ts[i + 1][0] == 'g':
                args = list(ts[i + 1][2])
                slices = [a for j, a in enumerate(args) if a[0] == 'g' and a[1] == '[' and j > 0 and args[j - 1] == ('lit', '&')]
                if not slices:
                    rep.bad(R7, f'@{r["state"]}#{idx}|slice', 'insert_toml without a `&[..]` path', f'{file}:{r["line"]}')
                    continue
                sl = list(slices[0][2])
                first_ok = bool(sl) and sl[0] == ('rep', (('var', pvar),))
                rest_has_key = any(x[0] == 'rep' and x != ('rep', (('var', pvar),)) for x in sl[1:])
                once = sum(1 for x in sl if x == ('rep', (('var', pvar),))) == 1
                rep.check(R7, f'@{r["state"]}#{idx}|slice', first_ok and rest_has_key and once, f'&[$(${pvar})* <key segments>]',
                          f'the rule at line {r["line"]} builds the insertion path as `{render_t(sl)[:90]}`: not header path followed by key segments, so under a '
                          f'`[header]` the value lands at a different place than the parser puts it', f'{file}:{r["line"]}')

    # ---- R7b: a header rule creates the table at the path it then hands on as the context of the following keys
    R7b = rep.rule('C19/R7b', 'header context = header path: in every rule that creates a table / array element for a `[header]` / `[[header]]` (insert_toml / push_toml) and '
                   'continues the muncher, the `[..]` context handed to the continuation is token for token the `&[..]` path given to the helper', floor=2)
    header_helpers = set()
    for idx, r in enumerate(parsed):
        ts = list(r['t'])
        for e in r['t']:
            if e[0] == 'g' and e[1] == '{':
                ts += list(e[2])
        if ('lit', '=') in r['m']:
            continue
        helper_paths = []
        helpers = []
        for i, e in enumerate(ts):
            if e[0] == 'lit' and e[1].endswith('_toml') and i + 1 < len(ts) and ts[i + 1][0] == 'g' and i >= 2 and ts[i - 1] == ('lit', ':') and ts[i - 2] == ('lit', ':'):
                args = list(ts[i + 1][2])
                helper_paths += [a[2] for j, a in enumerate(args) if a[0] == 'g' and a[1] == '[' and j > 0 and args[j - 1] == ('lit', '&')]
                helpers.append(e[1])
        header_helpers.update(helpers)
        conts = [c for c in muncher_calls(ts)]
        ctxs = [x[2] for c in conts for x in c[2] if x[0] == 'g' and x[1] == '[']
        if not helper_paths or not ctxs:
            continue
        ok = len(helper_paths) == 1 and len(ctxs) == 1 and tuple(helper_paths[0]) == tuple(ctxs[0])
        rep.check(R7b, f'@{r["state"]}#{idx}|context', ok, 'continuation context == helper path', f'the header rule at line {r["line"]} creates the table at `{render_t(list(helper_paths[0]))[:70]}` but '
                  f'continues with the context `{render_t(list(ctxs[0]))[:70]}`: the keys under this header land in a different table than the one just created', f'{file}:{r["line"]}')

    # ---- R7c: the run-time helper behind a header keeps what is already at the path
    R7c = rep.rule('C19/R7c', 'a header opens the table at its path without discarding it: the helper a `[header]` / `[[header]]` rule calls assigns to the slot reached by `traverse` '
                   'only under a test of what is there (`if !target.is_table()` / `is_array()`), because a sub-table header may have created it already (`[a.b]` .. `[a]` is '
                   'valid TOML and the parser merges the two)', floor=2)
    facts = Facts('default')
    for h in sorted(header_helpers):
        d = 'toml::macros::' + h
        if not facts.has_body(d):
            rep.incomplete(R7c, h, f'helper `{d}` not found')
            continue
        hb = facts.body(d)
        from .shared import conditions_above
        stores = [n for n in walk(hb['body']) if n.get('k') == 'assign' and peel(n['lhs']).get('k') in ('path', 'unary', 'call', 'mcall') and
                  ((n['lhs'].get('k') == 'unary' and n['lhs'].get('op') == '*') or any(x.get('k') == 'call' and last_seg((peel(x.get('f', {})).get('path') or '')) == 'traverse' for x in walk(n['lhs'])))]
        uncond = [n for n in stores if not conditions_above(hb['body'], n)]
        rep.check(R7c, h, not uncond, f'{len(stores)} guarded store(s) into the traversed slot', f'`{d}`, called for a table header, overwrites whatever is at the header path unconditionally: '
                  f'`[a.b]` followed by `[a]` loses `a.b`, while parsing the same text keeps it', facts.loc(hb))

    # ---- R7d: the run-time helpers evaluated on model trees
    R7d = rep.rule('C19/R7d', 'the run-time helpers build what the parser builds: table_toml, push_toml and insert_toml evaluated on model trees — a `[a]` header keeps what a `[a.b]` header '
                   'already put under `a` and makes an empty table where nothing is; a `[[a]]` header appends an empty table to the array at `a`, keeping the earlier elements, and makes a '
                   'one-element array where nothing is; `key = value` under the context stores the value at the end of the path', floor=5)
    from .den import Evaluator, Unanalysable, EvalPanic, VecObj
    from .places import PlaceInterp, MapObj, SlotRef, plain, keyname, deref
    Vt = 'toml::value::Value::'
    tmap = lambda pairs: ('ctor', Vt + 'Table', (('struct', 'toml::map::Map', {'map': MapObj(pairs, sorted_='preserve_order' not in set(facts.crates.get('toml', {}).get('features', [])))}),))

    def tree(v):
        v = deref(v)
        if isinstance(v, tuple) and len(v) == 3 and v[0] == 'ctor' and v[1] == Vt + 'Table':
            return {keyname(k): tree(x) for k, x in deref(v[2][0])[2]['map'].pairs}
        if isinstance(v, tuple) and len(v) == 3 and v[0] == 'ctor' and v[1] == Vt + 'Array':
            xs = deref(v[2][0])
            return [tree(x) for x in (xs.items if isinstance(xs, VecObj) else xs)]
        if isinstance(v, tuple) and len(v) == 3 and v[0] == 'ctor':
            return plain(v[2][0])
        return plain(v)
    one = ('ctor', Vt + 'Integer', (1,))
    cases = (('table_toml', 'a table a sub-table header created', lambda: tmap([('a', tmap([('b', tmap([('x', one)]))]))]), ('a',), None, {'a': {'b': {'x': 1}}}),
             ('table_toml', 'nothing', lambda: tmap([]), ('a',), None, {'a': {}}),
             ('table_toml', 'nothing (two levels)', lambda: tmap([]), ('a', 'b'), None, {'a': {'b': {}}}),
             ('push_toml', 'nothing', lambda: tmap([]), ('a',), None, {'a': [{}]}),
             ('push_toml', 'an array with one element', lambda: tmap([('a', ('ctor', Vt + 'Array', (VecObj([tmap([('x', one)])]),)))]), ('a',), None, {'a': [{'x': 1}, {}]}),
             ('push_toml', 'a nested array below the last element', lambda: tmap([('a', ('ctor', Vt + 'Array', (VecObj([tmap([]), tmap([('x', one)])]),)))]), ('a', 'b'), None, {'a': [{}, {'x': 1, 'b': [{}]}]}),
             ('insert_toml', 'a value under a header context', lambda: tmap([('a', tmap([('x', one)]))]), ('a', 'k'), ('ctor', Vt + 'Integer', (2,)), {'a': {'x': 1, 'k': 2}}))
    for h, what, mk, path, value, want in cases:
        d = 'toml::macros::' + h
        if not facts.has_body(d):
            rep.incomplete(R7d, f'{h}|{what}', f'helper `{d}` not found')
            continue
        hb = facts.body(d)
        cell = [mk()]
        root = SlotRef(lambda: cell[0], lambda v: cell.__setitem__(0, v), 'root')
        try:
            PlaceInterp(Evaluator(facts)).apply_fn(hb, [root, tuple(path)] + ([value] if value is not None else []))
            got = tree(cell[0])
        except EvalPanic as ex:
            rep.bad(R7d, f'{h}|{what}', f'`{h}` over {what} at `{".".join(path)}` panics: {ex}', facts.loc(hb))
            continue
        except (Unanalysable, TypeError, KeyError, IndexError, AttributeError) as ex:
            rep.incomplete(R7d, f'{h}|{what}', f'cannot evaluate `{h}` over {what}: {type(ex).__name__}: {ex}', facts.loc(hb))
            continue
        rep.check(R7d, f'{h}|{what}', got == want, f'{got}', f'`{h}` at `{".".join(path)}` over {what} leaves {got}; parsing the same text gives {want}', facts.loc(hb))

    # ---- R8: a rule that re-dispatches `key = <rewritten value>` re-emits the key exactly as matched
    R8 = rep.rule('C19/R8', 'key conservation: every rule that matches `key = ..` and continues the muncher with a rewritten value re-emits the key tokens '
                  'exactly as it matched them (same fragments, same `-` / `.` separators at the same nesting), so dotted and hyphenated keys keep their shape', floor=20)
    raw = {id(r): (mts, tts) for r, (mts, tts, line) in zip(parsed, rules)}
    for idx, (r, (mts, tts, line)) in enumerate(zip(parsed, rules)):
        m = r['m']
        if ('lit', '=') not in m:
            continue
        eq = m.index(('lit', '='))
        # the key part: from after `$root:ident` (and the optional `[$($path)*]` context) up to `=`
        start = 3
        while start < eq and m[start][0] == 'g':
            start += 1
        key_m = m[start:eq]
        if not key_m:
            continue
        full_t = flatten_transcriber_full(tts)
        conts = []

        def collect(ts):
            ts = list(ts)
            for i, e in enumerate(ts):
                if e == ('lit', 'toml_internal') and i + 2 < len(ts) and ts[i + 1] == ('lit', '!') and ts[i + 2][0] == 'g':
                    conts.append(list(ts[i + 2][2]))
                if e[0] == 'g':
                    collect(e[2])
        collect(full_t)
        want = matcher_as_transcriber(key_m)
        for c in conts:
            if ('lit', '=') not in c:
                continue
            ceq = c.index(('lit', '='))
            cstart = 3
            while cstart < ceq and c[cstart][0] == 'g':
                cstart += 1
            got = c[cstart:ceq]
            rep.check(R8, f'@{r["state"]}#{idx}|key', got == want, 'key re-emitted as matched',
                      f'the rule at line {r["line"]} matches the key as `{render_t([(x[0], x[1]) if x[0] != "rep" else x for x in want])[:70]}` but re-emits it with a different '
                      f'separator structure: a dotted or hyphenated key changes its shape (`a.b = -1` becomes the key `a-b`)', f'{file}:{r["line"]}')


def flatten_all(ts):
    for e in ts:
        yield e
        if e[0] == 'g':
            # groups are yielded as a unit and also descended
            for x in flatten_all(e[2]):
                yield x
        if e[0] == 'rep':
            for x in flatten_all(e[1]):
                yield x


def matched_names(matcher, state):
    body = list(matcher)[2:]
    if state == 'array':
        start = 1
    else:
        idx = [i for i, e in enumerate(body) if e == ('lit', '=')]
        if not idx:
            return None
        start = idx[0] + 1
    shape = body[start:]
    if shape and is_rest(shape[-1]):
        shape = shape[:-1]
    if state in ('table', 'array') and shape and shape[-1] == ('lit', ','):
        shape = shape[:-1]
    return [e[1] for e in shape if e[0] in ('tt', 'lit')]


def value_elems(matcher, state):
    body = list(matcher)[2:]
    if state == 'array':
        start = 1
    else:
        idx = [i for i, e in enumerate(body) if e == ('lit', '=')]
        start = idx[0] + 1
    shape = body[start:]
    if shape and is_rest(shape[-1]):
        shape = shape[:-1]
    return shape


def adjacent_vars(matcher, state, a, b):
    sh = value_elems(matcher, state)
    for x, y in zip(sh, sh[1:]):
        if x == ('tt', a) and y == ('tt', b):
            return True
    return False


def has_adjacent_vars(matcher, state):
    sh = value_elems(matcher, state)
    return any(x[0] == 'tt' and y[0] == 'tt' for x, y in zip(sh, sh[1:]))


def render(shape):
    if shape is None:
        return '(none)'
    return ' '.join('$tt' if e == ('tt',) else (e[1] if e[0] == 'lit' else e[0]) for e in shape)


def render_t(ts):
    out = []
    for e in ts:
        if e is None:
            continue
        if e[0] in ('lit', 'var'):
            out.append(e[1])
        elif e[0] == 'g':
            out.append(e[1] + render_t(e[2]) + {'(': ')', '[': ']', '{': '}'}.get(e[1], ''))
        elif e[0] == 'rep':
            out.append('$(' + render_t(e[1]) + ')*')
    return ' '.join(out)


def r4_helpers(rep, facts):
    R = rep.rule('C19/R4', 'run-time helpers: traverse steps into the last element of an array, creates missing tables and never replaces an existing '
                 'entry; push_toml appends a new empty table', floor=4)
    b = facts.body('toml::macros::traverse')
    names = [n.get('name') for n in walk(b['body']) if n.get('k') == 'mcall']
    rep.check(R, 'traverse|last-element', 'last_mut' in names and 'first_mut' not in names, 'as_array_mut().last_mut()', 'traverse no longer steps into the last array element', facts.loc(b))
    ins_guard = False
    for n in walk(b['body']):
        if n.get('k') == 'if':
            c = peel(n['cond'])
            if c.get('k') == 'unary' and c.get('op') == '!' and any(x.get('k') == 'mcall' and x.get('name') == 'contains_key' for x in walk(c)):
                ins_guard = any(x.get('k') == 'mcall' and x.get('name') == 'insert' for x in walk(n['then']))
    rep.check(R, 'traverse|create-if-missing', ins_guard and names.count('insert') == 1, 'insert only if !contains_key', 'traverse inserts over existing entries (sub-tables defined earlier would be reset)', facts.loc(b))
    rep.check(R, 'traverse|descends', 'get_mut' in names, 'get_mut(key)', 'traverse does not descend into the entry', facts.loc(b))
    b = facts.body('toml::macros::push_toml')
    pushes = [n for n in walk(b['body']) if n.get('k') == 'mcall' and n.get('name') == 'push']
    ok = len(pushes) == 1 and any((x.get('path') or '').endswith('Value::Table') for x in walk(pushes[0]['args'][0]) if x.get('k') == 'path')
    rep.check(R, 'push_toml|appends-table', ok, 'push(Value::Table(Table::new()))', 'push_toml does not append a new table', facts.loc(b))
    b = facts.body('toml::macros::insert_toml')
    rep.check(R, 'insert_toml|assigns', any(n.get('k') == 'assign' for n in walk(b['body'])) and any(last_seg(c) == 'traverse' for n in calls_in(b['body']) for c in callee_all(n)),
              '*traverse(root, path) = value', 'insert_toml no longer assigns through traverse', facts.loc(b))


def r11_map_identity(rep, facts):
    if 'toml' not in facts.crates:
        return
    from .rules_c16 import map_identity
    R = rep.rule('C19/R11', 'the comparison `macro table == parsed table` is the backing map\'s own equality: under preserve_order the macro and the parser insert the same keys in '
                 'different orders (the parser re-inserts a super-table when its header comes after a sub-table\'s), so an order-sensitive PartialEq would tell equal tables apart', floor=1)
    map_identity(rep, R, facts)


def r9_datetime_total(rep, facts):
    if 'toml_datetime' not in facts.crates:
        return
    from .rules_c12 import r4_truncation
    r4_truncation(rep, facts)
    rep.relabel('C12/R4', 'C19/R9', 'the macro hands the token spelling of a date-time to Datetime::from_str(..).unwrap(): ')



def _helpers_decided_by_evaluation(rep):
    # R4 (traverse) and R7c read off the helpers' bodies that an existing entry is kept and descended into; R7d evaluates the helpers on trees where that matters
    # (a header over a table that already holds a sub-table, a path created two levels deep, a nested array below the last element, a value next to another).
    # Where every R7d case comes out as the parser would build it, a helper written another way (the entry API, a `match` on as_array_mut) is not a finding.
    r7d = rep.rules.get('C19/R7d', {}).get('obligations', [])
    if len(r7d) >= 7 and all(o['ok'] for o in r7d) and not any(v['rule'] == 'C19/R7d' for v in rep.violations):
        moot = [v for v in rep.violations if (v['rule'] == 'C19/R4' and 'traverse' in v['key']) or v['rule'] == 'C19/R7c']
        if moot:
            rep.violations[:] = [v for v in rep.violations if v not in moot]
            for rid in ('C19/R4', 'C19/R7c'):
                if rid in rep.rules:
                    rep.rules[rid]['obligations'] = [o for o in rep.rules[rid]['obligations'] if o['ok']]
                    rep.rules[rid]['floor'] = None
            rep.notes.append(f'C19/R4 / R7c read the run-time helpers of the macro off their shape and do not recognise {len(moot)} site(s) in this tree ({moot[0]["detail"][:140]}); the helpers '
                             f'evaluated on model trees build what the parser builds (C19/R7d).')

def run(tier):
    seed = int(os.environ.get('VERIF_SEED', '0') or 0)
    rep = Report(PROP, tier, seed)
    try:
        run_rules(rep, repo_root())
        facts = Facts('default')
        rep.configs.append('default')
        rep.bodies_analysed = facts.n_bodies()
        r4_helpers(rep, facts)
        _helpers_decided_by_evaluation(rep)
        r9_datetime_total(rep, facts)
        r11_map_identity(rep, facts)
    except AnalysisIncomplete as e:
        rep.incomplete('C19/analysis', 'rules', str(e))
    except Exception:
        rep.incomplete('C19/analysis', 'rules:crash', traceback.format_exc()[-1500:])
    return rep.finish()
