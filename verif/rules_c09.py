"""C09 — no key or table definition is ever silently overwritten or merged (decided
part: vacant-only insertion, occupied => error, guard truth tables, twins agree)."""
from .core import run_property, AnalysisIncomplete, walk, peel, last_seg, calls_in, callee_all, strip_generics
from .den import truth_table, Evaluator, Unanalysable, Interp

PROP = 'C09'
P = 'toml_edit::parser::'
ST = P + 'state::ParseState::'

MUT_SEGS = {'insert', 'insert_formatted', 'insert_full', 'remove', 'remove_entry', 'shift_remove', 'shift_remove_entry', 'shift_remove_full',
            'swap_remove', 'swap_remove_entry', 'retain', 'clear', 'make_item', 'make_value', 'into_table', 'into_inline_table', 'into_array',
            'into_array_of_tables', 'into_value', 'push', 'push_formatted', 'replace', 'replace_formatted', 'sort_values', 'sort_by', 'sort_keys',
            'or_insert', 'or_insert_with', 'or_default', 'entry', 'entry_format', 'get_mut', 'get_or_insert', 'get_key_value_mut', 'into_mut',
            'as_array_of_tables_mut', 'as_table_mut', 'as_value_mut', 'as_inline_table_mut', 'as_table_like_mut', 'as_array_mut',
            'index_mut', 'swap', 'take', 'truncate', 'pop', 'extend', 'append', 'drain', 'iter_mut', 'values_mut', 'set_implicit', 'set_dotted'}
TREE_PREFIXES = ('toml_edit::table::', 'toml_edit::inline_table::', 'toml_edit::item::', 'toml_edit::array::', 'toml_edit::array_of_tables::',
                 'toml_edit::value::', 'indexmap::', 'core::mem::', 'toml_edit::index::', 'core::ops::index::IndexMut')

# reviewed tree-affecting operations of the parser's semantic layer, with the reason each cannot overwrite a definition
ALLOW = {
    ('state::ParseState::descend_path', 'toml_edit::table::Table::entry_format'): 'entry API: existing entries are inspected, not replaced',
    ('state::ParseState::descend_path', 'toml_edit::table::Entry::or_insert_with'): 'creates the implicit table only when the key is vacant',
    ('state::ParseState::descend_path', 'toml_edit::table::Table::set_implicit'): 'on the table just created',
    ('state::ParseState::descend_path', 'toml_edit::table::Table::set_dotted'): 'on the table just created',
    ('state::ParseState::descend_path', 'toml_edit::array_of_tables::ArrayOfTables::get_mut'): 'navigation into the last element',
    ('inline_table::descend_path', 'toml_edit::inline_table::InlineTable::entry_format'): 'entry API',
    ('inline_table::descend_path', 'toml_edit::inline_table::InlineEntry::or_insert_with'): 'creates the dotted table only when vacant',
    ('inline_table::descend_path', 'toml_edit::inline_table::InlineTable::set_implicit'): 'on the table just created',
    ('inline_table::descend_path', 'toml_edit::inline_table::InlineTable::set_dotted'): 'on the table just created',
    ('inline_table::table_from_pairs', 'indexmap::map::IndexMap::entry'): 'entry API: Occupied arm returns DuplicateKey',
    ('inline_table::table_from_pairs', 'indexmap::map::core::entry::VacantEntry::insert'): 'vacant-only insertion',
    ('state::ParseState::on_keyval', 'indexmap::map::IndexMap::entry'): 'entry API: Occupied arm returns DuplicateKey',
    ('state::ParseState::on_keyval', 'indexmap::map::core::entry::VacantEntry::insert'): 'vacant-only insertion',
    ('state::ParseState::start_array_table', 'toml_edit::table::Table::entry_format'): 'entry API',
    ('state::ParseState::start_array_table', 'toml_edit::table::Entry::or_insert'): 'creates the array of tables only when vacant; an existing entry is then type-checked',
    ('state::ParseState::start_array_table', 'toml_edit::table::Table::set_implicit'): 'on the fresh current_table',
    ('state::ParseState::start_array_table', 'toml_edit::table::Table::set_dotted'): 'on the fresh current_table',
    ('state::ParseState::start_table', 'toml_edit::table::Table::remove'): 'the implicit placeholder is taken out and re-attached by finalize_table; anything else is a duplicate error',
    ('state::ParseState::start_table', 'toml_edit::table::Table::set_implicit'): 'on current_table',
    ('state::ParseState::start_table', 'toml_edit::table::Table::set_dotted'): 'on current_table',
    ('state::ParseState::finalize_table', 'core::mem::take'): 'moves current_table / its path out of the state',
    ('state::ParseState::finalize_table', 'core::mem::swap'): 'root attachment (root asserted empty) and swap over an implicit placeholder only',
    ('state::ParseState::finalize_table', 'toml_edit::table::Table::entry_format'): 'entry API',
    ('state::ParseState::finalize_table', 'toml_edit::table::Entry::or_insert'): 'creates the array of tables only when vacant',
    ('state::ParseState::finalize_table', 'toml_edit::item::Item::as_array_of_tables_mut'): 'type check of the existing entry (None => duplicate error)',
    ('state::ParseState::finalize_table', 'toml_edit::array_of_tables::ArrayOfTables::push'): 'appends a new element',
    ('state::ParseState::finalize_table', 'toml_edit::table::OccupiedEntry::into_mut'): 'inspection of the occupied entry (implicit placeholder or duplicate error)',
    ('state::ParseState::finalize_table', 'toml_edit::table::VacantEntry::insert'): 'vacant-only insertion',
}
SCOPE = [ST + x for x in ('descend_path', 'finalize_table', 'on_keyval', 'start_array_table', 'start_table', 'on_std_header', 'on_array_header', 'into_document', 'on_ws', 'on_comment')] + \
        [P + 'inline_table::table_from_pairs', P + 'inline_table::descend_path']


def r1_vacant_only(rep, facts):
    R = rep.rule('C09/R1', 'the parser\'s semantic layer touches the tree only through the reviewed, vacant-only / inspect-only operations; '
                 'no overwrite-capable operation (insert, replace, make_item, index_mut, ...) exists there', floor=25)
    for d in SCOPE:
        b = facts.body(d)
        fn = d.replace(P, '')
        seen = set()
        for n in calls_in(b['body']):
            cs = [strip_generics(c) for c in callee_all(n)]
            c0 = cs[0] if cs else ''
            if not c0:
                continue
            if last_seg(c0) in MUT_SEGS and c0.startswith(TREE_PREFIXES):
                if (fn, c0) in seen:
                    continue
                seen.add((fn, c0))
                if (fn, c0) in ALLOW:
                    rep.ok(R, f'{fn}|{c0}', ALLOW[(fn, c0)], facts.loc(b, n))
                else:
                    rep.bad(R, f'{fn}|{c0}|unreviewed', f'`{fn}` calls `{c0}`, a tree-mutating operation that is not in the reviewed vacant-only / inspect-only '
                            f'set: an existing definition can be overwritten, converted or merged without an error', facts.loc(b, n))
        for n in walk(b['body']):
            if n.get('k') == 'index' and 'mut' in (n.get('adj') or '') and ('Table' in (peel(n['base']).get('t') or '')):
                rep.bad(R, f'{fn}|IndexMut', f'`{fn}` uses mutable indexing on a table (auto-vivifying, overwrite-capable)', facts.loc(b, n))


KEYED_OPS = {'remove', 'remove_entry', 'get', 'get_mut', 'contains_key', 'entry', 'entry_format', 'shift_remove', 'shift_remove_entry', 'get_key_value', 'get_key_value_mut',
             'contains_table', 'contains_value', 'contains_array_of_tables', 'key', 'key_mut', 'get_full', 'get_index_of', 'swap_remove', 'insert', 'insert_formatted', 'insert_full'}
KEYED_TYPES = ('toml_edit::table::Table', 'toml_edit::inline_table::InlineTable', 'indexmap::map::IndexMap')
NAME_PASSTHROUGH = {'as_str', 'as_ref', 'clone', 'to_owned', 'to_string', 'into', 'borrow', 'deref', 'as_deref'}


def r8_attach_model(rep, facts):
    R = rep.rule('C09/R8', 'the table collected under a header is attached without overwriting anything: finalize_table evaluated on a model parser state — the root section '
                 'becomes the root; `[a.b]` is inserted where nothing is, takes the place of a header-implied placeholder, and is refused over an explicit table or a value; '
                 '`[[a.b]]` is appended after the elements that are there and refused over anything that is no array of tables', floor=7)
    from .shared import finalize_model
    d = ST + 'finalize_table'
    loc = facts.loc(facts.body(d)) if facts.has_body(d) else ''
    want = {'the root section': lambda o: o['ok'] and o['root'] == 'current',
            '[a.b] with nothing under the name': lambda o: o['ok'] and o['inserted'] == ['current'],
            '[a.b] with a header-implied table under the name': lambda o: o['ok'] and o['entry'] == 'current' and not o['inserted'],
            '[a.b] with an explicit table under the name': lambda o: not o['ok'] and o['entry'] == 'other',
            '[a.b] with a value under the name': lambda o: not o['ok'],
            '[[a.b]] with an array of tables under the name': lambda o: o['ok'] and o.get('elements') == ['first', 'current'],
            '[[a.b]] with a table under the name': lambda o: not o['ok'] and o['entry'] == 'other'}
    for case, out in finalize_model(facts):
        if isinstance(out, str):
            (rep.incomplete if out.startswith('unanalysable') else rep.bad)(R, case, f'finalize_table, {case}: {out}', loc)
            continue
        if case not in want:
            continue
        rep.check(R, case, want[case](out), f'{"attached" if out["ok"] else "refused"}',
                  f'finalize_table, {case}: {"accepted" if out["ok"] else "refused"} (root holds `{out["root"]}`, inserted {out["inserted"]}, the entry holds `{out["entry"]}`'
                  + (f', elements {out["elements"]}' if 'elements' in out else '') + '): a definition is overwritten, merged or lost, or a permitted one refused', loc)


def r9_keyval_model(rep, facts):
    R = rep.rule('C09/R9', 'a key/value line never overwrites: on_keyval evaluated on a model parser state — the value is inserted exactly when the key is not there yet and '
                 '(for a dotted key) the table it lands in was made by dotted keys; a key that is there, or a dotted key into a table that a header implied, is an error', floor=6)
    from .shared import keyval_model
    d = ST + 'on_keyval'
    loc = facts.loc(facts.body(d)) if facts.has_body(d) else ''
    for case, out in keyval_model(facts):
        if isinstance(out, str):
            (rep.incomplete if out.startswith('unanalysable') else rep.bad)(R, case, f'on_keyval, {case}: {out}', loc)
            continue
        want_ok = (not out['occ']) and (out['npath'] == 0 or out['child'][1])
        good = out['ok'] == want_ok and (out['inserted'] == ['value'] if want_ok else not out['inserted'])
        rep.check(R, case, good, 'inserted' if out['ok'] else 'refused',
                  f'on_keyval, {case}: {"accepted" if out["ok"] else "refused"} with insertions {out["inserted"]}; TOML demands {"the value inserted" if want_ok else "an error and nothing inserted"}', loc)


def r7_one_name(rep, facts):
    R = rep.rule('C09/R7', 'a key has one identity, its decoded name: every lookup, removal and entry of the parser\'s semantic layer is keyed by the Key itself '
                 '(whose Hash / Eq / Ord / Borrow read nothing but `get()`) or by a string that comes from `Key::get()`; a lookup by the written form '
                 '(display_repr, the raw text) misses an existing definition spelled differently or needing quotes, and the duplicate passes unnoticed', floor=12)
    from .shared import local_origins
    for d in SCOPE:
        b = facts.body(d)
        fn = d.replace(P, '')
        origins = local_origins(b['body'])
        k = 0
        for n in walk(b['body']):
            if n.get('k') != 'mcall' or n.get('name') not in KEYED_OPS or not n.get('args'):
                continue
            cs = [strip_generics(c) for c in callee_all(n)]
            if not cs or not cs[0].startswith(KEYED_TYPES):
                continue
            a = peel(n['args'][0])
            t = (a.get('t') or '').replace('&', '').replace('mut ', '').strip()
            if t.startswith('toml_edit::key::Key'):
                k += 1
                rep.ok(R, f'{fn}|{n["name"]}#{k}', 'keyed by the Key', facts.loc(b, n))
                continue
            if not (t.startswith('str') or 'String' in t or 'Cow' in t):
                continue
            k += 1
            cur, via = a, []
            for _ in range(12):
                cur = peel(cur)
                if cur.get('k') == 'path' and cur.get('res') == 'Local' and cur.get('path') in origins:
                    cur = origins[cur['path']]
                    continue
                if cur.get('k') == 'mcall' and cur.get('name') in NAME_PASSTHROUGH and not any(strip_generics(c).startswith('toml_edit::') for c in callee_all(cur)):
                    cur = cur['recv']
                    continue
                break
            src = [strip_generics(c) for c in callee_all(cur)] if cur.get('k') in ('mcall', 'call') else []
            ok = bool(src) and src[0] == 'toml_edit::key::Key::get'
            rep.check(R, f'{fn}|{n["name"]}#{k}', ok, 'keyed by key.get()', f'`{fn}` looks an entry up ({n["name"]}) by `{src[0] if src else cur.get("k")}` instead of the key\'s decoded name: '
                      f'a table already defined under a name that needs quotes (`"a b"`) or is spelled with other quotes is not found, so a header reopening it is accepted', facts.loc(b, n))
    # the Key's own identity
    for tr, m in (('core::hash::Hash', 'hash'), ('core::cmp::PartialEq', 'eq'), ('core::cmp::Ord', 'cmp'), ('core::borrow::Borrow', 'borrow')):
        found = False
        for imp in facts.impls:
            if (imp.get('trait') or '').split('<')[0] != tr or imp.get('self_ty') != 'toml_edit::key::Key':
                continue
            for it in imp['items']:
                if it['name'] != m or not facts.has_body(it['def']):
                    continue
                found = True
                b = facts.body(it['def'])
                reads = sorted({x.get('name') for x in walk(b['body']) if (x.get('k') == 'mcall' and strip_generics((callee_all(x) or [''])[0]).startswith('toml_edit::key::Key::')) or
                                (x.get('k') == 'field' and 'toml_edit::key::Key' in (peel(x['base']).get('t') or ''))})
                rep.check(R, f'Key|{tr.rsplit("::", 1)[-1]}|{imp.get("trait_args") or it["def"]}', set(reads) <= {'get', 'key'} and bool(reads), f'reads {reads}',
                          f'`{it["def"]}` reads {reads} of the key: two spellings of one name are different keys (or different names the same key) for the tables', facts.loc(b))
        if tr != 'core::borrow::Borrow' and not found:
            rep.incomplete(R, f'Key|{tr}', f'impl {tr} for Key not found')


def arm_returns_err(arm_body):
    """the arm diverges with `return Err(..)` (directly or through `?` on an Err-producing expression)"""
    for n in walk(arm_body):
        if n.get('k') == 'ret':
            for x in walk(n):
                if x.get('k') == 'path' and (x.get('path') or '').endswith('Result::Err'):
                    return True
    # ... or the arm's own value is `Err(..)` (expression arm of a match in tail position / in a try_fold closure; a dropped result is C09/R4's business)
    t = arm_body
    for _ in range(6):
        t = peel(t)
        if t.get('k') == 'block' and t.get('expr') is not None:
            t = t['expr']
            continue
        break
    if t.get('k') == 'call' and (peel(t.get('f', {})).get('path') or '').endswith('Result::Err'):
        return True
    return False


def pat_variant(p):
    for x in walk(p):
        if x.get('k') in ('p_tuplestruct', 'p_struct') and x.get('path'):
            return x['path']
        if x.get('k') == 'p_expr' and x['e'].get('path'):
            return x['e']['path']
    return None


def pat_mentions(p, suffix):
    return any((x.get('path') or (x.get('e') or {}).get('path') or '').endswith(suffix) for x in walk(p) if x.get('k') in ('p_tuplestruct', 'p_struct', 'p_expr', 'p_path'))


def is_catch_all(p):
    """`_`, `other`, `Some(_)`, `Some(other)`: whatever is left"""
    if p.get('k') in ('p_wild',) or (p.get('k') == 'p_bind' and 'sub' not in p):
        return True
    if p.get('k') == 'p_tuplestruct' and (p.get('path') or '').endswith('Option::Some') and len(p.get('pats', [])) == 1:
        return is_catch_all(p['pats'][0])
    return False


def r6_flag_targets(rep, facts):
    R = rep.rule('C09/R6', 'header starters reset the implicit / dotted flags on the table being opened (self.current_table), never on the parent found by the '
                 'walk: clearing a flag of the parent would let a later header reopen a table that dotted keys defined', floor=2)
    for d in (ST + 'start_table', ST + 'start_array_table'):
        b = facts.body(d)
        sets = [n for n in walk(b['body']) if n.get('k') == 'mcall' and n.get('name') in ('set_dotted', 'set_implicit')]
        wrong = []
        for n in sets:
            r = peel(n['recv'])
            on_current = r.get('k') == 'field' and r.get('name') == 'current_table'
            if not on_current:
                wrong.append(f'{n["name"]} on `{(r.get("path") or r.get("name") or r.get("k"))}` (line {n.get("l")})')
        rep.check(R, d.replace(P, ''), bool(sets) and not wrong, f'{len(sets)} flag resets, all on self.current_table',
                  f'`{d.replace(P, "")}`: {"; ".join(wrong) if wrong else "no flag reset found"}', facts.loc(b))


def r6b_opened_table_flags(rep, facts):
    R = rep.rule('C09/R6b', 'the table a header opens is explicit afterwards, whichever table it is: start_table / start_array_table evaluated on a model parser state '
                 '(nothing under the name; a header-implied table there, which `[t]` adopts) leave the current table neither implicit nor dotted, under the header\'s path', floor=4)
    from .shared import header_start_model
    for fn, case, out in header_start_model(facts):
        d = ST + fn
        loc = facts.loc(facts.body(d)) if facts.has_body(d) else ''
        if isinstance(out, str):
            (rep.incomplete if out.startswith('unanalysable') else rep.bad)(R, f'{fn}|{case}', f'`{fn}` with {case}: {out}', loc)
            continue
        accepts = case in ('nothing there', 'a header-implied table there') or (fn == 'start_array_table' and case == 'an array of tables there')
        if not accepts or (fn == 'start_array_table' and case == 'a header-implied table there'):
            continue            # what must be refused is C09/R2's matter
        if out is None:
            rep.bad(R, f'{fn}|{case}', f'`{fn}` refuses a header with {case} under its name (TOML permits a super-table after its sub-table)', loc)
            continue
        ok = out['implicit'] is False and out['dotted'] is False and out['path'] == ['a', 'b'] and out['is_array'] == (fn == 'start_array_table')
        rep.check(R, f'{fn}|{case}', ok, 'explicit, not dotted, path and kind recorded',
                  f'`{fn}` with {case}: afterwards the current table has implicit={out["implicit"]}, dotted={out["dotted"]}, path {out["path"]}, is_array={out["is_array"]}: '
                  f'a second header of the same name (or a dotted key into it) is no longer recognised as a redefinition', loc)


def r2_occupied_is_error(rep, facts):
    R = rep.rule('C09/R2', 'every occupied / mismatching case returns an error: Entry::Occupied arms, the catch-all arms of the header '
                 'starters, and the value arm of both descend_paths', floor=8)
    for d in (ST + 'on_keyval', P + 'inline_table::table_from_pairs'):
        b = facts.body(d)
        arms = [a for m in walk(b['body']) if m.get('k') == 'match' and m.get('src') == 'Normal' for a in m['arms']]
        occ = [a for a in arms if (pat_variant(a['pat']) or '').endswith('Entry::Occupied')]
        vac = [a for a in arms if (pat_variant(a['pat']) or '').endswith('Entry::Vacant')]
        rep.check(R, d.replace(P, '') + '|Occupied=>Err', len(occ) == 1 and arm_returns_err(occ[0]['body']) and
                  any(last_seg(x.get('path') or '') == 'DuplicateKey' for x in walk(occ[0]['body'])), 'Occupied => return Err(DuplicateKey)',
                  f'the Occupied arm of `{d.replace(P, "")}` does not return a DuplicateKey error: a repeated key would be accepted', facts.loc(b))
        ins = len(vac) == 1 and any(x.get('k') == 'mcall' and x.get('name') == 'insert' for x in walk(vac[0]['body']))
        rep.check(R, d.replace(P, '') + '|Vacant=>insert', ins, 'Vacant => insert', f'the Vacant arm of `{d.replace(P, "")}` does not insert', facts.loc(b))
    for d in (ST + 'descend_path', P + 'inline_table::descend_path'):
        b = facts.body(d)
        arms = [a for m in walk(b['body']) if m.get('k') == 'match' and m.get('src') == 'Normal' for a in m['arms']]
        okv = False
        for a in arms:
            v = pat_variant(a['pat']) or ''
            is_value_arm = v.endswith('Item::Value') or (d.endswith('inline_table::descend_path') and a['pat'].get('k') in ('p_bind', 'p_wild'))
            if is_value_arm and arm_returns_err(a['body']) and any(last_seg(c) == 'extend_wrong_type' for n in calls_in(a['body']) for c in callee_all(n)):
                okv = True
        rep.check(R, d.replace(P, '') + '|value=>extend_wrong_type', okv, 'a non-table on the path => Err(extend_wrong_type)',
                  f'`{d.replace(P, "")}` no longer rejects a path that runs into a scalar / array / inline table', facts.loc(b))
    # the header starters refuse a name that is taken by something a header may not reopen (evaluated on a model parser state)
    from .shared import header_start_model
    must_refuse = {'start_table': ('an explicit table there', 'an array of tables there', 'a value there'),
                   'start_array_table': ('a header-implied table there', 'an explicit table there', 'a value there')}
    for fn, case, out in header_start_model(facts):
        if case not in must_refuse.get(fn, ()):
            continue
        d = ST + fn
        loc = facts.loc(facts.body(d)) if facts.has_body(d) else ''
        if isinstance(out, str):
            (rep.incomplete if out.startswith('unanalysable') else rep.bad)(R, f'{fn}|{case}=>Err', f'`{fn}` with {case}: {out}', loc)
            continue
        rep.check(R, f'state::ParseState::{fn}|{case}=>Err', out is None, 'refused', f'`{fn}` accepts a header whose name is taken by {case[:-6]}: the existing definition is reopened, replaced or '
                  f'turned into another kind without an error', loc)
    # finalize_table: as_array_of_tables_mut().ok_or_else(duplicate)?  (the attachment itself is evaluated by C09/R8)
    b = facts.body(ST + 'finalize_table')
    # the catch-all arm of the match over the occupied entry's item (the one that has an `Item::Table(..)` arm)
    wild = [a for m in walk(b['body']) if m.get('k') == 'match' and any(pat_mentions(x['pat'], 'Item::Table') for x in m['arms'])
            for a in m['arms'] if is_catch_all(a['pat'])]
    rep.check(R, 'state::ParseState::finalize_table|_=>Err', len(wild) == 1 and arm_returns_err(wild[0]['body']), 'occupied by anything but an implicit table => Err',
              'finalize_table no longer rejects attaching a table over an existing explicit entry', facts.loc(b))


def atoms_flags(x):
    if x.get('k') == 'mcall' and x.get('name') in ('is_implicit', 'is_dotted', 'is_empty'):
        r = peel(x['recv'])
        base = 'path' if (r.get('path') or '').startswith('path') else 'table'
        if x['name'] == 'is_empty':
            return f'{base}.is_empty'
        return x['name'][3:]
    if x.get('k') == 'field' and x.get('name') in ('implicit', 'dotted'):
        return x['name']
    if x.get('k') == 'path' and x.get('res') == 'Local' and (x.get('path') or '').split('#')[0] == 'dotted':
        return 'dotted_walk'
    return None


def _walk_kinds(facts, ev, d):
    """(name of the parameter that says which kind of walk this is, {'dotted' / 'header': the value callers pass for it}): a key/value line walks
    with the dotted kind, the header functions with the other; the parameter may be a bool or a private two-variant enum"""
    b = facts.body(d)
    ps = [p_ for p_ in b.get('params', []) if p_.get('k') == 'p_bind']
    if len(ps) < 3:
        return None, {}
    pname = ps[2]['name']
    out = {}
    it = Interp(ev)
    for cd, cb in facts.bodies.items():
        if not cd.startswith(P):
            continue
        for x in walk(cb['body']):
            if x.get('k') == 'call' and any(strip_generics(c) == d for c in callee_all(x)) and len(x.get('args', [])) >= 3:
                try:
                    v = it.run(x['args'][2], {})
                except Unanalysable:
                    continue
                label = 'dotted' if last_seg(cd) in ('on_keyval', 'table_from_pairs', 'inline_table_from_pairs') else 'header'
                out.setdefault(label, v)
    return pname, out


def r3c_walk_model(rep, facts):
    """the walk along a path, evaluated: ParseState::descend_path run on a one- and a two-segment path where every step finds the same kind of
    entry (a value, an array of tables, an explicitly defined table, a header-implied table, a dotted-key table), for both kinds of walk.
    Returns the set of functions decided this way."""
    R = rep.rule('C09/R3c', 'the walk along a key path, evaluated on small trees for the header walk and the dotted-key walk: a value on the path stops both; '
                 'a dotted key never walks into a table defined by its own header — a [table], or an element of an array of tables — and goes on from there; '
                 'a header walks through tables and into the last element of an array of tables', floor=20)
    from .den import RecInterp, EvalPanic, VecObj
    ev = Evaluator(facts)
    d = ST + 'descend_path'
    b = facts.body(d)
    pname, kinds = _walk_kinds(facts, ev, d)
    if set(kinds) != {'dotted', 'header'}:
        rep.incomplete(R, 'state::ParseState::descend_path', f'cannot tell the walk kinds the callers pass ({kinds})', facts.loc(b))
        return set()
    I = 'toml_edit::item::Item::'

    def T(implicit, dotted, tag, items=()):
        return ('struct', 'toml_edit::table::Table', {'implicit': implicit, 'dotted': dotted, 'items': items, 'tag': tag})
    key = lambda n: ('struct', 'toml_edit::key::Key', {'key': n})

    def entries():
        yield 'a value', ('ctor', I + 'Value', (('ctor', 'toml_edit::value::Value::Integer', (('opaque',),)),))
        yield 'an array of tables', ('ctor', I + 'ArrayOfTables', (('struct', 'toml_edit::array_of_tables::ArrayOfTables',
                                                                    {'values': VecObj([('ctor', I + 'Table', (T(False, False, 'first'),)), ('ctor', I + 'Table', (T(False, False, 'last'),))])}),))
        # ... whose last element already holds the path's next segment as a table made by dotted keys (`[[a.b]]` / `c.x = 1` / `[a]` / `b.c.y = 2`)
        inner = ((key('k1'), ('ctor', I + 'Table', (T(True, True, 'inner'),))),)
        yield 'an array of tables', ('ctor', I + 'ArrayOfTables', (('struct', 'toml_edit::array_of_tables::ArrayOfTables',
                                                                    {'values': VecObj([('ctor', I + 'Table', (T(False, False, 'first'),)), ('ctor', I + 'Table', (T(False, False, 'last', inner),))])}),))
        yield 'a [table]', ('ctor', I + 'Table', (T(False, False, 't'),))
        yield 'a header-implied table', ('ctor', I + 'Table', (T(True, False, 't'),))
        yield 'a dotted-key table', ('ctor', I + 'Table', (T(True, True, 't'),))
    ERR, OK = 'core::result::Result::Err', 'core::result::Result::Ok'
    try:
        for kind in ('dotted', 'header'):
            for n in (1, 2):
                seen = {}
                for name, e in entries():
                    seen[name] = seen.get(name, 0) + 1
                    variant = '' if seen[name] == 1 else ' (its last element holds the next segment)'
                    it = RecInterp(ev, set(), stubs={'or_insert_with': e, 'or_insert': e})
                    path = tuple(('struct', 'toml_edit::key::Key', {'key': f'k{i}'}) for i in range(n))
                    try:
                        r = it.apply_fn(b, [T(False, False, 'start'), path, kinds[kind]])
                    except EvalPanic as ex:
                        rep.bad(R, f'{kind}|{n}|{name}{variant}', f'the {kind} walk over {n} segment(s) panics when it finds {name}{variant}: {ex}', facts.loc(b))
                        continue
                    is_err = isinstance(r, tuple) and r[:2] == ('ctor', ERR)
                    is_ok = isinstance(r, tuple) and r[:2] == ('ctor', OK)
                    if not (is_err or is_ok):
                        raise Unanalysable(f'evaluates to {r!r:.60}')
                    reached = r[2][0] if is_ok else None
                    tag = reached[2].get('tag') if isinstance(reached, tuple) and len(reached) == 3 and reached[0] == 'struct' else None
                    if name == 'a value':
                        ok, want = is_err, 'an error'
                    elif name == 'a [table]':
                        ok, want = (is_err if kind == 'dotted' else tag == 't'), ('an error' if kind == 'dotted' else 'that table')
                    elif name == 'an array of tables':
                        if kind == 'header':
                            ok, want = tag == 'last', 'its last element'
                        elif n == 1:
                            # the leaf guard of on_keyval (C09/R3 leaf-guard) refuses the element, which is no dotted-key table
                            ok, want = is_err or (tag == 'last' and reached[2].get('dotted') is False), 'an error, or the last element for the leaf guard to refuse'
                        else:
                            ok, want = is_err, 'an error'
                    else:
                        ok, want = tag == 't', 'that table'
                    got = 'an error' if is_err else f'the table `{tag}`'
                    rep.check(R, f'{kind}|{n}|{name}{variant}', ok, f'{got}',
                              f'`state::ParseState::descend_path`: the {kind} walk along {n} segment(s) that finds {name}{variant} gives {got}, TOML demands {want}: '
                              + ('a dotted key extends a table that a header already defined' if kind == 'dotted' and not is_err else 'a definition TOML permits is refused, or the wrong table is extended'),
                              facts.loc(b))
    except Unanalysable as ex:
        rep.incomplete(R, 'state::ParseState::descend_path', f'cannot evaluate the walk: {ex}', facts.loc(b))
        return set()
    return {d}


def r3_truth_tables(rep, facts, modelled=()):
    R = rep.rule('C09/R3', 'guard truth tables equal what TOML 1.0.0 demands: dotted walk blocked by explicit tables, leaf insertion needs '
                 'dotted == path-non-empty, [t] reuses only header-implicit tables, attachment swaps only over implicit placeholders, '
                 'array of tables resolved to its last element, new tables flagged by walk kind', floor=10)
    ev = Evaluator(facts)

    def walk_kinds(d):
        return _walk_kinds(facts, ev, d)
    # descend_path (both): error <=> dotted walk && !implicit
    for d in (ST + 'descend_path', P + 'inline_table::descend_path'):
        if d in modelled:
            continue        # decided by evaluation (C09/R3c), which covers this guard and the array-of-tables arm
        b = facts.body(d)
        ifs = [n for n in walk(b['body']) if n.get('k') == 'if' and arm_returns_err(n['then'])]
        ok = False
        detail = f'{len(ifs)} rejecting ifs'
        pname, kinds = walk_kinds(d)
        for n in ifs:
            if pname and set(kinds) == {'dotted', 'header'} and any(x.get('k') == 'path' and x.get('path') == pname for x in walk(n['cond'])):
                # the guard reads the walk-kind parameter (a bool, or an enum through an accessor): tabulated with the values the callers pass
                try:
                    cells = {}
                    for label, v in kinds.items():
                        names, table = truth_table(ev, n['cond'], lambda x: atoms_flags(x) if atoms_flags(x) == 'implicit' else None, base_env={pname: v})
                        if names != ['implicit']:
                            raise Unanalysable(f'guard reads {names}')
                        for (imp,), res in table.items():
                            cells[(label == 'dotted', imp)] = res
                    detail = f'(dotted walk, implicit) -> error: {cells}'
                    ok = all(res == (dw and not imp) for (dw, imp), res in cells.items())
                except Unanalysable as e:
                    detail = str(e)
                continue
            try:
                names, table = truth_table(ev, n['cond'], atoms_flags)
            except Unanalysable as e:
                detail = str(e)
                continue
            detail = f'atoms {names}: {table}'
            if names == ['dotted_walk', 'implicit']:
                ok = all(v == (dw and not imp) for (dw, imp), v in table.items())
        rep.check(R, d.replace(P, '') + '|walk-guard', ok and len(ifs) == 1, 'error <=> dotted walk && target not implicit (4 cells)',
                  f'walk guard of `{d.replace(P, "")}` differs from `dotted && !implicit`: {detail} — a dotted key may now extend an explicitly defined table '
                  f'(or a header walk is wrongly blocked)', facts.loc(b))
    # leaf guard: error <=> is_dotted == path.is_empty
    for d in (ST + 'on_keyval', P + 'inline_table::table_from_pairs'):
        b = facts.body(d)
        # the `if` that rejects the pair before the entry is looked at, with its boolean locals replaced by what they stand for
        from .shared import local_origins
        import copy
        orig = local_origins(b['body'])

        def expand(n, depth=0):
            if isinstance(n, list):
                return [expand(x, depth) for x in n]
            if not isinstance(n, dict):
                return n
            if n.get('k') == 'path' and n.get('res') == 'Local' and (n.get('t') or '').strip() == 'bool' and n.get('path') in orig and depth < 4:
                return expand(copy.deepcopy(orig[n['path']]), depth + 1)
            return {k: expand(v, depth) if isinstance(v, (dict, list)) else v for k, v in n.items()}
        ok = False
        used = False
        detail = 'no rejecting `if` over is_dotted() found'
        for n in walk(b['body']):
            if not (n.get('k') == 'if' and arm_returns_err(n['then'])):
                continue
            cond = expand(n['cond'])
            if not any(atoms_flags(x) == 'dotted' for x in walk(cond)):
                continue
            used = True
            try:
                names, table = truth_table(ev, cond, atoms_flags)
                detail = f'atoms {names}: {table}'
                if names == ['dotted', 'path.is_empty']:
                    ok = all(v == (dt == pe) for (dt, pe), v in table.items())
            except Unanalysable as e:
                detail = str(e)
            break
        rep.check(R, d.replace(P, '') + '|leaf-guard', ok and used, 'error <=> table.is_dotted() == path.is_empty() (4 cells)',
                  f'leaf guard of `{d.replace(P, "")}` changed: {detail}', facts.loc(b))
    # start_table: reuse <=> Item::Table(t) if implicit && !dotted
    b = facts.body(ST + 'start_table')
    arms = [a for m in walk(b['body']) if m.get('k') == 'match' and m.get('src') == 'Normal' for a in m['arms']]
    reuse = [a for a in arms if pat_mentions(a['pat'], 'Item::Table')]
    ok = False
    detail = 'reuse arm not found'
    if len(reuse) == 1 and 'guard' in reuse[0]:
        try:
            names, table = truth_table(ev, reuse[0]['guard'], atoms_flags)
            detail = f'atoms {names}: {table}'
            if names == ['dotted', 'implicit']:
                ok = all(v == (imp and not dt) for (dt, imp), v in table.items())
        except Unanalysable as e:
            detail = str(e)
    rep.check(R, 'state::ParseState::start_table|reuse-guard', ok, 'reuse <=> implicit && !dotted',
              f'`[t]` on an existing table: {detail} — a header may now reopen an explicit or dotted-key table', facts.loc(b))
    # finalize_table: swap only over implicit
    b = facts.body(ST + 'finalize_table')
    arms = [a for m in walk(b['body']) if m.get('k') == 'match' and m.get('src') == 'Normal' for a in m['arms']]
    sw = [a for a in arms if pat_mentions(a['pat'], 'Item::Table')]
    ok = False
    detail = 'swap arm not found'
    if len(sw) == 1 and 'guard' in sw[0]:
        try:
            names, table = truth_table(ev, sw[0]['guard'], atoms_flags)
            detail = f'atoms {names}: {table}'
            ok = names == ['implicit'] and table == {(False,): False, (True,): True}
        except Unanalysable as e:
            detail = str(e)
    rep.check(R, 'state::ParseState::finalize_table|swap-guard', ok, 'swap <=> existing table is implicit', f'attachment over an existing table: {detail}', facts.loc(b))
    # root attachment asserts the root is empty
    asserted = any(n.get('k') == 'mcall' and n.get('name') == 'is_empty' and (peel(n['recv']).get('path') or '').startswith('root') for n in walk(b['body']))
    rep.check(R, 'state::ParseState::finalize_table|root-empty', asserted, 'assert!(root.is_empty()) before the root swap', 'the root swap is no longer guarded by root.is_empty()', facts.loc(b))
    # array of tables -> last element
    b = facts.body(ST + 'descend_path')
    from .shared import local_origins
    orig = local_origins(b['body'])
    arm = [x for m in walk(b['body']) if m.get('k') == 'match' for x in m.get('arms', []) if pat_mentions(x['pat'], 'Item::ArrayOfTables')]
    sel = []
    detail = 'arm for Item::ArrayOfTables not found'
    if len(arm) == 1:
        for n in walk(arm[0]['body']):
            if n.get('k') != 'mcall':
                continue
            nm = n.get('name')
            if nm in ('last_mut', 'last', 'next_back'):
                sel.append(True)
            elif nm in ('first', 'first_mut', 'next', 'nth', 'swap_remove', 'pop', 'remove'):
                sel.append(False)
            elif nm in ('get_mut', 'get', 'index_mut', 'index') and n.get('args'):
                i = peel(n['args'][0])
                hops = 0
                while i.get('k') == 'path' and i.get('res') == 'Local' and i.get('path') in orig and hops < 4:
                    i = peel(orig[i['path']])
                    hops += 1
                good = False
                if i.get('k') == 'binary' and i.get('op') == '-' and peel(i['a']).get('name') == 'len':
                    try:
                        good = ev.integer(i['b']) == 1
                    except Unanalysable:
                        good = False
                sel.append(good)
        detail = f'{len(sel)} element selections, last-element: {sel}'
    if ST + 'descend_path' in modelled:
        pass            # C09/R3c evaluates which element the walk continues in
    else:
        rep.check(R, 'state::ParseState::descend_path|array-of-tables-last', len(sel) == 1 and sel[0], 'the arm for an array of tables continues in its last element (get_mut(len - 1) / last_mut())',
                  f'a path through an array of tables is no longer resolved to its last element ({detail})', facts.loc(b))
    # new tables: flags by walk kind
    for d, want in ((ST + 'descend_path', {'set_implicit': True, 'set_dotted': 'dotted'}), (P + 'inline_table::descend_path', {'set_implicit': 'dotted', 'set_dotted': 'dotted'})):
        b = facts.body(d)
        got = {}
        pname, kinds = walk_kinds(d)
        for n in walk(b['body']):
            if n.get('k') == 'mcall' and n.get('name') in want:
                a = peel(n['args'][0])
                got[n['name']] = a.get('v') if a.get('k') == 'lit' else (a.get('path') or '').split('#')[0]
                if pname and set(kinds) == {'dotted', 'header'} and a.get('k') != 'lit' and any(x.get('k') == 'path' and x.get('path') == pname for x in walk(n['args'][0])):
                    # the flag is computed from the walk-kind parameter: evaluated with the values the callers pass
                    try:
                        vals = {label: Interp(ev).run(n['args'][0], {pname: v}) for label, v in kinds.items()}
                        got[n['name']] = 'dotted' if vals == {'dotted': True, 'header': False} else f'{vals}'
                    except Unanalysable as e:
                        got[n['name']] = f'? ({e})'
        rep.check(R, d.replace(P, '') + '|new-table-flags', got == want, f'{got}', f'tables created by `{d.replace(P, "")}` are flagged {got}, expected {want}', facts.loc(b))
    # header starters mark the table explicit
    for d in (ST + 'start_table', ST + 'start_array_table'):
        b = facts.body(d)
        got = {}
        for n in walk(b['body']):
            if n.get('k') == 'mcall' and n.get('name') in ('set_implicit', 'set_dotted'):
                a = peel(n['args'][0])
                got[n['name']] = a.get('v')
        rep.check(R, d.replace(P, '') + '|explicit-flags', got == {'set_implicit': False, 'set_dotted': False}, f'{got}',
                  f'`{d.replace(P, "")}` marks the opened table {got}, expected implicit = false, dotted = false', facts.loc(b))
    rep.info(R, 'cells reachable only by a class-U1 document (dotted key through a header-implicit table) are decided by the walk guard as '
             '"error"; the expected table treats them as do not care (DESIGN.md 3.2)')


def r3b_accessors(rep, facts):
    R = rep.rule('C09/R3b', 'the flag accessors read and write the flag they are named after (both table types)', floor=8)
    for ty in ('toml_edit::table::Table', 'toml_edit::inline_table::InlineTable'):
        for acc, field, kind in (('is_implicit', 'implicit', 'get'), ('is_dotted', 'dotted', 'get'), ('set_implicit', 'implicit', 'set'), ('set_dotted', 'dotted', 'set')):
            d = f'{ty}::{acc}'
            if not facts.has_body(d):
                rep.incomplete(R, d, 'accessor not found')
                continue
            b = facts.body(d)
            fields = {n.get('name') for n in walk(b['body']) if n.get('k') == 'field'}
            ok = fields == {field}
            if kind == 'set':
                ok = ok and any(n.get('k') == 'assign' and peel(n['rhs']).get('res') == 'Local' for n in walk(b['body']))
            else:
                ok = ok and not any(n.get('k') == 'unary' and n.get('op') == '!' for n in walk(b['body']))
            rep.check(R, d, ok, f'{acc} <-> .{field}', f'`{d}` touches fields {fields} (expected exactly `{field}`, un-negated)', facts.loc(b))


def r4_plumbing(rep, facts):
    R = rep.rule('C09/R4', 'error plumbing: every CustomError constructed in the parser flows into a returned Err, an ok_or / ok_or_else / map_err argument or '
                 'from_external_error(..); none is built and dropped', floor=20)
    from .rules_c15 import with_ancestors
    n = 0
    for d, b in sorted(facts.bodies.items()):
        if not d.startswith(P) or '::test::' in d or d.startswith(P + 'error::'):
            continue
        i = 0
        for node, anc in with_ancestors(b['body']):
            is_ctor = (node.get('k') == 'path' and (node.get('res') or '').startswith('Ctor') and 'parser::error::CustomError::' in (node.get('path') or '')) or \
                (node.get('k') == 'struct' and (node.get('adt') or '').endswith('parser::error::CustomError')) or \
                (node.get('k') == 'call' and (peel(node.get('f', {})).get('path') or '').startswith(P + 'error::CustomError::') and (peel(node.get('f', {})).get('res') in ('AssocFn', 'Fn')))
            if not is_ctor:
                continue
            # a ctor path that is the callee of a counted call is not counted twice
            if node.get('k') == 'path' and anc and anc[-1].get('k') == 'call' and anc[-1].get('f') is node:
                continue
            n += 1
            key = f'{d.replace(P, "")}|CustomError#{i}'
            i += 1
            sink = None
            dropped = False
            for a in reversed(anc):
                k = a.get('k')
                if k == 'semi' and sink is None:
                    dropped = True
                    break
                if k == 'ret':
                    sink = sink or 'return'
                if k == 'mcall' and a.get('name') in ('ok_or', 'ok_or_else', 'map_err'):
                    sink = sink or a['name']
                if k == 'call':
                    fp = (peel(a.get('f', {})).get('path') or '')
                    if fp.endswith('Result::Err'):
                        sink = sink or 'Err(..)'
                    if last_seg(fp) == 'from_external_error':
                        sink = sink or 'from_external_error'
                if k == 'closure' and sink is None:
                    # value of a try_map / verify_map closure: Err(..) tail or `?` conversion inside the closure
                    sink = None
            # `CustomError::X` used through `?` (From conversion) inside a Result-returning closure
            if sink is None and any(a.get('k') == 'match' and 'TryDesugar' in (a.get('src') or '') for a in anc):
                sink = '?'
            rep.check(R, key, sink is not None and not dropped, f'flows into {sink}', f'a CustomError is constructed in `{d.replace(P, "")}` but not returned (built and dropped): the definition error is silently ignored', facts.loc(b, node))
    rep.info(R, f'{n} CustomError constructions')


def rules(rep, facts):
    feats = set(facts.crates.get('toml_edit', {}).get('features', []))
    if 'toml_edit' not in facts.crates or 'parse' not in feats:
        rep.notes.append(f'configuration {facts.config}: parser not compiled, rules skipped.')
        return
    r1_vacant_only(rep, facts)
    r2_occupied_is_error(rep, facts)
    modelled = r3c_walk_model(rep, facts)
    r3_truth_tables(rep, facts, modelled)
    r3b_accessors(rep, facts)
    r4_plumbing(rep, facts)
    r6_flag_targets(rep, facts)
    r6b_opened_table_flags(rep, facts)
    r8_attach_model(rep, facts)
    r9_keyval_model(rep, facts)
    r7_one_name(rep, facts)
    from .rules_events import r_verdicts, r_verdict_space
    r_verdicts(rep, facts)
    if facts.config == 'default':
        import os as _os
        # (VERIF_FAST: the matrix runs of selftest/catch_matrix.py, hundreds of trees side by side, use the two-statement space)
        r_verdict_space(rep, facts, length=4 if rep.tier == 'thorough' else 2 if _os.environ.get('VERIF_FAST') else 3, alphabet=14)
    # R3 reads the guards of the parser state off their syntactic shape (one `if` per walk, a guarded match arm, an assert before the swap).  Where the state
    # is evaluated as a whole — R10 and R11: every small document gets the verdict and the tree an independent decoder gives — the question R3 asks is decided
    # by behaviour, and a guard written another way (a helper function, a match guard, `try_fold`) is not a finding.
    decided = [rid for rid in ('C09/R10', 'C09/R11') if rid in rep.rules and rep.rules[rid].get('obligations') and all(o['ok'] for o in rep.rules[rid]['obligations'])
               and not any(v['rule'] == rid for v in rep.violations)]
    if 'C09/R10' in decided and (facts.config != 'default' or 'C09/R11' in decided):
        gone = [v for v in rep.violations if v['rule'] == 'C09/R3']
        if gone:
            rep.violations[:] = [v for v in rep.violations if v not in gone]
            if 'C09/R3' in rep.rules:
                rep.rules['C09/R3']['floor'] = None
                rep.rules['C09/R3']['obligations'] = [o for o in rep.rules['C09/R3']['obligations'] if o['ok']]
            rep.notes.append(f'C09/R3 reads the guards of the parser state off their shape and does not recognise {len(gone)} of them in this tree ({gone[0]["detail"][:160]}); '
                             f'the question is decided by C09/R10 / R11 on the verdicts and trees of the model documents.')


def run(tier):
    return run_property(PROP, tier, rules, configs_thorough=['default', 'perf', 'unbounded', 'edit_parse'])
