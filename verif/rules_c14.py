"""C14 — spans point at exactly the source text of each item (decided part: span
provenance, despan clears spans, bridge order, uniform is_spanned handling, attachment
covers every value kind)."""
from .core import run_property, AnalysisIncomplete, walk, peel, last_seg, calls_in, callee_all, strip_generics

PROP = 'C14'
P = 'toml_edit::parser::'
DE = 'serde::de::Deserializer'


def range_structs(body):
    out = []
    slicing = set()
    for n in walk(body['body']):
        if n.get('k') == 'index':
            for x in walk(n['idx']):
                slicing.add(id(x))
    for n in walk(body['body']):
        if id(n) in slicing:
            continue
        if n.get('k') == 'struct' and (n.get('path') or '').endswith('ops::range::Range') and not n.get('x0'):
            f = {x['name']: x['e'] for x in n.get('fields', [])}
            if 'start' in f and 'end' in f:
                out.append((n, f))
    return out


def classify_bound(e, want):
    e = peel(e)
    if e.get('k') == 'field':
        return 'ok' if e.get('name') == want else f'.{e.get("name")} used as {want}'
    if e.get('k') == 'lit' and e.get('v') == 0:
        return 'zero'
    if e.get('k') == 'path' and e.get('res') == 'Local':
        return 'local'
    if e.get('k') == 'binary':
        return f'arithmetic ({e.get("op")})'
    if e.get('k') == 'mcall':
        return f'call {e.get("name")}'
    return e.get('k') or '?'


def r1_provenance(rep, facts):
    R = rep.rule('C14/R1', 'every Range<usize> built in toml_edit::parser takes its start from a `.start` and its end from an `.end` of spans produced by '
                 'span() / with_span() (no swapped operands, no +- arithmetic); the table span is widened on the current table from its own start to the value\'s end', floor=7)
    n = 0
    for d, b in sorted(facts.bodies.items()):
        if not d.startswith(P) or '::test::' in d:
            continue
        idx = 0
        for node, f in range_structs(b):
            # slicing ranges (index expressions) are not spans
            s = classify_bound(f['start'], 'start')
            e = classify_bound(f['end'], 'end')
            t = node.get('t') or ''
            if 'Range<usize>' not in t:
                continue
            key = f'{d.replace(P, "")}|range#{idx}'
            idx += 1
            n += 1
            ok = (s == 'ok' and e == 'ok') or (s == 'zero' and e == 'zero')
            rep.check(R, key, ok, f'start: {s}, end: {e}', f'span built in `{d.replace(P, "")}` with start: {s}, end: {e}: a reported span would not delimit the item\'s source text', facts.loc(b, node))
    # the table span: header start .. end of the last value, on the *current* table, before the dotted path is walked
    b = facts.body(P + 'state::ParseState::on_keyval')
    from .shared import local_origins, method_chain
    org = local_origins(b['body'])
    params = [p.get('name') for p in b.get('params', []) for p in walk(p) if p.get('k') == 'p_bind']
    detail = 'assignment to current_table.span not found'
    widen_pos = None
    descend_pos = None
    for i, x in enumerate(walk(b['body'])):
        if x.get('k') == 'assign':
            l = peel(x['lhs'])
            if l.get('k') == 'field' and l.get('name') == 'span':
                base = peel(l['base'])
                on_current = base.get('k') == 'field' and base.get('name') == 'current_table'
                rs = [{y['name']: y['e'] for y in nn.get('fields', [])} for nn in walk(x['rhs']) if nn.get('k') == 'struct' and (nn.get('path') or '').endswith('range::Range')]
                if rs:
                    _, sc = method_chain(rs[0]['start'], org)
                    er, ec = method_chain(rs[0]['end'], org)
                    detail = f'{"current_table" if on_current else "another table"}.span = {".".join(c.lstrip(".") for c in sc)}..{".".join(c.lstrip(".") for c in ec)}'
                    start_ok = '.current_table' in sc and 'span' in sc and sc[-1:] == ['.start']
                    end_ok = er in params and 'span' in ec and ec[-1:] == ['.end'] and '.current_table' not in ec
                    if on_current and start_ok and end_ok:
                        widen_pos = i
        if x.get('k') in ('call', 'mcall') and any(last_seg(c) == 'descend_path' for c in callee_all(x)):
            descend_pos = i if descend_pos is None else descend_pos
    ok = widen_pos is not None and (descend_pos is None or widen_pos < descend_pos)
    # decided by evaluation where on_keyval can be evaluated on the model state (shared.keyval_model, also C14/R11): however the widening is written
    # (a new range assigned, the end updated in place), the current table must span header start .. value end afterwards; the reading of the assignment
    # above is the fallback
    from .shared import keyval_model
    outs = list(keyval_model(facts))
    if outs and not any(isinstance(o, str) for _, o in outs) and any(o['ok'] for _, o in outs):
        spans = {c: o['span'] for c, o in outs if o['ok']}
        ok = all(v == ('range', 10, 34) for v in spans.values())
        detail = f'on_keyval evaluated on the model state (table span 10..20, value span 30..35): the table spans {sorted(set(map(str, spans.values())))} afterwards'
    rep.check(R, 'state::ParseState::on_keyval|table-span', ok, detail, f'the section\'s span is not widened as current_table.span = <its own span>.start..<the value\'s span>.end before the key path is walked ({detail}): '
              f'values written with dotted keys fall outside their table\'s span', facts.loc(b))
    # array-of-tables span: first.start..last.end
    b = facts.body(P + 'state::ParseState::finalize_table')
    from .shared import local_origins, method_chain
    org = local_origins(b['body'])
    okf = False
    how = 'no Range built in finalize_table'
    for node, f in range_structs(b):
        _, sc = method_chain(f['start'], org)
        _, ec = method_chain(f['end'], org)
        how = f'start = {".".join(x.lstrip(".") for x in sc)}, end = {".".join(x.lstrip(".") for x in ec)}'
        if 'first' in sc and 'last' not in sc and sc[-1:] == ['.start'] and 'last' in ec and 'first' not in ec and ec[-1:] == ['.end']:
            okf = True
    rep.check(R, 'state::ParseState::finalize_table|aot-span', okf, how, f'the array-of-tables span is not `values.first()`\'s start .. `values.last()`\'s end ({how}): with two or more elements '
              f'the range is reversed or too short, and rendering an error located on it subtracts with overflow', facts.loc(b))


def r2_despan(rep, facts):
    R = rep.rule('C14/R2', 'spans disappear when a document is made editable: every `span: Option<Range<usize>>` field is assigned None in its owner\'s despan', floor=4)
    for adt in ('toml_edit::table::Table', 'toml_edit::inline_table::InlineTable', 'toml_edit::array::Array', 'toml_edit::array_of_tables::ArrayOfTables'):
        a = facts.adts.get(adt)
        if not a or not any(f['name'] == 'span' for f in a['variants'][0]['fields']):
            rep.incomplete(R, adt, 'span field not found')
            continue
        d = f'{adt}::despan'
        if not facts.has_body(d):
            rep.bad(R, adt, f'`{adt}` has a span field but no despan')
            continue
        b = facts.body(d)
        cleared = any(n.get('k') == 'assign' and peel(n['lhs']).get('k') == 'field' and peel(n['lhs']).get('name') == 'span' and
                      (peel(n['rhs']).get('path') or '').endswith('Option::None') for n in walk(b['body']))
        rep.check(R, adt, cleared, 'self.span = None', f'`{d}` does not clear the span: after into_mut the node keeps a byte range into a source that no longer exists '
                  f'(stale spans reach Spanned<T> and error locations)', facts.loc(b))
    # Item::span / Value::span read those fields (and the repr spans) -> nothing else to clear
    # key and scalar spans live in RawString (despan turns Spanned into Explicit): C03/R1


def r3_bridge(rep, facts):
    R = rep.rule('C14/R3', 'serde bridge: SpannedDeserializer stores span.start / span.end unswapped and offers start, end, value in that order under '
                 'the private field names; serde_spanned assigns the same names to the same slots and builds start..end', floor=6)
    d = "toml_edit::de::spanned::SpannedDeserializer::<'de, T>::new"
    b = facts.body(d)
    got = {}
    for n in walk(b['body']):
        if n.get('k') == 'struct' and (n.get('adt') or '').endswith('SpannedDeserializer'):
            for f in n['fields']:
                inner = [x for x in walk(f['e']) if x.get('k') == 'field']
                got[f['name']] = inner[0]['name'] if inner else None
    rep.check(R, 'SpannedDeserializer::new', got.get('start') == 'start' and got.get('end') == 'end', f'start <- span.{got.get("start")}, end <- span.{got.get("end")}',
              f'SpannedDeserializer::new stores start <- span.{got.get("start")}, end <- span.{got.get("end")}', facts.loc(b))
    # the MapAccess protocol of SpannedDeserializer, evaluated on a model of its three slots: keys are offered as START, END, VALUE (each under its
    # private field name) and every next_value_seed hands out the slot that belongs to the key offered just before, whatever the shape of the code
    from .den import RecInterp, Unanalysable as UN, EvalPanic, Evaluator
    SOME, NONE = 'core::option::Option::Some', 'core::option::Option::None'
    meths = {}
    for meth in ('next_key_seed', 'next_value_seed'):
        dd = [x for x in facts.bodies if 'SpannedDeserializer' in x and last_seg(strip_generics(x)) == meth]
        if dd:
            meths[meth] = facts.body(dd[0])
    if len(meths) != 2:
        rep.incomplete(R, 'next_key_seed|order', 'MapAccess methods of SpannedDeserializer not found')
    else:
        def const(name):
            cb = [x for x in facts.bodies if x.endswith('::' + name) and x.startswith('serde_spanned::')]
            from .den import Evaluator as EV
            return bytes(EV(facts).bytes(facts.body(cb[0])['body'])).decode() if cb else None
        names = {const('START_FIELD'): 'START_FIELD', const('END_FIELD'): 'END_FIELD', const('VALUE_FIELD'): 'VALUE_FIELD'}
        state = {'start': ('ctor', SOME, ('START',)), 'end': ('ctor', SOME, ('END',)), 'value': ('ctor', SOME, ('VALUE',)), 'phantom_data': ('opaque',)}
        selfv = ('struct', 'SpannedDeserializer', state)
        keys, vals = [], []
        try:
            for step in range(4):
                bb = meths['next_key_seed']
                pn = [p['name'] for p in bb.get('params', []) if p.get('k') == 'p_bind']
                it = RecInterp(Evaluator(facts), {'deserialize', 'into_deserializer'}, {'new'})
                r = it.run(bb['body'], {pn[0]: selfv, pn[1]: ('seed',), '@assign': {}})
                news = [a for nm, a in it.calls if nm == 'new']
                if news and news[0] and isinstance(news[0][0], str):
                    keys.append(names.get(news[0][0], news[0][0]))
                else:
                    keys.append(None)
                    break
                bb = meths['next_value_seed']
                pn = [p['name'] for p in bb.get('params', []) if p.get('k') == 'p_bind']
                it = RecInterp(Evaluator(facts), {'deserialize', 'into_deserializer'}, {'new'})
                try:
                    it.run(bb['body'], {pn[0]: selfv, pn[1]: ('seed',), '@assign': {}})
                except EvalPanic:
                    vals.append('panic')
                    continue
                ds = [a for nm, a in it.calls if nm == 'deserialize']
                got = None
                if ds and ds[0] and isinstance(ds[0][0], tuple) and ds[0][0][:2] == ('rec', 'into_deserializer'):
                    got = ds[0][0][2]
                vals.append(got)
            rep.check(R, 'next_key_seed|order', keys == ['START_FIELD', 'END_FIELD', 'VALUE_FIELD', None], str(keys), f'keys are offered as {keys} (expected START_FIELD, END_FIELD, VALUE_FIELD, then the end of the map)', facts.loc(meths['next_key_seed']))
            rep.check(R, 'next_value_seed|order', vals == ['START', 'END', 'VALUE'], str(vals), f'values are handed out in the order {vals}, keys in the order start, end, value', facts.loc(meths['next_value_seed']))
        except UN as e:
            rep.incomplete(R, 'next_key_seed|order', f'cannot evaluate the MapAccess protocol: {e}', facts.loc(meths['next_key_seed']))
    vm = [x for x in facts.bodies if 'serde_spanned::spanned::Spanned' in x and x.endswith('visit_map')]
    if not vm:
        rep.incomplete(R, 'serde_spanned|visit_map', 'not found')
        return
    bb = facts.body(vm[0])
    pairs = {}
    for m in walk(bb['body']):
        if m.get('k') == 'match' and m.get('src') == 'Normal':
            for arm in m['arms']:
                cs = [last_seg(x['e'].get('path') or '') for x in walk(arm['pat']) if x.get('k') == 'p_expr' and x['e'].get('k') == 'path']
                asg = [(peel(x['lhs']).get('path') or '').split('#')[0] for x in walk(arm['body']) if x.get('k') == 'assign']
                if cs and asg:
                    pairs[cs[0]] = asg[0]
    rep.check(R, 'serde_spanned|slots', pairs == {'START_FIELD': 'start', 'END_FIELD': 'end', 'VALUE_FIELD': 'value'}, str(pairs), f'serde_spanned assigns {pairs}', facts.loc(bb))
    okr = False
    for node, f in range_structs(bb):
        okr = (peel(f['start']).get('path') or '').startswith('start') and (peel(f['end']).get('path') or '').startswith('end')
    rep.check(R, 'serde_spanned|range', okr, 'span: start..end', 'Spanned is not built as start..end', facts.loc(bb))
    # field order announced to the deserializer: the list passed to deserialize_struct (a literal, a local static or a module constant), evaluated
    from .den import Interp as _I
    dd = [x for x in facts.bodies if x.startswith('<serde_spanned::spanned::Spanned<T> as serde::de::Deserialize') and x.endswith('::deserialize')]
    if dd:
        bd = facts.body(dd[0])
        calls = [x for x in walk(bd['body']) if x.get('k') == 'mcall' and x.get('name') == 'deserialize_struct' and len(x.get('args', [])) >= 2]
        arr = None
        if len(calls) == 1:
            try:
                arr = list(_I(Evaluator(facts)).val(calls[0]['args'][1], {}))
            except (UN, TypeError):
                arr = None
        want = [const('START_FIELD'), const('END_FIELD'), const('VALUE_FIELD')] if len(meths) == 2 else None
        rep.check(R, 'serde_spanned|FIELDS', arr is not None and arr == want, str(arr), f'the field list given to deserialize_struct is {arr}, expected {want}', facts.loc(bd))


def r4_uniform(rep, facts):
    R = rep.rule('C14/R4', 'every toml_edit deserializer that has a span source tests is_spanned first in deserialize_struct and hands itself (the same '
                 'deserializer) to SpannedDeserializer, otherwise continues on the ordinary path', floor=4)
    n = 0
    for imp in facts.impls:
        if imp.get('trait') != DE or not (imp.get('self_ty') or '').startswith('toml_edit::de::') or 'Deserializer<S>' in imp['self_ty']:
            continue
        items = {it['name']: it['def'] for it in imp['items']}
        d = items.get('deserialize_struct')
        if not d or not facts.has_body(d) or facts.body(d).get('x'):
            continue
        b = facts.body(d)
        n += 1
        first = None
        stmts = b['body'].get('stmts', []) + ([b['body']['expr']] if b['body'].get('expr') else [])
        # the Spanned test comes before anything that looks at the target's name or fields; plain `let` bindings (a span read into a local) may precede it
        for s_ in stmts:
            s0 = peel(s_)
            if s0.get('k') in ('let', 'semi') and s0.get('k') == 'let':
                continue
            if s0.get('k') == 'if' and any(last_seg(c) == 'is_spanned' for x in calls_in(s0['cond']) for c in callee_all(x)):
                first = s0
            break
        ok = False
        detail = 'is_spanned is not the first test'
        if first is not None:
            news = [x for x in walk(first['then']) if x.get('k') == 'call' and 'SpannedDeserializer' in ((peel(x.get('f', {})).get('path') or ''))]
            if news:
                a0 = peel(news[0]['args'][0])
                selfish = any(x.get('k') == 'path' and (x.get('path') or '').startswith('self') for x in walk(a0))
                vm = any(x.get('k') == 'mcall' and x.get('name') == 'visit_map' for x in walk(first['then']))
                ok = selfish and vm
                detail = f'visit_map(SpannedDeserializer::new({"self.." if selfish else a0.get("k")}, span))'
        rep.check(R, imp['self_ty'], ok, detail, f'`{imp["self_ty"]}::deserialize_struct`: {detail} — wrapping a target in Spanned would change how (or whether) the value decodes', facts.loc(b))
    rep.check(R, 'count', n >= 4, f'{n} span-carrying deserializers', f'only {n} explicit deserialize_struct impls in toml_edit::de')


def r4c_spanned_evaluated(rep, facts):
    R = rep.rule('C14/R4c', 'wrapping a target in Spanned never changes whether decoding succeeds: deserialize_struct of every span-carrying toml_edit deserializer, evaluated '
                 'with the Spanned marker name and fields, hands over visit_map(SpannedDeserializer::new(self, span)) for every span the item has — an ordinary one and the '
                 'empty one (the root of a document without top-level pairs is 0..0)', floor=8)
    from .den import RecInterp, Evaluator, Interp, EvalPanic, Unanalysable
    ev = Evaluator(facts)
    SOME_ = 'core::option::Option::Some'
    try:
        it0 = Interp(ev)
        name = it0.val({'k': 'path', 'res': 'Const', 'path': 'serde_spanned::spanned::NAME'}, {})
        fields = tuple(it0.val({'k': 'path', 'res': 'Const', 'path': 'serde_spanned::spanned::' + c}, {}) for c in ('START_FIELD', 'END_FIELD', 'VALUE_FIELD'))
    except Unanalysable as ex:
        rep.incomplete(R, 'marker', f'cannot evaluate the Spanned marker constants: {ex}')
        return
    if not isinstance(name, str) or not all(isinstance(x, str) for x in fields):
        rep.incomplete(R, 'marker', f'the Spanned marker constants are not strings ({name!r}, {fields!r})')
        return
    for imp in facts.impls:
        if imp.get('trait') != DE or not (imp.get('self_ty') or '').startswith('toml_edit::de::') or 'Deserializer<S>' in imp['self_ty']:
            continue
        items = {x['name']: x['def'] for x in imp['items']}
        d = items.get('deserialize_struct')
        if not d or not facts.has_body(d) or facts.body(d).get('x'):
            continue
        b = facts.body(d)
        for label, span in (('an ordinary span', ('range', 3, 8)), ('the empty span', ('range', 0, -1))):      # the evaluator keeps ranges with an inclusive end: 3..9 and 0..0
            me = ('struct', imp['self_ty'], {'input': ('opaque',), 'span': ('ctor', SOME_, (span,)), 'validate_struct_keys': False, 'key': 'k', 'items': ('opaque',)})
            it = RecInterp(ev, {'visit_map'}, {'new'}, stubs={'span': ('ctor', SOME_, (span,))})
            try:
                r = it.apply_fn(b, [me, name, fields, ('opaque',)])
            except EvalPanic as ex:
                rep.bad(R, f'{imp["self_ty"]}|{label}', f'`{d}` panics for an item with {label}: {ex}', facts.loc(b))
                continue
            except Unanalysable as ex:
                rep.incomplete(R, f'{imp["self_ty"]}|{label}', f'`{d}` asked for Spanned<T> on an item with {label} does not reach visit_map(SpannedDeserializer::new(self, span)) '
                               f'within what the evaluator models ({ex})', facts.loc(b))
                continue
            ok = isinstance(r, tuple) and r[:2] == ('rec', 'visit_map') and len(r[3]) == 1 and isinstance(r[3][0], tuple) and r[3][0][:2] == ('rec', 'new') \
                and len(r[3][0][3]) == 2 and r[3][0][3][1] == span
            rep.check(R, f'{imp["self_ty"]}|{label}', ok, 'visit_map(SpannedDeserializer::new(self, span))',
                      f'`{d}` asked for Spanned<T> on an item with {label} does not answer with the span map (it evaluates to {str(r)[:80]}): decoding the same item as Spanned<T> fails '
                      f'or differs from decoding it as T', facts.loc(b))


def r4b_newtype_transparent(rep, facts):
    R = rep.rule('C14/R4b', 'a newtype around Spanned<T> decodes like Spanned<T>: every span-carrying deserializer of toml_edit (value, key, table) hands ITSELF to '
                 'visit_newtype_struct, so that the inner deserialize_struct still sees the span source (a plain string / map deserializer in its place loses the span '
                 'and makes the Spanned wrapper fail)', floor=3)
    n = 0
    for imp in facts.impls:
        if imp.get('trait') != DE or not (imp.get('self_ty') or '').startswith('toml_edit::de::') or 'Deserializer<S>' in imp['self_ty']:
            continue
        items = {it['name']: it['def'] for it in imp['items']}
        d = items.get('deserialize_newtype_struct')
        ds = items.get('deserialize_struct')
        # only deserializers that answer is_spanned themselves carry a span to lose
        if not d or not facts.has_body(d) or facts.body(d).get('x') or not ds or not facts.has_body(ds) or \
                not any(last_seg(c) == 'is_spanned' for x in calls_in(facts.body(ds)['body']) for c in callee_all(x)):
            continue
        b = facts.body(d)
        n += 1
        selfname = [p_['name'] for p_ in b.get('params', []) if p_.get('k') == 'p_bind'][0]
        calls = [x for x in walk(b['body']) if x.get('k') == 'mcall' and x.get('name') == 'visit_newtype_struct' and x.get('args')]
        ok = len(calls) == 1 and peel(calls[0]['args'][0]).get('k') == 'path' and peel(calls[0]['args'][0]).get('path') == selfname
        what = 'self' if ok else (f'{len(calls)} calls' if len(calls) != 1 else 'an expression other than `self`')
        rep.check(R, imp['self_ty'], ok, 'visit_newtype_struct(self)', f'`{imp["self_ty"]}::deserialize_newtype_struct` hands {what} to visit_newtype_struct: the span source is lost behind a '
                  f'newtype, so `struct N(Spanned<T>)` fails or gets no range where `Spanned<T>` works', facts.loc(b))
    rep.check(R, 'count', n >= 3, f'{n} span-carrying deserializers with an explicit deserialize_newtype_struct', f'only {n} found (value, key and table deserializers expected)')


def r6_attach(rep, facts):
    R = rep.rule('C14/R6', 'span attachment covers every value kind: apply_raw has an arm for each Value variant storing the span it was given; '
                 'simple_key attaches its own with_span() range', floor=8)
    b = facts.body(P + 'value::apply_raw')
    variants = [v['name'] for v in facts.adts['toml_edit::value::Value']['variants']]
    seen = {}
    sp = [x['name'] for p in b['params'] for x in walk(p) if x.get('k') == 'p_bind' and 'Range' in (x.get('t') or '')]
    for m in walk(b['body']):
        if m.get('k') == 'match' and m.get('src') == 'Normal':
            for arm in m['arms']:
                vs = [last_seg(x.get('path') or '') for x in walk(arm['pat']) if x.get('k') in ('p_tuplestruct', 'p_struct')]
                uses = any(x.get('k') == 'path' and x.get('path') in sp for x in walk(arm['body']))
                stores = any((x.get('k') == 'assign' and peel(x['lhs']).get('name') == 'span') or (x.get('k') == 'mcall' and x.get('name') == 'set_repr_unchecked') for x in walk(arm['body']))
                for v in vs:
                    seen[v] = uses and stores
    for v in variants:
        rep.check(R, f'apply_raw|{v}', seen.get(v, False), 'stores the span', f'apply_raw does not attach the span to `Value::{v}`', facts.loc(b))
    b = facts.body(P + 'key::simple_key')
    ws = any(x.get('k') == 'mcall' and x.get('name') == 'with_span' for x in walk(b['body']))
    rs = any(x.get('k') == 'call' and last_seg((peel(x.get('f', {})).get('path') or '')) == 'with_span' for x in walk(b['body']))
    rep.check(R, 'simple_key|with_span', ws and rs, '.with_span().map(|(k, span)| (RawString::with_span(span), k))', 'simple_key no longer records its own span', facts.loc(b))
    b = facts.body(P + 'value::value')
    ws = any(x.get('k') == 'mcall' and x.get('name') == 'with_span' for x in walk(b['body']))
    ar = any(last_seg(c) == 'apply_raw' for x in calls_in(b['body']) for c in callee_all(x)) or \
        any(x.get('k') == 'path' and x.get('res') in ('Fn', 'AssocFn') and last_seg(x.get('path') or '') == 'apply_raw' for x in walk(b['body']))
    rep.check(R, 'value|with_span', ws and ar, '.with_span().map(apply_raw)', 'value no longer passes its with_span() range to apply_raw', facts.loc(b))


def r6b_header_span(rep, facts):
    R = rep.rule('C14/R6b', 'a `[table]` / `[[array]]` header is spanned as the bracketed header only: in std_table and array_table `with_span()` is applied to '
                 'the delimited(open, key, close) parser, not to anything that also reads the rest of the line (trailing whitespace, comment, line end)', floor=2)
    from . import parsemodel as pm
    g = pm.model(facts)
    for fn in ('table::std_table', 'table::array_table'):
        try:
            t = pm.term(g, fn)
        except AnalysisIncomplete as e:
            rep.incomplete(R, fn, str(e))
            continue
        spans = [x for x in g.subterms(t) if x['op'] == 'map' and x['kind'] in ('with_span', 'span')]
        b = facts.body(pm.P + fn)
        ok = len(spans) == 1
        how = f'{len(spans)} with_span() in the header parser'
        if ok:
            inner = spans[0]['p']
            reads_line = [f for f in pm.trans_mentions(g, inner) | set(g.mentions(inner)) if last_seg(f) in ('line_trailing', 'line_ending', 'comment', 'newline')]
            lits = [bytes(x['bytes']) for x in g.subterms(inner) if x['op'] == 'lit']
            ok = not reads_line and any(l.startswith(b'[') for l in lits) and any(l.startswith(b']') for l in lits)
            how = 'with_span() over `[` key `]`' if ok else f'with_span() also covers {sorted(last_seg(f) for f in reads_line) or "something else than the brackets"}'
        rep.check(R, fn, ok, how, f'`{fn}`: {how}: the span of a table without own values then includes the trailing comment and the line end', facts.loc(b))


def r9_header_span_kept(rep, facts):
    R = rep.rule('C14/R9', 'the table a header opens carries that header\'s span, whichever table it is: start_table / start_array_table evaluated on a model parser '
                 'state, with nothing under the name and with a header-implied table there (which `[t]` adopts — a table that has no span of its own)', floor=4)
    from .shared import header_start_model
    for fn, case, out in header_start_model(facts):
        if not (case in ('nothing there', 'a header-implied table there') and not (fn == 'start_array_table' and case == 'a header-implied table there')) \
                and not (fn == 'start_array_table' and case == 'an array of tables there'):
            continue            # names a header may not reopen: C09/R2
        d = 'toml_edit::parser::state::ParseState::' + fn
        loc = facts.loc(facts.body(d)) if facts.has_body(d) else ''
        if isinstance(out, str):
            (rep.incomplete if out.startswith('unanalysable') else rep.bad)(R, f'{fn}|{case}', f'`{fn}` with {case}: {out}', loc)
            continue
        if out is None:
            rep.bad(R, f'{fn}|{case}', f'`{fn}` refuses a header with {case} under its name', loc)
            continue
        rep.check(R, f'{fn}|{case}', out['span'] == ('range', 10, 15), f'span = the header\'s ({"adopted table" if out["adopted"] else "fresh table"})',
                  f'`{fn}` with {case}: the table opened has span {out["span"]!r} instead of the header\'s span — Item::span() of that table is None or stale and Spanned<T> of it fails to decode', loc)


def r10_array_span(rep, facts):
    R = rep.rule('C14/R10', 'an array of tables spans from its first element\'s header to the end of its last: finalize_table evaluated on a model state where a second '
                 '`[[a.b]]` element (span 10..20) is attached after a first one (span 1..6)', floor=1)
    from .shared import finalize_model
    d = 'toml_edit::parser::state::ParseState::finalize_table'
    loc = facts.loc(facts.body(d)) if facts.has_body(d) else ''
    for case, out in finalize_model(facts):
        if case != '[[a.b]] with an array of tables under the name':
            continue
        if isinstance(out, str):
            (rep.incomplete if out.startswith('unanalysable') else rep.bad)(R, 'array-span', f'finalize_table, {case}: {out}', loc)
            continue
        rep.check(R, 'array-span', out.get('span') == ('range', 1, 19), '1..20', f'after attaching the second element the array of tables has span {out.get("span")!r} '
                  f'(inclusive end) instead of 1..20: it does not cover its elements, or is stale', loc)


def r11_table_span_grows(rep, facts):
    R = rep.rule('C14/R11', 'a table spans from its header to the end of its last value: on_keyval evaluated on a model state (table span 10..20, value span 30..35) leaves the '
                 'current table spanning 10..35', floor=2)
    from .shared import keyval_model
    d = 'toml_edit::parser::state::ParseState::on_keyval'
    loc = facts.loc(facts.body(d)) if facts.has_body(d) else ''
    for case, out in keyval_model(facts):
        if isinstance(out, str):
            (rep.incomplete if out.startswith('unanalysable') else rep.bad)(R, case, f'on_keyval, {case}: {out}', loc)
            continue
        if not out['ok']:
            continue
        rep.check(R, case, out['span'] == ('range', 10, 34), '10..35', f'on_keyval, {case}: afterwards the current table spans {out["span"]!r} (inclusive end) instead of 10..35: '
                  f'the value lies outside its table\'s span', loc)


SPANNED_TYPES = ('toml_edit::key::Key', 'toml_edit::item::Item', 'toml_edit::value::Value', 'toml_edit::table::Table', 'toml_edit::inline_table::InlineTable',
                 'toml_edit::array::Array', 'toml_edit::array_of_tables::ArrayOfTables')


def r12_error_names_its_place(rep, facts):
    R = rep.rule('C14/R12', 'an error is located at the item its message is about: in every `Error::custom(message, span)` of toml_edit::de whose message is formatted from an '
                 'item of the document (a key, a value, a table), the span is taken from that same item — not from a sibling bound next to it', floor=5)
    n = 0
    for d, b in sorted(facts.bodies.items()):
        if 'toml_edit::de::' not in d:
            continue
        for c in calls_in(b['body']):
            cs = [strip_generics(x) for x in callee_all(c)]
            if not (cs and cs[0].endswith('de::Error::custom') and len(c.get('args', [])) == 2):
                continue
            spanned = lambda node: {x['path'] for x in walk(node) if x.get('k') == 'path' and x.get('res') == 'Local' and any(t in (x.get('t') or '') for t in SPANNED_TYPES)}
            about, where = spanned(c['args'][0]), spanned(c['args'][1])
            if not about or not where:
                continue
            n += 1
            nm = lambda s_: sorted(x.split('#')[0] for x in s_)
            rep.check(R, f'{last_seg(strip_generics(d))}|{"+".join(nm(about))}#{n}', where <= about, f'message about {nm(about)}, located at {nm(where)}',
                      f'`{d}`: the error message is formatted from {nm(about)} but its location is taken from {nm(where)}: the reported range is not the source text of the item the '
                      f'message names', facts.loc(b, c))
    rep.check(R, 'count', n >= 4, f'{n} located messages', f'only {n} Error::custom calls with a message about a document item found')


def r13_spanned_transparent(rep, facts):
    R = rep.rule('C14/R13', 'Spanned<T> compares, orders, hashes and serializes as the T it wraps: the PartialEq, PartialOrd, Ord, Hash and Serialize impls of Spanned read the value only '
                 '(a hash or comparison that looks at the byte range makes equal values written at different places different keys of a map or set)', floor=5)
    want = ('core::cmp::PartialEq', 'core::cmp::PartialOrd', 'core::cmp::Ord', 'core::hash::Hash', 'serde::ser::Serialize')
    seen = set()
    for imp in facts.impls:
        st = imp.get('self_ty') or ''
        tr = (imp.get('trait') or '').split('<')[0]
        if not st.startswith('serde_spanned::spanned::Spanned') or tr not in want:
            continue
        for it in imp['items']:
            if it['name'] not in ('eq', 'partial_cmp', 'cmp', 'hash', 'serialize') or not facts.has_body(it['def']):
                continue
            b = facts.body(it['def'])
            reads = sorted({x.get('name') for x in walk(b['body']) if x.get('k') == 'field'})
            seen.add(tr)
            rep.check(R, f'{last_seg(tr)}::{it["name"]}', reads == ['value'], 'reads the value only', f'`{it["def"]}` reads {reads} of the Spanned wrapper'
                      + (' (a derived impl)' if b.get('x') else '') + ': two equal values at different places in the document are unequal / hash differently, so wrapping a key or element type in '
                      'Spanned changes the decoded collection', facts.loc(b))
    for tr in want:
        if tr not in seen:
            rep.bad(R, last_seg(tr), f'no impl of {tr} for Spanned<T> found (the wrapper no longer stands in for the value in this role)')


def rules(rep, facts):
    feats = set(facts.crates.get('toml_edit', {}).get('features', []))
    if 'toml_edit' not in facts.crates or 'parse' not in feats:
        rep.notes.append(f'configuration {facts.config}: parser not compiled, rules skipped.')
        return
    r1_provenance(rep, facts)
    r2_despan(rep, facts)
    r6_attach(rep, facts)
    r6b_header_span(rep, facts)
    r9_header_span_kept(rep, facts)
    from .rules_events import r_spans
    r_spans(rep, facts)
    if facts.config == 'default':
        # making a document editable drops every span in every build: the same question in the build that has the parser but not the printer
        from .core import Facts as _Facts
        r_spans(rep, _Facts('edit_parse'), label='edit_parse|', editable_only=True)
    r10_array_span(rep, facts)
    r11_table_span_grows(rep, facts)
    if 'serde' in feats and 'serde_spanned' in facts.crates:
        r3_bridge(rep, facts)
        r4_uniform(rep, facts)
        r4b_newtype_transparent(rep, facts)
        r4c_spanned_evaluated(rep, facts)
        r12_error_names_its_place(rep, facts)
        r13_spanned_transparent(rep, facts)
        from .rules_c15 import r1_span_attached
        r1_span_attached(rep, facts)
        rep.relabel('C15/R1', 'C14/R7', 'error locations delivered through serde are the innermost value\'s span: ')
        from .rules_c15 import r2c_source_kept
        r2c_source_kept(rep, facts)
        rep.relabel('C15/R2c', 'C14/R8', 'spans reach serde through every text entry point (Spanned<T> decodes the same whichever entry point is used): ')


def _witnesses(rep):
    from .witness import report
    report(rep, 'C14/R5', 'type level (compile-fail witnesses): spans cannot be forged or written from outside the crate; a parsed document is immutable', ['w02_rawstring_span_is_private', 'w07_table_span_is_private', 'w01_imdocument_is_immutable'])


def run(tier):
    return run_property(PROP, tier, rules, configs_thorough=['default', 'perf', 'edit_parse', 'edit_parse_serde', 'toml_parse'], extra=_witnesses if tier == 'thorough' else None)
