"""Per-method summaries of the container API against a reference ordered map / vector (C16/R9 = C08/R8).

Each public method of Table / InlineTable / toml::Map / Array / ArrayOfTables is evaluated (verif/places.py) on a small model container for
every kind of key (present, absent, a placeholder left by mutable indexing, resp. every index), and the result — return value and visible
state afterwards — is compared with the same operation on a plain Python ordered dict / list.  If every operation refines its reference
operation on this domain, a sequence of operations does too (the visible state after one call is again a state of the domain).
"""
from .core import last_seg
from .den import Evaluator, Unanalysable, EvalPanic, VecObj
from .places import PlaceInterp, MapObj, plain, keyname, deref, SOME, NONE

I, V = 'toml_edit::item::Item::', 'toml_edit::value::Value::'
NONE_ITEM = ('ctor', I + 'None')
opt_none = ('ctor', NONE)


def key(n):
    dec = lambda w: ('struct', 'toml_edit::repr::Decor', {'prefix': opt_none, 'suffix': opt_none, 'of': (w, n)})
    return ('struct', 'toml_edit::key::Key', {'key': n, 'repr': opt_none, 'leaf_decor': dec('leaf'), 'dotted_decor': dec('dotted')})


def fval(tag):
    """a Value::Integer whose payload carries a tag (and a decor that can be reset)"""
    return ('ctor', V + 'Integer', (('struct', 'toml_edit::repr::Formatted', {'value': ('elem', tag), 'repr': opt_none,
                                                                              'decor': ('struct', 'toml_edit::repr::Decor', {'prefix': opt_none, 'suffix': opt_none})}),))


def tag_of(v):
    """the tag of a model item / value (None for a placeholder)"""
    v = plain(v)

    def rec(x):
        if isinstance(x, tuple):
            if len(x) == 2 and x[0] == 'elem':
                return x[1]
            for y in x:
                r = rec(y)
                if r is not None:
                    return r
        elif isinstance(x, dict):
            for y in x.values():
                r = rec(y)
                if r is not None:
                    return r
        return None
    return rec(v)


def tv(x):
    """what an item is, for comparison with the reference: its tag, or 'a placeholder'"""
    return 'a placeholder' if is_placeholder(x) else tag_of(x)


def is_placeholder(v):
    v = plain(v)
    return isinstance(v, tuple) and len(v) >= 2 and v[0] == 'ctor' and v[1] == I + 'None'


def unopt(r):
    r = deref(r)
    if isinstance(r, tuple) and len(r) >= 2 and r[0] == 'ctor' and r[1] == NONE:
        return None
    if isinstance(r, tuple) and len(r) == 3 and r[0] == 'ctor' and r[1] == SOME:
        return r[2][0]
    return r


class Outcome:
    def __init__(self, ret, state):
        self.ret, self.state = ret, state

    def __eq__(self, o):
        return self.ret == o.ret and self.state == o.state

    def __repr__(self):
        return f'returns {self.ret!r}, leaves {self.state!r}'


def _table_model(ty, entries):
    f = {'items': MapObj([(key(n), it) for n, it in entries]), 'decor': ('struct', 'toml_edit::repr::Decor', {'prefix': opt_none, 'suffix': opt_none}), 'implicit': False, 'dotted': False,
         'span': opt_none}
    if ty.endswith('InlineTable'):
        f['preamble'] = ('opaque',)
    else:
        f['doc_position'] = opt_none
    return ('struct', ty, f)


def _visible(model):
    return [(keyname(k), tag_of(v)) for k, v in model[2]['items'].pairs if not is_placeholder(v)]


def r8_map_summaries(rep, facts, rid='C16/R9'):
    R = rep.rule(rid, 'every keyed operation of Table and InlineTable does what the same operation does on a plain ordered map: evaluated on a container holding `a`, a placeholder '
                 'left by mutable indexing under `ghost`, and `b`, for the keys `a`, `ghost`, `b` and a new one — the return value and the entries visible afterwards (placeholders '
                 'do not count) equal those of the reference operation', floor=75)
    NEW = 'NEW'
    for ty, mkitem, short in (('toml_edit::table::Table', lambda t: ('ctor', I + 'Value', (fval(t),)) if t != 'b' else ('ctor', I + 'Table', (_table_model('toml_edit::table::Table', ()),)) , 'Table'),
                              ('toml_edit::inline_table::InlineTable', lambda t: ('ctor', I + 'Value', (fval(t),)), 'InlineTable')):
        if ty not in facts.adts:
            continue
        inline = short == 'InlineTable'

        def fresh():
            b_item = mkitem('b')
            if not inline:
                b_item[2][0][2]['tagged'] = ('elem', 'b')
            return _table_model(ty, (('a', mkitem('a')), ('ghost', NONE_ITEM), ('b', b_item)))
        new_arg = (lambda: fval(NEW)) if inline else (lambda: ('ctor', I + 'Value', (fval(NEW),)))
        ref0 = [('a', 'a'), ('b', 'b')]

        def ref_insert(q):
            st = list(ref0)
            for i, (k, v) in enumerate(st):
                if k == q:
                    st[i] = (k, NEW)
                    return Outcome(v, st)
            return Outcome(None, st + [(q, NEW)])

        def ref_remove(q, entry=False):
            st = [(k, v) for k, v in ref0 if k != q]
            hit = [(k, v) for k, v in ref0 if k == q]
            return Outcome(((hit[0][0], hit[0][1]) if entry else hit[0][1]) if hit else None, st)

        def ref_get(q, pair=False, truth=False):
            hit = [(k, v) for k, v in ref0 if k == q]
            if truth:
                return Outcome(bool(hit), list(ref0))
            return Outcome((hit[0] if pair else hit[0][1]) if hit else None, list(ref0))

        def ref_or_insert(q):
            hit = [v for k, v in ref0 if k == q]
            return Outcome(hit[0], list(ref0)) if hit else Outcome(NEW, ref0 + [(q, NEW)])
        ops = []
        ops.append(('insert', lambda q: [q, new_arg()], lambda r: tv(unopt(r)) if unopt(r) is not None else None, ref_insert))
        ops.append(('insert_formatted', lambda q: [key(q), new_arg()], lambda r: tv(unopt(r)) if unopt(r) is not None else None, ref_insert))
        ops.append(('remove', lambda q: [q], lambda r: tv(unopt(r)) if unopt(r) is not None else None, ref_remove))
        ops.append(('remove_entry', lambda q: [q], lambda r: (keyname(unopt(r)[0]), tv(unopt(r)[1])) if unopt(r) is not None else None, lambda q: ref_remove(q, True)))
        ops.append(('get', lambda q: [q], lambda r: tv(unopt(r)) if unopt(r) is not None else None, ref_get))
        ops.append(('get_mut', lambda q: [q], lambda r: tv(unopt(r)) if unopt(r) is not None else None, ref_get))
        ops.append(('get_key_value', lambda q: [q], lambda r: (keyname(unopt(r)[0]), tv(unopt(r)[1])) if unopt(r) is not None else None, lambda q: ref_get(q, pair=True)))
        ops.append(('contains_key', lambda q: [q], lambda r: deref(r), lambda q: ref_get(q, truth=True)))
        # (`key`, `key_mut`, `key_decor` are accessors to a stored key's formatting, not lookups: not part of the map contract)
        if inline:
            ops.append(('get_or_insert', lambda q: [q, fval(NEW)], lambda r: tv(r), ref_or_insert))
        for meth, mkargs, view, ref in ops:
            d = f'{ty}::{meth}'
            if not facts.has_body(d):
                continue
            b = facts.body(d)
            for q in ('a', 'ghost', 'b', 'new'):
                model = fresh()
                it = PlaceInterp(Evaluator(facts), {'fmt'})
                try:
                    r = it.apply_fn(b, [model] + mkargs(q))
                    got = Outcome(view(r), _visible(model))
                except EvalPanic as ex:
                    rep.bad(R, f'{short}::{meth}|{q}', f'`{d}` panics for the key `{q}`: {ex}', facts.loc(b))
                    continue
                except (Unanalysable, TypeError, IndexError, KeyError) as ex:
                    rep.incomplete(R, f'{short}::{meth}|{q}', f'cannot evaluate `{d}` for the key `{q}`: {ex}', facts.loc(b))
                    continue
                want = ref(q)
                rep.check(R, f'{short}::{meth}|{q}', got == want, f'{got}',
                          f'`{d}` with the key `{q}`' + (' (a placeholder left by mutable indexing)' if q == 'ghost' else '') + f' {got}; a plain ordered map holding a, b {want}', facts.loc(b))
        # the entry API
        d = f'{ty}::entry'
        if facts.has_body(d):
            b = facts.body(d)
            for q in ('a', 'ghost', 'b', 'new'):
                model = fresh()
                it = PlaceInterp(Evaluator(facts), {'fmt'})
                try:
                    ent = it.apply_fn(b, [model, q])
                    kind = last_seg(deref(ent)[1]) if isinstance(deref(ent), tuple) and len(deref(ent)) > 1 else '?'
                    orins = None
                    for imp in facts.impls:
                        pass
                    dd = f'{ty.rsplit("::", 1)[0]}::{"InlineEntry" if inline else "Entry"}::<\'a>::or_insert'
                    if not facts.has_body(dd):
                        cands = [x for x in facts.bodies if x.endswith('::or_insert') and x.startswith(ty.rsplit('::', 1)[0] + '::') and ('InlineEntry' in x) == inline and 'Entry' in x]
                        dd = cands[0] if cands else None
                    if dd is None:
                        raise Unanalysable('or_insert of the entry type not found')
                    r = it.apply_fn(facts.body(dd), [ent, new_arg()])
                    got = Outcome((kind, tv(r)), _visible(model))
                except EvalPanic as ex:
                    rep.bad(R, f'{short}::entry|{q}', f'`{d}(..).or_insert(..)` panics for the key `{q}`: {ex}', facts.loc(b))
                    continue
                except (Unanalysable, TypeError, IndexError, KeyError) as ex:
                    rep.incomplete(R, f'{short}::entry|{q}', f'cannot evaluate `{d}(..).or_insert(..)` for the key `{q}`: {ex}', facts.loc(b))
                    continue
                w = ref_or_insert(q)
                want = Outcome(('Occupied' if any(k == q for k, _ in ref0) else 'Vacant', w.ret), w.state)
                rep.check(R, f'{short}::entry|{q}', got == want, f'{got}',
                          f'`{d}("{q}").or_insert(NEW)`' + (' (a placeholder left by mutable indexing)' if q == 'ghost' else '') + f' {got}; a plain ordered map holding a, b {want}', facts.loc(b))
        # whole-container operations
        for meth, args, want in (('clear', lambda it: [], []), ('retain', lambda it: [('pyfn', lambda k, v: keyname(k) != 'a')],
                                                                                [('b', 'b')]),
                                 ('sort_values', lambda it: [], sorted(ref0))):
            d = f'{ty}::{meth}'
            if not facts.has_body(d):
                continue
            b = facts.body(d)
            model = fresh()
            # start from the order b, a so that sorting has something to do
            if meth == 'sort_values':
                model[2]['items'].pairs.reverse()
            it = PlaceInterp(Evaluator(facts), {'fmt'})
            try:
                it.apply_fn(b, [model] + args(it))
                got = _visible(model)
            except EvalPanic as ex:
                rep.bad(R, f'{short}::{meth}', f'`{d}` panics: {ex}', facts.loc(b))
                continue
            except (Unanalysable, TypeError, IndexError, KeyError) as ex:
                rep.incomplete(R, f'{short}::{meth}', f'cannot evaluate `{d}`: {ex}', facts.loc(b))
                continue
            rep.check(R, f'{short}::{meth}', got == want, f'leaves {got}', f'`{d}` leaves {got}; a plain ordered map is left with {want}', facts.loc(b))
