"""Per-method summaries of the container API against a reference ordered map / vector (C16/R9 = C08/R8).

Each public method of Table / InlineTable / toml::Map / Array / ArrayOfTables is evaluated (verif/places.py) on a small model container for
every kind of key (present, absent, a placeholder left by mutable indexing, resp. every index), and the result — return value and visible
state afterwards — is compared with the same operation on a plain Python ordered dict / list.  If every operation refines its reference
operation on this domain, a sequence of operations does too (the visible state after one call is again a state of the domain).
"""
from .core import last_seg
from .den import Evaluator, Unanalysable, EvalPanic, VecObj
from .places import PlaceInterp, MapObj, plain, keyname, deref, SOME, NONE

I, V = 'toml_edit::item::Item::', 'toml_edit::value::Value::'
NONE_ITEM = ('ctor', I + 'None')
opt_none = ('ctor', NONE)


def key(n):
    dec = lambda w: ('struct', 'toml_edit::repr::Decor', {'prefix': opt_none, 'suffix': opt_none, 'of': (w, n)})
    return ('struct', 'toml_edit::key::Key', {'key': n, 'repr': opt_none, 'leaf_decor': dec('leaf'), 'dotted_decor': dec('dotted')})


def fval(tag):
    """a Value::Integer whose payload carries a tag (and a decor that can be reset)"""
    return ('ctor', V + 'Integer', (('struct', 'toml_edit::repr::Formatted', {'value': ('elem', tag), 'repr': opt_none,
                                                                              'decor': ('struct', 'toml_edit::repr::Decor', {'prefix': opt_none, 'suffix': opt_none})}),))


def tag_of(v):
    """the tag of a model item / value (None for a placeholder)"""
    v = plain(v)

    def rec(x):
        if isinstance(x, tuple):
            if len(x) == 2 and x[0] == 'elem':
                return x[1]
            for y in x:
                r = rec(y)
                if r is not None:
                    return r
        elif isinstance(x, dict):
            for y in x.values():
                r = rec(y)
                if r is not None:
                    return r
        return None
    return rec(v)


def tv(x):
    """what an item is, for comparison with the reference: its tag, or 'a placeholder'"""
    return 'a placeholder' if is_placeholder(x) else tag_of(x)


def is_placeholder(v):
    v = plain(v)
    return isinstance(v, tuple) and len(v) >= 2 and v[0] == 'ctor' and v[1] == I + 'None'


def unopt(r):
    r = deref(r)
    if isinstance(r, tuple) and len(r) >= 2 and r[0] == 'ctor' and r[1] == NONE:
        return None
    if isinstance(r, tuple) and len(r) == 3 and r[0] == 'ctor' and r[1] == SOME:
        return r[2][0]
    return r


class Outcome:
    def __init__(self, ret, state):
        self.ret, self.state = ret, state

    def __eq__(self, o):
        return isinstance(o, Outcome) and self.ret == o.ret and self.state == o.state

    def __ne__(self, o):
        return not self.__eq__(o)

    def __repr__(self):
        return f'returns {self.ret!r}, leaves {self.state!r}'


def _table_model(ty, entries):
    f = {'items': MapObj([(key(n), it) for n, it in entries]), 'decor': ('struct', 'toml_edit::repr::Decor', {'prefix': opt_none, 'suffix': opt_none}), 'implicit': False, 'dotted': False,
         'span': opt_none}
    if ty.endswith('InlineTable'):
        f['preamble'] = ('opaque',)
    else:
        f['doc_position'] = opt_none
    return ('struct', ty, f)


def _visible(model):
    return [(keyname(k), tag_of(v)) for k, v in model[2]['items'].pairs if not is_placeholder(v)]


def r8_map_summaries(rep, facts, rid='C16/R9'):
    R = rep.rule(rid, 'every keyed operation of Table and InlineTable does what the same operation does on a plain ordered map: evaluated on a container holding `a`, a placeholder '
                 'left by mutable indexing under `ghost`, `b` and `c`, for the keys `a`, `ghost`, `b`, `c` and a new one — the return value and the entries visible afterwards (placeholders '
                 'do not count) equal those of the reference operation', floor=95)
    NEW = 'NEW'
    for ty, mkitem, short in (('toml_edit::table::Table', lambda t: ('ctor', I + 'Value', (fval(t),)) if t != 'b' else ('ctor', I + 'Table', (_table_model('toml_edit::table::Table', ()),)) , 'Table'),
                              ('toml_edit::inline_table::InlineTable', lambda t: ('ctor', I + 'Value', (fval(t),)), 'InlineTable')):
        if ty not in facts.adts:
            continue
        inline = short == 'InlineTable'

        def fresh():
            b_item = mkitem('b')
            if not inline:
                b_item[2][0][2]['tagged'] = ('elem', 'b')
            return _table_model(ty, (('a', mkitem('a')), ('ghost', NONE_ITEM), ('b', b_item), ('c', mkitem('c'))))
        new_arg = (lambda: fval(NEW)) if inline else (lambda: ('ctor', I + 'Value', (fval(NEW),)))
        ref0 = [('a', 'a'), ('b', 'b'), ('c', 'c')]

        def ref_insert(q):
            st = list(ref0)
            for i, (k, v) in enumerate(st):
                if k == q:
                    st[i] = (k, NEW)
                    return Outcome(v, st)
            return Outcome(None, st + [(q, NEW)])

        def ref_remove(q, entry=False):
            st = [(k, v) for k, v in ref0 if k != q]
            hit = [(k, v) for k, v in ref0 if k == q]
            return Outcome(((hit[0][0], hit[0][1]) if entry else hit[0][1]) if hit else None, st)

        def ref_get(q, pair=False, truth=False):
            hit = [(k, v) for k, v in ref0 if k == q]
            if truth:
                return Outcome(bool(hit), list(ref0))
            return Outcome((hit[0] if pair else hit[0][1]) if hit else None, list(ref0))

        def ref_or_insert(q):
            hit = [v for k, v in ref0 if k == q]
            return Outcome(hit[0], list(ref0)) if hit else Outcome(NEW, ref0 + [(q, NEW)])
        ops = []
        ops.append(('insert', lambda q: [q, new_arg()], lambda r: tv(unopt(r)) if unopt(r) is not None else None, ref_insert))
        ops.append(('insert_formatted', lambda q: [key(q), new_arg()], lambda r: tv(unopt(r)) if unopt(r) is not None else None, ref_insert))
        ops.append(('remove', lambda q: [q], lambda r: tv(unopt(r)) if unopt(r) is not None else None, ref_remove))
        ops.append(('remove_entry', lambda q: [q], lambda r: (keyname(unopt(r)[0]), tv(unopt(r)[1])) if unopt(r) is not None else None, lambda q: ref_remove(q, True)))
        ops.append(('get', lambda q: [q], lambda r: tv(unopt(r)) if unopt(r) is not None else None, ref_get))
        ops.append(('get_mut', lambda q: [q], lambda r: tv(unopt(r)) if unopt(r) is not None else None, ref_get))
        ops.append(('get_key_value', lambda q: [q], lambda r: (keyname(unopt(r)[0]), tv(unopt(r)[1])) if unopt(r) is not None else None, lambda q: ref_get(q, pair=True)))
        ops.append(('contains_key', lambda q: [q], lambda r: deref(r), lambda q: ref_get(q, truth=True)))
        # (`key`, `key_mut`, `key_decor` are accessors to a stored key's formatting, not lookups: not part of the map contract)
        if inline:
            ops.append(('get_or_insert', lambda q: [q, fval(NEW)], lambda r: tv(r), ref_or_insert))
        for meth, mkargs, view, ref in ops:
            d = f'{ty}::{meth}'
            if not facts.has_body(d):
                continue
            b = facts.body(d)
            for q in ('a', 'ghost', 'b', 'c', 'new'):
                model = fresh()
                it = PlaceInterp(Evaluator(facts), {'fmt'})
                try:
                    r = it.apply_fn(b, [model] + mkargs(q))
                    got = Outcome(view(r), _visible(model))
                except EvalPanic as ex:
                    rep.bad(R, f'{short}::{meth}|{q}', f'`{d}` panics for the key `{q}`: {ex}', facts.loc(b))
                    continue
                except (Unanalysable, TypeError, IndexError, KeyError) as ex:
                    rep.incomplete(R, f'{short}::{meth}|{q}', f'cannot evaluate `{d}` for the key `{q}`: {ex}', facts.loc(b))
                    continue
                want = ref(q)
                rep.check(R, f'{short}::{meth}|{q}', got == want, f'{got}',
                          f'`{d}` with the key `{q}`' + (' (a placeholder left by mutable indexing)' if q == 'ghost' else '') + f' {got}; a plain ordered map holding a, b, c {want}', facts.loc(b))
        # assignment through the index operator (`table["q"] = v`, `item["q"] = v`): <str as Index>::index_mut hands out the slot, the caller stores into it
        dix = '<str as toml_edit::index::Index>::index_mut'
        if facts.has_body(dix):
            b = facts.body(dix)
            for q in ('a', 'ghost', 'b', 'c', 'new'):
                model = fresh()
                holder = ('ctor', I + 'Value', (('ctor', V + 'InlineTable', (model,)),)) if inline else ('ctor', I + 'Table', (model,))
                it = PlaceInterp(Evaluator(facts), {'fmt'})
                try:
                    r = it.apply_fn(b, [q, holder])
                    slot = unopt(r)
                    from .places import SlotRef
                    if not isinstance(slot, SlotRef):
                        raise Unanalysable('index_mut does not hand out a slot the evaluator can write through')
                    slot.set(('ctor', I + 'Value', (fval(NEW),)))
                    got = Outcome(None, _visible(model))
                except EvalPanic as ex:
                    rep.bad(R, f'{short}::index_mut|{q}', f'`{dix}` on a {short} panics for the key `{q}`: {ex}', facts.loc(b))
                    continue
                except (Unanalysable, TypeError, IndexError, KeyError, AttributeError) as ex:
                    rep.incomplete(R, f'{short}::index_mut|{q}', f'cannot evaluate `{dix}` on a {short} for the key `{q}`: {ex}', facts.loc(b))
                    continue
                want = Outcome(None, ref_insert(q).state)
                rep.check(R, f'{short}::index_mut|{q}', got == want, f'{got}',
                          f'`{short.lower()}["{q}"] = NEW`' + (' (a placeholder left by mutable indexing)' if q == 'ghost' else '') + f' {got}; a plain ordered map holding a, b, c {want}', facts.loc(b))
        # the entry API (by name, and by an already formatted key)
        for d, mkq in ((f'{ty}::entry', lambda q: q), (f'{ty}::entry_format', lambda q: key(q))):
          if facts.has_body(d):
            b = facts.body(d)
            lab = last_seg(d)
            for q in ('a', 'ghost', 'b', 'c', 'new'):
                model = fresh()
                it = PlaceInterp(Evaluator(facts), {'fmt'})
                try:
                    ent = it.apply_fn(b, [model, mkq(q)])
                    kind = last_seg(deref(ent)[1]) if isinstance(deref(ent), tuple) and len(deref(ent)) > 1 else '?'
                    orins = None
                    for imp in facts.impls:
                        pass
                    dd = f'{ty.rsplit("::", 1)[0]}::{"InlineEntry" if inline else "Entry"}::<\'a>::or_insert'
                    if not facts.has_body(dd):
                        cands = [x for x in facts.bodies if x.endswith('::or_insert') and x.startswith(ty.rsplit('::', 1)[0] + '::') and ('InlineEntry' in x) == inline and 'Entry' in x]
                        dd = cands[0] if cands else None
                    if dd is None:
                        raise Unanalysable('or_insert of the entry type not found')
                    r = it.apply_fn(facts.body(dd), [ent, new_arg()])
                    got = Outcome((kind, tv(r)), _visible(model))
                except EvalPanic as ex:
                    rep.bad(R, f'{short}::{lab}|{q}', f'`{d}(..).or_insert(..)` panics for the key `{q}`: {ex}', facts.loc(b))
                    continue
                except (Unanalysable, TypeError, IndexError, KeyError) as ex:
                    rep.incomplete(R, f'{short}::{lab}|{q}', f'cannot evaluate `{d}(..).or_insert(..)` for the key `{q}`: {ex}', facts.loc(b))
                    continue
                w = ref_or_insert(q)
                want = Outcome(('Occupied' if any(k == q for k, _ in ref0) else 'Vacant', w.ret), w.state)
                rep.check(R, f'{short}::{lab}|{q}', got == want, f'{got}',
                          f'`{d}("{q}").or_insert(NEW)`' + (' (a placeholder left by mutable indexing)' if q == 'ghost' else '') + f' {got}; a plain ordered map holding a, b, c {want}', facts.loc(b))
        # whole-container operations
        for meth, args, want in (('clear', lambda it: [], []), ('retain', lambda it: [('pyfn', lambda k, v: keyname(k) != 'a')],
                                                                                [('b', 'b'), ('c', 'c')]),
                                 ('sort_values', lambda it: [], sorted(ref0)),
                                 ('sort_values_by', lambda it: [('pyfn', lambda k1, v1, k2, v2: ('ctor', 'core::cmp::Ordering::' + ('Less' if keyname(k1) < keyname(k2) else 'Greater' if keyname(k1) > keyname(k2) else 'Equal')))],
                                  sorted(ref0))):
            d = f'{ty}::{meth}'
            if not facts.has_body(d):
                continue
            b = facts.body(d)
            model = fresh()
            # start from the order b, a so that sorting has something to do
            if meth in ('sort_values', 'sort_values_by'):
                model[2]['items'].pairs.reverse()          # c, b, placeholder, a
            it = PlaceInterp(Evaluator(facts), {'fmt'})
            try:
                it.apply_fn(b, [model] + args(it))
                got = _visible(model)
            except EvalPanic as ex:
                rep.bad(R, f'{short}::{meth}', f'`{d}` panics: {ex}', facts.loc(b))
                continue
            except (Unanalysable, TypeError, IndexError, KeyError) as ex:
                rep.incomplete(R, f'{short}::{meth}', f'cannot evaluate `{d}`: {ex}', facts.loc(b))
                continue
            rep.check(R, f'{short}::{meth}', got == want, f'leaves {got}', f'`{d}` leaves {got}; a plain ordered map is left with {want}', facts.loc(b))


def _find(facts, d):
    """the body of an inherent method, also when it is generic (`Array::push::<V>`)"""
    if facts.has_body(d):
        return facts.body(d)
    cands = [x for x in facts.bodies if x.startswith(d) and x[len(d):len(d) + 3] == '::<']
    return facts.body(cands[0]) if len(cands) == 1 else None


def r9b_toml_map_summaries(rep, facts, rid='C16/R9b'):
    R = rep.rule(rid, 'every keyed operation of toml::Map does what the same operation does on the reference map of this configuration (key-sorted by default, insertion-ordered under '
                 'preserve_order): evaluated on a map built by inserting `c`, `a`, `b` in this order, for the keys `a`, `b`, `c` and a new one (`aa`, which sorts between them) — the return value and the '
                 'entries in iteration order afterwards equal those of the reference operation', floor=28)
    if 'toml' not in facts.crates:
        return
    sorted_ = 'preserve_order' not in set(facts.crates['toml'].get('features', []))
    Vp = 'toml::value::Value::'
    val = lambda n: ('ctor', Vp + 'Integer', (('elem', n),))
    M = 'toml::map::Map::<alloc::string::String, toml::value::Value>::'
    NEW = 'NEW'
    ORDER = ('c', 'a', 'b')
    ref0 = sorted((k, k) for k in ORDER) if sorted_ else [(k, k) for k in ORDER]

    def model():
        return ('struct', 'toml::map::Map', {'map': MapObj([(k, val(k)) for k in ORDER], sorted_)})
    state = lambda m: [(keyname(k), tag_of(v)) for k, v in m[2]['map'].pairs]

    def ref_insert(q):
        st = list(ref0)
        for i, (k, v) in enumerate(st):
            if k == q:
                st[i] = (k, NEW)
                return Outcome(v, st)
        st.append((q, NEW))
        return Outcome(None, sorted(st) if sorted_ else st)

    def ref_remove(q):
        hit = [v for k, v in ref0 if k == q]
        return Outcome(hit[0] if hit else None, [(k, v) for k, v in ref0 if k != q])

    def ref_get(q, mode='value'):
        hit = [(k, v) for k, v in ref0 if k == q]
        return Outcome(bool(hit) if mode == 'truth' else (hit[0] if mode == 'pair' else hit[0][1]) if hit else (False if mode == 'truth' else None), list(ref0))
    tvo = lambda r: tag_of(unopt(r)) if unopt(r) is not None else None
    ops = (('insert', lambda q: [q, val(NEW)], tvo, ref_insert), ('remove', lambda q: [q], tvo, ref_remove), ('get', lambda q: [q], tvo, ref_get), ('get_mut', lambda q: [q], tvo, ref_get),
           ('get_key_value', lambda q: [q], lambda r: (keyname(unopt(r)[0]), tag_of(unopt(r)[1])) if unopt(r) is not None else None, lambda q: ref_get(q, 'pair')),
           ('contains_key', lambda q: [q], lambda r: deref(r), lambda q: ref_get(q, 'truth')))
    for meth, mkargs, view, ref in ops:
        b = _find(facts, M + meth)
        if b is None:
            rep.incomplete(R, f'Map::{meth}', f'`{M}{meth}` not found')
            continue
        for q in ('a', 'b', 'c', 'aa'):
            m = model()
            try:
                r = PlaceInterp(Evaluator(facts)).apply_fn(b, [m] + mkargs(q))
                got = Outcome(view(r), state(m))
            except EvalPanic as ex:
                rep.bad(R, f'Map::{meth}|{q}', f'`Map::{meth}` panics for the key `{q}`: {ex}', facts.loc(b))
                continue
            except (Unanalysable, TypeError, IndexError, KeyError) as ex:
                rep.incomplete(R, f'Map::{meth}|{q}', f'cannot evaluate `Map::{meth}` for the key `{q}`: {ex}', facts.loc(b))
                continue
            want = ref(q)
            rep.check(R, f'Map::{meth}|{q}', got == want, f'{got}', f'`toml::Map::{meth}` with the key `{q}` {got}; the reference {"sorted" if sorted_ else "insertion-ordered"} map {want}', facts.loc(b))
    # entry(q).or_insert(NEW)
    b = _find(facts, M + 'entry')
    ors = [d for d in facts.bodies if d.startswith('toml::map::Entry') and d.endswith('::or_insert')]
    if b is not None and len(ors) == 1:
        for q in ('a', 'b', 'c', 'aa'):
            m = model()
            it = PlaceInterp(Evaluator(facts))
            try:
                ent = it.apply_fn(b, [m, q])
                kind = last_seg(deref(ent)[1])
                r = it.apply_fn(facts.body(ors[0]), [ent, val(NEW)])
                got = Outcome((kind, tag_of(r)), state(m))
            except EvalPanic as ex:
                rep.bad(R, f'Map::entry|{q}', f'`Map::entry("{q}").or_insert(..)` panics: {ex}', facts.loc(b))
                continue
            except (Unanalysable, TypeError, IndexError, KeyError) as ex:
                rep.incomplete(R, f'Map::entry|{q}', f'cannot evaluate `Map::entry("{q}").or_insert(..)`: {ex}', facts.loc(b))
                continue
            hit = [v for k, v in ref0 if k == q]
            want = Outcome(('Occupied', hit[0]), list(ref0)) if hit else Outcome(('Vacant', NEW), sorted(ref0 + [(q, NEW)]) if sorted_ else ref0 + [(q, NEW)])
            rep.check(R, f'Map::entry|{q}', got == want, f'{got}', f'`toml::Map::entry("{q}").or_insert(NEW)` {got}; the reference map {want}', facts.loc(b))
    else:
        rep.incomplete(R, 'Map::entry', 'entry / Entry::or_insert of toml::Map not found')
    for meth, args, want in (('clear', [], []), ('retain', [('pyfn', lambda k, v: keyname(k) != 'a')], [(k, v) for k, v in ref0 if k != 'a']), ('len', [], len(ref0)), ('is_empty', [], False)):
        b = _find(facts, M + meth)
        if b is None:
            continue
        m = model()
        try:
            r = PlaceInterp(Evaluator(facts)).apply_fn(b, [m] + args)
            got = deref(r) if meth in ('len', 'is_empty') else state(m)
        except (EvalPanic, Unanalysable, TypeError, IndexError, KeyError) as ex:
            rep.incomplete(R, f'Map::{meth}', f'cannot evaluate `Map::{meth}`: {ex}', facts.loc(b))
            continue
        rep.check(R, f'Map::{meth}', got == want and type(got) is type(want), f'{got}', f'`toml::Map::{meth}` gives {got}; the reference map gives {want}', facts.loc(b))


def r9c_sequence_summaries(rep, facts, rid='C16/R9c'):
    R = rep.rule(rid, 'every positional operation of Array and ArrayOfTables does what the same operation does on a plain vector: evaluated on a container of three elements '
                 '(push, insert, replace, remove, get, get_mut, len, is_empty, clear, retain; in range and out of range) — the return value and the elements afterwards equal those of '
                 'the reference operation, and the operation panics exactly where the vector operation is documented to panic', floor=24)
    if 'toml_edit' not in facts.crates:
        return
    dec = lambda: ('struct', 'toml_edit::repr::Decor', {'prefix': opt_none, 'suffix': opt_none})

    def arr():
        return ('struct', 'toml_edit::array::Array', {'values': VecObj([('ctor', I + 'Value', (fval(i),)) for i in range(3)]), 'trailing': ('opaque',), 'trailing_comma': False, 'decor': dec(), 'span': opt_none})

    def tbl(t):
        return ('struct', 'toml_edit::table::Table', {'items': MapObj(), 'tagged': ('elem', t), 'implicit': False, 'dotted': False, 'decor': dec(), 'doc_position': opt_none, 'span': opt_none})

    def aot():
        return ('struct', 'toml_edit::array_of_tables::ArrayOfTables', {'values': VecObj([('ctor', I + 'Table', (tbl(i),)) for i in range(3)]), 'span': opt_none})
    tags = lambda m: [tag_of(x) for x in m[2]['values'].items]
    PANIC = 'panics'
    base = [0, 1, 2]

    def ref(op, *a):
        st = list(base)
        try:
            if op == 'push':
                st.append('N')
                return Outcome(None, st)
            if op == 'insert':
                if not 0 <= a[0] <= len(st):
                    return PANIC
                st.insert(a[0], 'N')
                return Outcome(None, st)
            if op == 'replace':
                if not 0 <= a[0] < len(st):
                    return PANIC
                old = st[a[0]]
                st[a[0]] = 'N'
                return Outcome(old, st)
            if op == 'remove':
                if not 0 <= a[0] < len(st):
                    return PANIC
                return Outcome(st.pop(a[0]), st)
            if op in ('get', 'get_mut'):
                return Outcome(st[a[0]] if 0 <= a[0] < len(st) else None, st)
            if op == 'len':
                return Outcome(len(st), st)
            if op == 'is_empty':
                return Outcome(not st, st)
            if op == 'clear':
                return Outcome(None, [])
            if op == 'retain':
                return Outcome(None, [x for x in st if x != 1])
        except IndexError:
            return PANIC
    for short, ty, mk, newv, removes_value in (('Array', 'toml_edit::array::Array', arr, lambda: fval('N'), True), ('ArrayOfTables', 'toml_edit::array_of_tables::ArrayOfTables', aot, lambda: tbl('N'), False)):
        if ty not in facts.adts:
            continue
        plan = [('push', 'push', []), ('push_formatted', 'push', []), ('insert', 'insert', [1]), ('insert', 'insert', [3]), ('insert', 'insert', [4]), ('insert_formatted', 'insert', [0]),
                ('replace', 'replace', [1]), ('replace', 'replace', [3]), ('replace_formatted', 'replace', [2]), ('remove', 'remove', [0]), ('remove', 'remove', [2]), ('remove', 'remove', [3]),
                ('get', 'get', [1]), ('get', 'get', [3]), ('get_mut', 'get_mut', [2]), ('get_mut', 'get_mut', [3]), ('len', 'len', []), ('is_empty', 'is_empty', []), ('clear', 'clear', []), ('retain', 'retain', [])]
        for meth, op, idx in plan:
            b = _find(facts, f'{ty}::{meth}')
            if b is None:
                continue
            m = mk()
            args = list(idx)
            if op in ('push', 'insert', 'replace'):
                args.append(newv())
            if op == 'retain':
                args.append(('pyfn', lambda v: tag_of(v) != 1))
            want = ref(op, *idx)
            label = f'{short}::{meth}' + (f'({idx[0]})' if idx else '')
            try:
                r = PlaceInterp(Evaluator(facts)).apply_fn(b, [m] + args)
                rv = deref(r)
                if op in ('get', 'get_mut'):
                    rv = tag_of(unopt(r)) if unopt(r) is not None else None
                elif op in ('replace',):
                    rv = tag_of(rv)
                elif op == 'remove':
                    rv = tag_of(rv) if removes_value else (base[idx[0]] if want != PANIC else None)      # ArrayOfTables::remove returns nothing: judged on the state
                elif op in ('len', 'is_empty'):
                    pass
                else:
                    rv = None
                got = Outcome(rv, tags(m))
            except EvalPanic as ex:
                got = PANIC
            except (Unanalysable, TypeError, IndexError, KeyError) as ex:
                rep.incomplete(R, label, f'cannot evaluate `{ty}::{meth}`: {ex}', facts.loc(b))
                continue
            rep.check(R, label, got == want, f'{got}', f'`{ty}::{meth}`' + (f' at index {idx[0]}' if idx else '') + f' on three elements {got}; a plain vector {want}', facts.loc(b))
