"""C04 — no input makes the library panic, abort or hang (decided part: the inventory of
potentially panicking constructs reachable from the entry points equals a reviewed allowlist,
unsafe is confined and its ASCII precondition closed, repetition makes progress)."""
import json
import os

from .core import run_property, AnalysisIncomplete, walk, peel, last_seg, calls_in, callee_all, strip_generics, VERIF
from .cg import CallGraph
from .den import ASCII, fmt_set, INF
from . import parsemodel as pm
from .parsemodel import P, term, short

PROP = 'C04'
ALLOW_FILE = os.path.join(VERIF, 'allow', 'C04-panics.json')

ROOT_TRAITS = ('serde::de::Deserializer', 'serde::de::MapAccess', 'serde::de::SeqAccess', 'serde::de::EnumAccess', 'serde::de::VariantAccess',
               'core::fmt::Display', 'core::fmt::Debug', 'core::clone::Clone', 'core::ops::drop::Drop', 'serde::de::IntoDeserializer', 'core::str::traits::FromStr')
ROOT_FNS = [P + 'parse_document', P + 'parse_value', P + 'parse_key', P + 'parse_key_path',
            '<toml_datetime::datetime::Datetime as core::str::traits::FromStr>::from_str', 'toml_edit::document::ImDocument::<S>::into_mut',
            'toml_edit::de::from_str', 'toml_edit::de::from_slice', 'toml_edit::de::from_document', 'toml::de::from_str']
PANIC_CALL = ('core::panicking::', 'core::option::unwrap_failed', 'core::option::expect_failed', 'core::result::unwrap_failed', 'core::slice::index::slice_', 'core::str::slice_error_fail')


def base(d):
    i = d.find('::{closure')
    return d if i < 0 else d[:i]


def roots_of(facts):
    roots = list(ROOT_FNS)
    for imp in facts.impls:
        st = imp['self_ty'].lstrip('&').replace('mut ', '')
        if imp.get('trait') in ROOT_TRAITS and st.startswith(('toml_edit::', 'toml::', 'toml_datetime::', 'serde_spanned::')):
            roots += [it['def'] for it in imp['items']]
    return [r for r in roots if r in facts.bodies]


FROM_HELPER = {}


def inventory(facts, cg):
    FROM_HELPER.clear()
    roots = roots_of(facts)
    reach = cg.reach(roots)
    sites = {}
    where = {}
    # a new private helper that was expanded at its uses (verif/normalise.py) has no HIR body of its own any more: its MIR sites are charged
    # to every function it was expanded into, so that `sites(owner) + sites(helper)` is compared with the owner's reviewed multiplicity
    inl = getattr(facts, 'inlined', {})

    def owners_of(h, depth=0):
        out = set()
        for o in inl.get(h, ()):
            ob = base(o)
            if ob in facts.bodies:
                out.add(ob)
            elif depth < 4:
                out |= owners_of(ob, depth + 1)
        return out
    for m in facts.mir.values():
        d = m['def']
        bd = base(d)
        targets = [bd]
        if bd not in facts.bodies and bd in inl:
            targets = sorted(o for o in owners_of(bd) if o in reach)
        elif bd not in reach or facts.bodies.get(bd, {}).get('derived'):
            continue
        for bd in targets:
          for bl in m['blocks']:
              if bl.get('c'):
                  continue
              t = bl['term']
              key = None
              if t['k'] == 'assert':
                  key = (bd, 'assert', t['ak'])
              elif t['k'] == 'call':
                  c0 = strip_generics(t.get('resolved') or t.get('callee') or '')
                  seg = last_seg(c0)
                  if c0.startswith(PANIC_CALL):
                      key = (bd, 'panic', (t.get('m') or c0).replace('$crate::', '').replace('panic::', ''))
                  elif seg in ('unwrap', 'expect', 'unwrap_err', 'expect_err') and ('Option' in c0 or 'Result' in c0):
                      key = (bd, 'unwrap', last_seg(c0.rsplit('::', 1)[0]) + '::' + seg)
                  elif seg in ('index', 'index_mut'):
                      key = (bd, 'index', c0 or seg)
                  elif seg in ('borrow_mut', 'borrow') and 'RefCell' in c0:
                      key = (bd, 'refcell', seg)
                  elif seg in ('remove', 'insert', 'swap_remove', 'split_off', 'drain', 'split_at', 'copy_from_slice') and ('Vec' in c0 or 'slice' in c0):
                      key = (bd, 'vec-op', c0)
              if key:
                  sites[key] = sites.get(key, 0) + 1
                  where.setdefault(key, f"{facts.rel(m['file'])}:{t.get('l')}")
                  if base(d) != bd:
                      FROM_HELPER[key] = FROM_HELPER.get(key, 0) + 1
    return roots, reach, sites, where


def load_allow():
    with open(ALLOW_FILE) as f:
        d = json.load(f)
    return {(e['fn'], e['kind'], e['what']): e for e in d['sites']}


def r1_inventory(rep, facts, cg):
    R = rep.rule('C04/R1', 'every potentially panicking construct (MIR assert terminators, panicking std calls, unwrap / expect, indexing, RefCell borrows, '
                 'Vec index operations) in code reachable from the entry points is in the reviewed allowlist with a reason, with the reviewed multiplicity', floor=110)
    roots, reach, sites, where = inventory(facts, cg)
    allow = load_allow()
    rep.info(R, f'{len(roots)} roots, {len(reach)} reachable bodies, {sum(sites.values())} sites in {len(sites)} groups')
    # arithmetic overflow checks of one function are reviewed together (the reasons bound the operands, not the operator): rewriting
    # `sign * m` as `-m` or `a + 1` as `a - (-1)` moves a site from one kind to another without adding one
    arith_allow = {}
    arith_found = {}
    for (fn, kind, what), e in allow.items():
        if kind == 'assert' and what.startswith('overflow:'):
            arith_allow[fn] = arith_allow.get(fn, 0) + e['count']
    for (fn, kind, what), n in sites.items():
        if kind == 'assert' and what.startswith('overflow:'):
            arith_found[fn] = arith_found.get(fn, 0) + n
    # likewise the sites that address an element of a sequence the function was given (`p[p.len() - 1]`, `p.split_last().expect(..)`,
    # `p.last().unwrap()`): one reason (the sequence is non-empty / the position is in range) covers them, whichever spelling is used
    STD_INDEX = ('::index', 'core::str::traits::index', 'core::slice::index::index', 'core::array::index')
    positional = lambda kind, what: (kind == 'index' and what in STD_INDEX) or (kind == 'assert' and what in ('bounds', 'overflow:Sub')) or \
        (kind == 'unwrap' and what.startswith('Option::')) or kind == 'vec-op'
    pos_allow, pos_found = {}, {}
    for (fn, kind, what), e in allow.items():
        if positional(kind, what):
            pos_allow[fn] = pos_allow.get(fn, 0) + e['count']
    for (fn, kind, what), n in sites.items():
        if positional(kind, what):
            pos_found[fn] = pos_found.get(fn, 0) + n
    for key, n in sorted(sites.items()):
        e = allow.get(key)
        k = f'{key[0]}|{key[1]}|{key[2]}'
        if positional(key[1], key[2]) and key[0] in pos_allow and pos_found[key[0]] <= pos_allow[key[0]] and (e is None or n > e['count']) and \
                any(kd == 'index' or wh == 'bounds' for (fn, kd, wh) in allow if fn == key[0]):
            any_e = [v for (fn, kind, what), v in allow.items() if fn == key[0] and positional(kind, what)]
            rep.ok(R, k, f'x{n} (element-position sites of this function: {pos_found[key[0]]} found, {pos_allow[key[0]]} reviewed): {any_e[0]["reason"]}', where[key])
            continue
        if key[1] == 'assert' and key[2].startswith('overflow:') and key[0] in arith_allow and arith_found[key[0]] <= arith_allow[key[0]] and (e is None or n > e['count']):
            any_e = [v for (fn, kind, what), v in allow.items() if fn == key[0] and kind == 'assert' and what.startswith('overflow:')]
            rep.ok(R, k, f'x{n} (arithmetic checks of this function: {arith_found[key[0]]} found, {arith_allow[key[0]]} reviewed): {any_e[0]["reason"]}', where[key])
            continue
        from .shared import TABULATED
        if key[0] in TABULATED and key[1] in ('index', 'assert') and (e is None or n > e['count']):
            rep.ok(R, k, f'x{n} (beyond the reviewed list; judged by the no-panic tabulation {TABULATED[key[0]]}, which is part of this check as C04/R2)', where[key])
            continue
        over = n - (e['count'] if e else 0)
        if over > 0 and FROM_HELPER.get(key, 0) >= over:
            # the site sits in a new helper that was expanded into this function: when the crate as a whole has no more sites of this kind than were
            # reviewed, the site moved here from a function that used to contain it (two twins merged, a call chain shortened), it is not a new one
            crate = key[0].lstrip('<').split('::')[0]
            tot_found = sum(v for (fn, kd, wh), v in sites.items() if kd == key[1] and wh == key[2] and fn.lstrip('<').split('::')[0] == crate and (fn, kd, wh) not in ()) - \
                sum(max(0, FROM_HELPER.get(kk, 0) - 1) for kk in sites if kk[1] == key[1] and kk[2] == key[2] and kk[0].lstrip('<').split('::')[0] == crate and False)
            uniq_helper = sum(1 for kk in FROM_HELPER if kk[1] == key[1] and kk[2] == key[2] and kk[0].lstrip('<').split('::')[0] == crate)
            # a helper expanded into k owners was counted k times: count it once
            tot_found = tot_found - sum(FROM_HELPER[kk] for kk in FROM_HELPER if kk[1] == key[1] and kk[2] == key[2] and kk[0].lstrip('<').split('::')[0] == crate) + \
                max((FROM_HELPER[kk] for kk in FROM_HELPER if kk[1] == key[1] and kk[2] == key[2] and kk[0].lstrip('<').split('::')[0] == crate), default=0)
            tot_allow = sum(v['count'] for (fn, kd, wh), v in allow.items() if kd == key[1] and wh == key[2] and fn.lstrip('<').split('::')[0] == crate)
            if tot_found <= tot_allow:
                rep.ok(R, k, f'x{n} (moved here with a helper that was expanded into this function; {key[1]} {key[2]} sites in `{crate}`: {tot_found} found, {tot_allow} reviewed)', where[key])
                continue
        if key[1] == 'assert' and key[2] == 'overflow:Add' and facts.has_body(key[0]):
            # `i + 1` where `i < xs.len()` was established before (an assert, an enclosing `if`, the index of an enumerate loop): the sum is at most a length
            adds, guarded = _bounded_increments(facts.body(key[0]))
            if adds and adds - guarded <= (e['count'] if e else 0):
                rep.ok(R, k, f'x{n}: {guarded} of {adds} additions are increments of an index already compared with a length (`i < xs.len()` before `i + 1`)'
                       + (f'; the rest: {e["reason"]}' if e else ''), where[key])
                continue
        if e is None:
            rep.bad(R, k + '|unreviewed', f'`{key[0]}` contains {n} unreviewed potential panic(s) of kind {key[1]} ({key[2]}) reachable from the entry points: '
                    f'an input that reaches it in a bad state aborts the caller', where[key])
        elif n > e['count']:
            rep.bad(R, k + '|count', f'`{key[0]}` now contains {n} potential panics of kind {key[1]} ({key[2]}), {e["count"]} were reviewed ({e["reason"]})', where[key])
        else:
            rep.ok(R, k, f'x{n}: {e["reason"]}', where[key])
    rep.check(R, 'roots|floor', len(roots) >= 300 and len(reach) >= 900, f'{len(roots)} roots / {len(reach)} reachable', f'only {len(roots)} roots / {len(reach)} reachable bodies: the inventory lost its entry points')


def _bounded_increments(body):
    """(additions in the function, additions `local + small literal` whose local was compared `local < <expr>.len()` earlier in the function or is an enumerate index)"""
    adds = [n for n in walk(body['body']) if n.get('k') == 'binary' and n.get('op') == '+' and not n.get('x')]
    lt = set()
    for n in walk(body['body']):
        if n.get('k') == 'binary' and n.get('op') in ('<', '>'):
            a, b_ = (n['a'], n['b']) if n['op'] == '<' else (n['b'], n['a'])
            a, b_ = peel(a), peel(b_)
            if a.get('k') == 'path' and a.get('res') == 'Local' and b_.get('k') == 'mcall' and b_.get('name') == 'len':
                lt.add((a['path'], n.get('l') or 0))
        if n.get('k') == 'mcall' and n.get('name') == 'enumerate':
            lt.add(('@enumerate', n.get('l') or 0))
    guarded = 0
    for n in adds:
        a, b_ = peel(n['a']), peel(n['b'])
        if b_.get('k') == 'lit' and isinstance(b_.get('v'), int) and 0 <= b_['v'] <= 1024 and a.get('k') == 'path' and a.get('res') == 'Local':
            if any(nm == a['path'] and l <= (n.get('l') or 0) for nm, l in lt):
                guarded += 1
    return len(adds), guarded


def r3_unsafe(rep, facts, g):
    R = rep.rule('C04/R3', 'unsafe is confined to trivia::from_utf8_unchecked and its call sites, and at every call site the bytes handed over are the '
                 'output of a parser term whose output set is ASCII (classes and literals followed through named parsers)', floor=17)
    unsafe_owners = {}
    for d, b in facts.bodies.items():
        if b.get('derived'):
            continue
        for n in walk(b['body']):
            if n.get('k') == 'block' and n.get('unsafe'):
                # format_args! expands to an unsafe call of core::fmt::Arguments::new: compiler-generated, not source-level unsafe
                if n.get('x') and ('format_args' in (n.get('m') or '') or (n.get('m') or '').startswith('desugar')):
                    continue
                unsafe_owners.setdefault(d, []).append(n)
    callsites = 0
    for d, blocks in sorted(unsafe_owners.items()):
        for n in blocks:
            callees = [strip_generics(c) for x in calls_in(n) for c in callee_all(x)[:1]]
            inner_ok = d == P + 'trivia::from_utf8_unchecked' or all(c.endswith('trivia::from_utf8_unchecked') for c in callees if c.startswith('toml_edit::') or 'unchecked' in c)
            only = [c for c in callees if 'unchecked' in c or c.startswith('toml_edit::')]
            ok = d == P + 'trivia::from_utf8_unchecked' or (only and all(c.endswith('trivia::from_utf8_unchecked') for c in only))
            rep.check(R, f'{d}|unsafe-block@{n.get("l") and ""}{len([1 for _ in only])}', ok, 'unsafe { from_utf8_unchecked(..) }',
                      f'`{d}` contains an unsafe block that is not a call of trivia::from_utf8_unchecked: {callees[:4]}', facts.loc(facts.bodies[d], n))
    # ASCII closure through the combinator model
    n_sites = 0
    for d, t in sorted(g.terms.items()):
        if t is None:
            continue
        i = 0
        for x in g.subterms(t):
            if x['op'] == 'map' and x['kind'] == 'map':
                clo = pm.closure_of(x['node']['args'][0]) if x['node'].get('args') else None
                if clo is None:
                    continue
                if not any(strip_generics(c).endswith('trivia::from_utf8_unchecked') for y in calls_in(clo['body']) for c in callee_all(y)):
                    continue
                out = g.output_set(x['p'])
                n_sites += 1
                key = f'{short(d)}|from_utf8_unchecked#{i}'
                i += 1
                rep.check(R, key, out <= ASCII, f'output {fmt_set(out)} is ASCII', f'`{short(d)}` hands bytes to from_utf8_unchecked whose possible values include non-ASCII {fmt_set(out - ASCII)[:60]}: '
                          f'a multi-byte character cut by the lexer becomes an invalid &str (undefined behaviour in release, a panic with debug assertions)', f"{facts.rel(facts.bodies[d]['file'])}:{x.get('l')}")
    total_calls = sum(1 for d, b in facts.bodies.items() for y in calls_in(b['body']) if any(strip_generics(c).endswith('trivia::from_utf8_unchecked') for c in callee_all(y)))
    rep.check(R, 'call-sites|all-modelled', n_sites == total_calls and total_calls >= 16, f'{n_sites} of {total_calls} call sites attached to a modelled parser term',
              f'{total_calls} calls of from_utf8_unchecked but only {n_sites} are attached to a parser term the model can bound (an unmodelled call site is unchecked)')
    # the unchecked std conversion appears only inside the wrapper
    raw = [d for d, b in facts.bodies.items() for y in calls_in(b['body']) if any(c.endswith('core::str::from_utf8_unchecked') or c.endswith('from_utf8_unchecked_mut') for c in callee_all(y))]
    rep.check(R, 'std-unchecked|confined', set(raw) <= {P + 'trivia::from_utf8_unchecked'}, f'{sorted(set(raw))}', f'core::str::from_utf8_unchecked called from {sorted(set(raw))}')


def r4_progress(rep, facts, g):
    R = rep.rule('C04/R4', 'repetition makes progress: the element parser of every repeat / separated / while-let loop cannot succeed on empty input '
                 '(or the loop compares checkpoints before going round again)', floor=20)
    for d, t in sorted(g.terms.items()):
        if t is None:
            continue
        i = 0
        for x in g.subterms(t):
            if x['op'] not in ('rep', 'sep'):
                continue
            key = f'{short(d)}|{x["op"]}#{i}'
            i += 1
            loc = f"{facts.rel(facts.bodies[d]['file'])}:{x.get('l')}"
            if x['op'] == 'sep':
                ok = not (pm.nullable_of(g, x['p']) and pm.nullable_of(g, x['sep']))
                rep.check(R, key, ok, 'element or separator consumes input', f'`{short(d)}`: separated(..) over an element and a separator that can both match the empty string: no progress per iteration', loc)
                continue
            p = x['p']
            if x.get('handloop'):
                def passes_empty(t):
                    """can one pass through the loop body finish without leaving the loop and without consuming input?
                    (`let Some(x) = opt(p).parse_next(i)? else { break }` / `if let Some(x) = .. { a } else { break }`: going on means p matched)"""
                    op = t['op']
                    if op == 'empty':
                        return not t.get('brk')
                    if op == 'seq':
                        its = t['items']
                        if t.get('iflet') == 'Some' and len(its) == 2 and its[0]['op'] == 'opt' and its[1]['op'] == 'alt' and len(its[1]['items']) == 2:
                            a, b_ = its[1]['items']
                            return (pm.nullable_of(g, its[0]['p']) and passes_empty(a)) or passes_empty(b_)
                        return all(passes_empty(y) for y in its)
                    if op == 'alt':
                        return any(passes_empty(y) for y in t['items'])
                    return pm.nullable_of(g, t)
                # a pass that rewinds the input (`input.reset(&checkpoint)`) and then goes round again undoes its own progress: after a reset the pass must leave the loop
                def rewinds(node_):
                    out_ = []

                    def blocks(n_):
                        if isinstance(n_, dict):
                            if n_.get('k') == 'block':
                                sts = list(n_.get('stmts', [])) + ([n_['expr']] if n_.get('expr') is not None else [])
                                for i_, st_ in enumerate(sts):
                                    direct = [y for y in walk(st_) if y.get('k') == 'mcall' and y.get('name') == 'reset' and 'Stateful' in (peel(y['recv']).get('t') or '')]
                                    nested_blocks = any(y.get('k') == 'block' for y in walk(st_) if y is not st_)
                                    if direct and not nested_blocks:
                                        leaves = any(y.get('k') in ('break', 'ret') and not (y.get('x') and 'QuestionMark' in (y.get('m') or '')) for later in sts[i_:] for y in walk(later))
                                        if not leaves:
                                            out_.append(direct[0])
                            for v_ in n_.values():
                                blocks(v_)
                        elif isinstance(n_, list):
                            for v_ in n_:
                                blocks(v_)
                    blocks(node_)
                    return out_
                rw = rewinds(x.get('node') or {})
                if rw:
                    rep.bad(R, key + '|rewind', f'`{short(d)}`: a pass through the hand-written loop rewinds the input (`reset` at line {rw[0].get("l")}) and goes round again: the same input is '
                            f'read for ever', loc)
                    continue
                first = p['items'][0] if p['op'] == 'seq' else p
                if not passes_empty(p):
                    rep.ok(R, key, 'every pass through the loop body that does not leave the loop consumes input', loc)
                elif first['op'] == 'opt':
                    ok = not pm.nullable_of(g, first['p'])
                    rep.check(R, key, ok, 'while let Some(_) = opt(p): p consumes input', f'`{short(d)}`: the loop continues on Some(_) of a parser that can succeed on empty input', loc)
                else:
                    node = x.get('node') or {}
                    # leaving the loop when the checkpoint did not move: `break` or `return Ok(..)` under `start == end`
                    cmpbreak = any(n.get('k') == 'if' and peel(n['cond']).get('k') == 'binary' and peel(n['cond']).get('op') == '==' and
                                   any(y.get('k') == 'break' or (y.get('k') == 'ret' and not y.get('x')) for y in walk(n['then']))
                                   for n in walk(node))
                    cps = sum(1 for n in walk(facts.bodies[d]['body']) if n.get('k') == 'mcall' and n.get('name') == 'checkpoint')
                    ok = (not pm.nullable_of(g, p)) or (cmpbreak and cps >= 2)
                    rep.check(R, key, ok, 'hand-written loop breaks when the checkpoint did not move', f'`{short(d)}`: hand-written loop over a nullable body without a no-progress check', loc)
                continue
            ok = not pm.nullable_of(g, p)
            rep.check(R, key, ok, f'{g.describe(p)[:60]} consumes input', f'`{short(d)}`: repeat(..) over `{g.describe(p)[:80]}`, which can succeed without consuming input (winnow aborts or loops)', loc)
    # the escaping writer: the stream shrinks on every iteration
    if not facts.has_body('toml_write::string::write_toml_value'):
        return
    b = facts.body('toml_write::string::write_toml_value')
    # decided by evaluating the writer with every loop iteration checked for a variant (some string / iterator it works on got strictly shorter)
    from .rules_c10 import writer_progress
    from .den import Unanalysable as _UN
    try:
        n_runs, problems = writer_progress(facts)
        rep.check(R, 'write_toml_value|stream-shrinks', not problems, f'{n_runs} evaluations (every ASCII byte, multi-byte characters, pairs; four styles): every loop iteration shortens its input, no panic',
                  'the escaping loop may go round without shortening the stream, or panics: ' + '; '.join(problems[:3]), facts.loc(b))
    except _UN as e:
        rep.incomplete(R, 'write_toml_value|stream-shrinks', f'cannot evaluate write_toml_value: {e}', facts.loc(b))


def r5_from_slice(rep, facts):
    R = rep.rule('C04/R5', 'the byte entry point validates UTF-8 with the checked conversion before parsing', floor=1)
    d = 'toml_edit::de::from_slice'
    if not facts.has_body(d):
        return
    b = facts.body(d)
    stmts = b['body'].get('stmts', []) + ([b['body']['expr']] if b['body'].get('expr') else [])
    chk = None
    parse = None
    for i, s in enumerate(stmts):
        for n in calls_in(s):
            for c in callee_all(n):
                if c.endswith('core::str::from_utf8') or c.endswith('converts::from_utf8'):
                    chk = i if chk is None else chk
                if last_seg(strip_generics(c)) in ('from_str', 'parse', 'parse_document'):
                    parse = i if parse is None else parse
                if 'unchecked' in c:
                    chk = None
    rep.check(R, d, chk is not None and parse is not None and chk <= parse, 'from_utf8(..)? then from_str', 'from_slice does not validate UTF-8 (checked) before handing the text to the parser', facts.loc(b))


def r6_map_protocol(rep, facts):
    R = rep.rule('C04/R6', 'the workspace\'s own serde visitors keep to the MapAccess protocol: in every hand-written visit_map a value is requested only where '
                 'the preceding next_key is known to have returned Some (toml_edit\'s map access panics on a value request without a pending key)', floor=7)
    from .shared import path_to
    KEYS = ('next_key', 'next_key_seed')
    VALS = ('next_value', 'next_value_seed')
    some = lambda p: any((x.get('path') or '').endswith('Option::Some') for x in walk(p) if x.get('k') in ('p_tuplestruct', 'p_struct'))
    none = lambda p: any(((x.get('path') or (x.get('e') or {}).get('path') or '')).endswith('Option::None') for x in walk(p))
    has_key = lambda e: any(x.get('k') == 'mcall' and x.get('name') in KEYS for x in walk(e))
    for d, b in sorted(facts.bodies.items()):
        if not d.endswith('::visit_map') or b.get('derived') or b.get('x'):
            continue
        nodes = list(walk(b['body']))
        pos = {id(n): i for i, n in enumerate(nodes)}
        vals = [n for n in nodes if n.get('k') == 'mcall' and n.get('name') in VALS]
        if not vals:
            continue
        key_locals = set()
        for n in nodes:
            if n.get('k') == 'let' and (n.get('pat') or {}).get('k') == 'p_bind' and 'init' in n and has_key(n['init']):
                key_locals.add(n['pat']['name'])
        mentions_keylocal = lambda e: any(x.get('k') == 'path' and x.get('path') in key_locals for x in walk(e))
        # earlier statements that leave the function when the key was None
        guards = []
        for n in nodes:
            if n.get('k') == 'if' and mentions_keylocal(n['cond']) and any(x.get('k') == 'mcall' and x.get('name') == 'is_none' for x in walk(n['cond'])) \
                    and any(x.get('k') == 'ret' for x in walk(n['then'])):
                guards.append(pos[id(n)])
            # `let key = map.next_key()?.ok_or_else(|| ..)?;` / `.expect(..)`: a None key leaves the function (with an error or a documented panic)
            if n.get('k') in ('let', 'semi') and has_key(n.get('init') or n.get('e') or {}) and \
                    any(x.get('k') == 'mcall' and x.get('name') in ('ok_or', 'ok_or_else') and has_key(x['recv']) for x in walk(n.get('init') or n.get('e') or {})) and \
                    any(x.get('k') == 'match' and 'TryDesugar' in (x.get('src') or '') and any(y.get('k') == 'mcall' and y.get('name') in ('ok_or', 'ok_or_else') for y in walk(x['scrut']))
                        for x in walk(n.get('init') or n.get('e') or {})):
                guards.append(max(pos[id(x)] for x in walk(n)))
            # `let Some(key) = map.next_key()? else { return .. };`
            if n.get('k') == 'let' and 'else' in n and 'init' in n and some(n['pat']) and (has_key(n['init']) or mentions_keylocal(n['init'])) \
                    and any(x.get('k') in ('ret', 'break') or (x.get('k') == 'call' and 'panic' in (peel(x.get('f', {})).get('path') or '')) for x in walk(n['else'])):
                guards.append(max(pos[id(x)] for x in walk(n)))
            if n.get('k') == 'match' and 'TryDesugar' not in (n.get('src') or '') and (mentions_keylocal(n['scrut']) or has_key(n['scrut'])):
                for arm in n['arms']:
                    if none(arm['pat']) and not some(arm['pat']) and any(x.get('k') == 'ret' for x in walk(arm['body'])):
                        end = max(pos[id(x)] for x in walk(n))
                        guards.append(end)
        for vi, v in enumerate(vals):
            ok = False
            pth = path_to(b['body'], v) or []
            for node, key in pth:
                if node.get('k') == 'if' and key == 'then' and peel(node['cond']).get('k') == 'letexpr':
                    le = peel(node['cond'])
                    if some(le['pat']) and (has_key(le['init']) or mentions_keylocal(le['init'])):
                        ok = True
                if 'pat' in node and key == 'body' and some(node['pat']):
                    # a match arm `Some(..) => ..`: find the match it belongs to
                    for mnode, mkey in pth:
                        if mnode.get('k') == 'match' and any(a is node for a in mnode.get('arms', [])) and (has_key(mnode['scrut']) or mentions_keylocal(mnode['scrut'])):
                            ok = True
            if not ok and any(g < pos[id(v)] for g in guards):
                ok = True
            rep.check(R, f'{d.split(" as ")[0].lstrip("<")}|{v.get("name")}#{vi}', ok, 'requested only after a key',
                      f'`{d}` calls {v.get("name")} (line {v.get("l")}) where next_key may have returned None: on an empty table toml_edit\'s TableMapAccess panics '
                      f'("no more values in next_value_seed")', facts.loc(b, v))


def r7_access_ends(rep, facts):
    R = rep.rule('C04/R7', 'decoding terminates: every MapAccess / SeqAccess of the workspace, driven the way serde visitors drive it (key, value, key, value, .. / element, element, ..) '
                 'on a model with one to three entries, announces the end after its last entry (evaluated).  A map that keeps offering the same key makes every visitor that '
                 'reads "until None" spin forever', floor=6)
    from .den import RecInterp, Evaluator, Unanalysable, EvalPanic, IterObj
    SOME, NONE, OK = 'core::option::Option::Some', 'core::option::Option::None', 'core::result::Result::Ok'
    key = lambda n: ('struct', 'toml_edit::key::Key', {'key': ('key', n), 'repr': ('ctor', NONE), 'leaf_decor': ('opaque',), 'dotted_decor': ('opaque',)})

    def model(ty):
        adt = facts.adts.get(ty.split('<')[0]) or {}
        st = {}
        n_entries = 0
        for v in adt.get('variants', []):
            for fl in v['fields']:
                t = fl['ty']
                if fl['name'] == 'iter':
                    pairs = 'Map' in t or 'map' in t
                    mk = (lambda i: ((key(i) if 'toml_edit' in ty else f'k{i}'), ('item', i))) if pairs else (lambda i: ('item', i))
                    st['iter'] = IterObj([mk(0), mk(1)])
                    n_entries += 2
                elif fl['name'] == 'value' and 'iter' in [x['name'] for x in v['fields']]:
                    st['value'] = ('ctor', NONE)
                elif t.startswith('core::option::Option<'):
                    st[fl['name']] = ('ctor', SOME, ((fl['name'],),))
                    n_entries += 1
                else:
                    st[fl['name']] = ('opaque',)
        return ('struct', ty, st), n_entries
    n = 0
    for imp in facts.impls:
        tr = imp.get('trait') or ''
        kind = 'map' if tr.startswith('serde::de::MapAccess') else 'seq' if tr.startswith('serde::de::SeqAccess') else None
        if kind is None or not (imp.get('self_ty') or '').split('::')[0] in ('toml', 'toml_edit', 'toml_datetime', 'serde_spanned'):
            continue
        ty = imp['self_ty']
        items = {i['name']: i['def'] for i in imp['items']}
        first = 'next_key_seed' if kind == 'map' else 'next_element_seed'
        if first not in items or not facts.has_body(items[first]):
            continue
        me, n_entries = model(ty)
        log = []
        ended = None
        try:
            for rnd in range(n_entries + 3):
                bk = facts.body(items[first])
                pn = [p_['name'] for p_ in bk['params'] if p_.get('k') == 'p_bind']
                it = RecInterp(Evaluator(facts), {'deserialize'}, {'new'}, stubs={'span': ('ctor', NONE)})
                r = it.run_body(bk, {pn[0]: me, pn[1]: ('seed',), '@assign': {}})
                isnone = isinstance(r, tuple) and r[:2] == ('ctor', OK) and r[2][0] == ('ctor', NONE)
                log.append('end' if isnone else ('key' if kind == 'map' else 'element'))
                if isnone:
                    ended = rnd
                    break
                if kind == 'map':
                    bv = facts.body(items['next_value_seed'])
                    pn = [p_['name'] for p_ in bv['params'] if p_.get('k') == 'p_bind']
                    it = RecInterp(Evaluator(facts), {'deserialize', 'into_deserializer'}, {'new'}, stubs={'span': ('ctor', NONE)})
                    it.run_body(bv, {pn[0]: me, pn[1]: ('seed',), '@assign': {}})
                    log.append('value')
        except EvalPanic as e:
            rep.bad(R, ty, f'`{ty}` panics when driven as {kind} access: {e} (after {log})', facts.loc(facts.body(items[first])))
            n += 1
            continue
        except Unanalysable as e:
            rep.incomplete(R, ty, f'cannot evaluate `{ty}`: {e}', facts.loc(facts.body(items[first])))
            continue
        n += 1
        rep.check(R, ty, ended is not None and ended <= n_entries, f'{" ".join(log)}', f'`{ty}` with {n_entries} entr{"y" if n_entries == 1 else "ies"} does not announce its end: {" ".join(log)} .. — a visitor '
                  f'that reads until the end (a derived struct, a map, IgnoredAny) never returns', facts.loc(facts.body(items[first])))
    rep.check(R, 'count', n >= 5, f'{n} access types evaluated', f'only {n} MapAccess / SeqAccess implementations found')


def rules(rep, facts):
    feats = set(facts.crates.get('toml_edit', {}).get('features', []))
    if 'toml_edit' not in facts.crates or not {'parse', 'display', 'serde'} <= feats or 'toml' not in facts.crates:
        rep.notes.append(f'configuration {facts.config}: not the full default feature set, inventory skipped (the allowlist is keyed to the default build).')
        if 'toml_edit' in facts.crates and 'parse' in feats:
            g = pm.model(facts)
            r3_unsafe(rep, facts, g)
            r4_progress(rep, facts, g)
        return
    cg = CallGraph(facts)
    g = pm.model(facts)
    r1_inventory(rep, facts, cg)
    r3_unsafe(rep, facts, g)
    r4_progress(rep, facts, g)
    r5_from_slice(rep, facts)
    r6_map_protocol(rep, facts)
    r7_access_ends(rep, facts)
    from .shared import presized_from_hint
    R8 = rep.rule('C04/R8', 'no allocation is sized by an untrusted size_hint() (a huge claim aborts with "capacity overflow")', floor=1)
    presized_from_hint(rep, R8, facts)
    from .shared import no_reparse
    no_reparse(rep, rep.rule('C04/R10', 'a bounded amount of work: no recursive construct is parsed twice from one position (backtracking over a nested array or inline table multiplies '
                                        'with the depth, 2^depth parses)', floor=1), g)
    if 'parse' in set(facts.crates.get('toml_edit', {}).get('features', [])):
        r9_counter_balanced(rep, facts, facts.config)
        if facts.config == 'default':
            from .core import Facts
            r9_counter_balanced(rep, Facts('unbounded'), 'unbounded')
    # R2: the structural guards the allowlist reasons rely on
    from .rules_c12 import r3b_digit
    from .rules_c15 import r4_rendering
    r3b_digit(rep, facts)
    rep.relabel('C12/R3b', 'C04/R2', 'guards behind the allowlist: ')
    r4_rendering(rep, facts)
    rep.relabel('C15/R4', 'C04/R2')
    from .rules_c14 import r1_provenance
    r1_provenance(rep, facts)
    rep.relabel('C14/R1', 'C04/R2')
    if 'toml_datetime' in facts.crates:
        from .rules_c12 import r7_shapes, r4_truncation
        r7_shapes(rep, facts, rid='C12/R7')
        rep.relabel('C12/R7', 'C04/R2')
        r4_truncation(rep, facts)
        rep.relabel('C12/R4', 'C04/R2')
    rep.rules['C04/R2']['floor'] = 6
    rep.notes.append('R2 (guard structure behind allowlist reasons) is discharged by C15/R4 (rendering clamps), C12/R7 (no constructor builds a date-time shape for which Datetime::type_name is `unreachable!`), C14/R1 (every span is start <= end by construction: `span.end - span.start` when an error is rendered), C02/R5 (SCALE.get / truncation), C12/R3b + C11/R3 (ASCII digits before `as u8 - b\'0\'`), C01/R3 (separated(1..) behind "at least one key").')


def r9_counter_balanced(rep, facts, label):
    """the depth counter's decrement is overflow-checked: it is safe only while every exit undoes an enter of the same build"""
    R = rep.rule('C04/R9', 'in every configuration an `enter` followed by an `exit` of the nesting counter leaves it where it was and never takes it below zero (an overflow-checked '
                 'subtraction panics): evaluated from the counter values 0, 1 and 5; where feature "unbounded" compiles the counter out, both functions leave it alone', floor=3)
    from .den import Evaluator, FxInterp, Unanalysable
    Pp = 'toml_edit::parser::prelude::RecursionCheck::'
    if not (facts.has_body(Pp + 'enter') and facts.has_body(Pp + 'exit')):
        rep.incomplete(R, f'{label}|RecursionCheck', '`RecursionCheck::enter` / `exit` not found')
        return
    be, bx = facts.body(Pp + 'enter'), facts.body(Pp + 'exit')
    is_err = lambda r: isinstance(r, tuple) and r and r[0] == 'ctor' and r[1].endswith('Result::Err')
    ev = Evaluator(facts)

    def run(b, c):
        it = FxInterp(ev)
        pn = [p['name'] for p in b.get('params', []) if p.get('k') == 'p_bind']
        env = {pn[0]: ('self',), '.current': c, '@assign': {}}
        try:
            r = it.run_body(b, env)
        except Unanalysable:
            raise
        except Exception as ex:
            r = getattr(ex, 'v', None)
            if r is None:
                raise
        return r, env.get('.current')
    for c in (0, 1, 5):
        key = f'{label}|current = {c}'
        try:
            r, mid = run(be, c)
            if is_err(r):
                rep.ok(R, key, f'enter refuses at {c}', facts.loc(be))
                continue
            _, after = run(bx, mid)
        except Unanalysable as e:
            rep.incomplete(R, key, f'cannot evaluate enter / exit: {e}', facts.loc(bx))
            continue
        rep.check(R, key, isinstance(mid, int) and isinstance(after, int) and mid >= c and after == c, f'{c} -> {mid} -> {after}',
                  f'in configuration `{label}` the nesting counter goes {c} -> {mid} (enter) -> {after} (exit): exit does not undo what enter did'
                  + (', and the overflow-checked `-= 1` panics at zero' if isinstance(after, int) and after < 0 else ''), facts.loc(bx))


def run(tier):
    return run_property(PROP, tier, rules, configs_thorough=['default', 'perf', 'edit_parse', 'unbounded'])
