"""The parser's semantic actions evaluated end to end on model documents.

The grammar rules (which bytes a rule consumes) are decided elsewhere (C01, C02: the G-IR against the ABNF).  What the parser *does* with what it matched is in the closures
attached to the rules and in ParseState: build a Key with its decor from the spans around it, wrap a value with its raw text, hand a header / a key-value pair / white
space to the parser state, and at the end turn the state into a document.  This module runs exactly those pieces of /repo — the closures of parser::key::key,
parser::document::{parse_keyval, keyval, parse_ws, parse_comment, parse_newline}, parser::table::{std_table, array_table}, parser::value::{value, apply_raw}, then the
methods of ParseState, ImDocument::into_mut (despan) and Display for DocumentMut — in the evaluator, on the matches a small line tokenizer finds in a model document (a
subset of TOML: bare and quoted keys, integers, booleans, basic strings, headers, comments, blank lines).  Nothing of /repo is executed: the bodies come from the typed HIR
facts of the current tree.

The tokenizer is the stand-in for the grammar rules only (where a key starts and ends); every value that reaches the tree is produced by /repo's own code."""
import re

from .core import walk, peel
from .den import Evaluator, VecObj, Unanalysable, EvalPanic
from .places import deref
from .printdrive import PrintInterp

PP = 'toml_edit::parser::'
V_ = 'toml_edit::value::Value::'
OK = 'core::result::Result::Ok'
KEY_RE = re.compile(r'([ \t]*)([A-Za-z0-9_-]+|"[^"\\\n]*"|\'[^\'\n]*\')([ \t]*)')
VAL_RE = re.compile(r'[+-]?[0-9]+|true|false|"[^"\\\n]*"')


class Refused(Exception):
    """the parser state refused the document (an error value came back from a semantic action)"""

    def __init__(self, where, err):
        super().__init__(f'{where}: {err!r:.200}')
        self.where, self.err = where, err


def rng(a, b):
    return ('range', a, b - 1)            # the evaluator keeps ranges with an inclusive end


class ScriptedInterp(PrintInterp):
    """`p.parse_next(input)?` inside a parser function that does its work in statements (array_values, array_value) yields what the grammar rule `p` matched:
    the results are supplied, in the order of the grammar, by the tokenizer"""
    script = None

    def _mcall(self, e, env):
        if self.script is not None and e.get('name') in ('parse_next', 'parse_peek'):
            if not self.script:
                raise Unanalysable('the function asks for more parse results than its grammar rule has parts')
            return ('ctor', OK, (self.script.pop(0),))
        return super()._mcall(e, env)


def _tag_of_type(t):
    t = (t or '').replace('&mut ', '').replace('&', '').strip()
    if t.startswith('core::ops::range::Range<'):
        return 'range'
    if t == 'alloc::vec::Vec<toml_edit::key::Key>':
        return 'keys'
    if t.startswith('alloc::vec::Vec<') and t not in ('alloc::vec::Vec<toml_edit::key::Key>',) and not t.startswith('alloc::vec::Vec<toml_edit::item::Item>'):
        return 'pairs'          # the key-value pairs of an inline table, whatever each pair is (a tuple, a struct)
    if t.startswith('alloc::vec::Vec<toml_edit::item::Item>'):
        return 'items'
    for full, tag in (('toml_edit::value::Value', 'value'), ('toml_edit::raw_string::RawString', 'raw'), ('toml_edit::internal_string::InternalString', 'istr'),
                      ('toml_edit::key::Key', 'key'), ('toml_edit::item::Item', 'item'), ('u8', 'byte')):
        if t == full:
            return tag
    if t in ('str', 'alloc::string::String') or t.startswith('alloc::borrow::Cow<'):
        return 'text'
    return 'other'


def _tag_of_value(v):
    v0 = deref(v)
    if isinstance(v0, tuple) and len(v0) == 3 and v0[0] == 'range':
        return 'range'
    if isinstance(v0, VecObj):
        x = deref(v0.items[0]) if v0.items else None
        if x is None:
            return 'vec'
        if isinstance(x, tuple) and len(x) == 3 and x[0] == 'struct' and x[1] == 'toml_edit::key::Key':
            return 'keys'
        if isinstance(x, tuple) and len(x) == 3 and x[0] == 'ctor' and x[1].startswith('toml_edit::item::Item::'):
            return 'items'
        return 'pairs'
    if isinstance(v0, tuple) and len(v0) == 3 and v0[0] in ('struct', 'ctor'):
        n = v0[1]
        if n.startswith('toml_edit::value::Value::'):
            return 'value'
        if n.startswith('toml_edit::item::Item::'):
            return 'item'
        return {'toml_edit::raw_string::RawString': 'raw', 'toml_edit::internal_string::InternalString': 'istr', 'toml_edit::key::Key': 'key'}.get(n, 'other')
    if isinstance(v0, str):
        return 'text'
    if isinstance(v0, int) and not isinstance(v0, bool):
        return 'byte'
    return 'other'


def _split_tuple_type(t):
    parts, cur, dep = [], '', 0
    for ch in t[1:-1]:
        if ch in '(<[':
            dep += 1
        if ch in ')>]':
            dep -= 1
        if ch == ',' and dep == 0:
            parts.append(cur.strip())
            cur = ''
        else:
            cur += ch
    if cur.strip():
        parts.append(cur.strip())
    return parts


def shape_for(params, parts):
    """arguments for a closure from what the grammar rule delivers: `parts` are the outputs of the rule's sub-parsers in the order of the grammar; each goes to
    the parameter leaf of its type (so the nesting of the tuples — `(key, (sep, (pre, v, suf)))` today — may change without the meaning changing)"""
    leaves = []

    def flat(v):
        if isinstance(v, tuple) and not (len(v) == 3 and v[0] in ('range', 'struct', 'ctor')):
            for x in v:
                flat(x)
        else:
            leaves.append([_tag_of_value(v), v, False])
    for x in parts:
        flat(x)

    def take(tag):
        for lf in leaves:
            if not lf[2] and (lf[0] == tag or (lf[0] == 'vec' and tag in ('keys', 'pairs', 'items'))):
                lf[2] = True
                return lf[1]
        if tag == 'other':
            rest = [lf for lf in leaves if not lf[2]]
            if len(rest) == 1:
                rest[0][2] = True
                return rest[0][1]
        raise Unanalysable(f'the closure takes a `{tag}` that the grammar rule does not deliver')

    def of_type(t):
        t = (t or '').strip()
        if t.startswith('(') and t.endswith(')'):
            return tuple(of_type(x) for x in _split_tuple_type(t))
        return take(_tag_of_type(t))

    def of_pat(p):
        k = p.get('k')
        if k == 'p_tuple':
            return tuple(of_pat(x) for x in p['pats'])
        if k == 'p_wild':
            return ('unused',)
        if k == 'p_bind':
            return of_type(p.get('t'))
        raise Unanalysable(f'a closure parameter pattern `{k}`')
    return [of_pat(p) for p in params]


class Pipeline:
    def __init__(self, facts):
        self.f = facts
        self.it = ScriptedInterp(Evaluator(facts))
        self.st = None

    # -- pieces of /repo ------------------------------------------------------------------------------------------------------
    def fn(self, d, *args):
        if not self.f.has_body(d):
            raise Unanalysable(f'`{d}` not found')
        return self.it.apply_fn(self.f.body(d), list(args))

    def closures(self, d):
        if not self.f.has_body(d):
            raise Unanalysable(f'`{d}` not found')
        return [n for n in walk(self.f.body(d)['body']) if n.get('k') == 'closure']

    def state_env(self, d):
        """the locals of `d` that hold the shared parser state (a RefCell<ParseState>, modelled as the state itself)"""
        env = {}
        for n in walk(self.f.body(d)['body']):
            if n.get('k') == 'path' and n.get('res') == 'Local' and 'ParseState' in (n.get('t') or ''):
                env[n['path']] = self.st
        for p in self.f.body(d).get('params', []):
            if p.get('k') == 'p_bind' and 'ParseState' in (p.get('t') or ''):
                env[p['name']] = self.st
        return env

    def action(self, d, pick, *args):
        """the closure of `d` selected by `pick` (a predicate over closure nodes), applied to args"""
        cl = [c for c in self.closures(d) if pick(c)]
        if len(cl) != 1:
            raise Unanalysable(f'{len(cl)} closures of `{d}` match the expected shape')
        env = self.state_env(d)
        return self.it.apply(self.it.val(cl[0], env), shape_for(cl[0].get('params', []), args))

    def apply_raw(self, v, span, what):
        """what `value` does with the matched value and its span: the closure that calls apply_raw, or apply_raw itself where it is handed to `.map` by name"""
        d = PP + 'value::value'
        cl = [c for c in self.closures(d) if self.inner(c) and self.calls('apply_raw')(c)]
        if len(cl) == 1:
            return self.it.apply(self.it.val(cl[0], self.state_env(d)), shape_for(cl[0].get('params', []), [v, span]))
        fn = PP + 'value::apply_raw'
        if not cl and self.f.has_body(fn) and any(n.get('k') == 'path' and n.get('path') == fn for n in walk(self.f.body(d)['body'])):
            return self.it.apply_fn(self.f.body(fn), shape_for(self.f.body(fn).get('params', []), [v, span]))
        raise Unanalysable(f'{len(cl)} closures of `{d}` hand the {what} to apply_raw')

    def scripted(self, d, script):
        """the body of a parser function written as statements, with the results of its `parse_next` calls supplied in the order of the grammar"""
        b = self.f.body(d) if self.f.has_body(d) else None
        if b is None:
            raise Unanalysable(f'`{d}` not found')
        self.it.script = list(script)
        try:
            r = self.it.apply_fn(b, [('input',)])
            left = self.it.script
        finally:
            self.it.script = None
        if left:
            raise Unanalysable(f'`{d}` asks for fewer parse results than its grammar rule has parts')
        return r

    @staticmethod
    def calls(name):
        return lambda c: any(n.get('k') in ('mcall', 'call') and (n.get('name') == name or (peel(n.get('f', {})).get('path') or '').endswith('::' + name)) for n in walk(c.get('body', c)))

    @staticmethod
    def inner(c):
        """not the outer `move |i| {..}` closure that only builds the parser"""
        return not any(n.get('k') == 'closure' and n is not c for n in walk(c.get('body', {})))

    def unwrap(self, r, where):
        r = deref(r)
        if isinstance(r, tuple) and len(r) == 3 and r[0] == 'ctor' and r[1] == OK:
            return r[2][0]
        raise Refused(where, r)

    # -- the matches of one document -------------------------------------------------------------------------------------------
    def key_path(self, text, base):
        """`key` on text[base:]: the keys with their decor, and the position after them"""
        d = PP + 'key::key'
        pos = base
        keys = []
        while True:
            m = KEY_RE.match(text, pos)
            if not m:
                raise ValueError(f'no key at {pos} in {text!r}')
            pre, kt, suf = m.group(1), m.group(2), m.group(3)
            ks = m.start(2)
            name = kt[1:-1] if kt[0] in '"\'' else kt
            simple = [c for c in self.closures(PP + 'key::simple_key') if self.inner(c) and len(c.get('params', [])) == 1 and c['params'][0].get('k') == 'p_tuple']
            if len(simple) == 1:
                sk = self.it.apply(self.it.val(simple[0], {}), shape_for(simple[0]['params'], [self.internal(name), rng(ks, ks + len(kt))]))
            else:
                sk = (self.fn('toml_edit::raw_string::RawString::with_span', rng(ks, ks + len(kt))), self.internal(name))
            k = self.action(d, lambda c: self.inner(c) and self.calls('with_dotted_decor')(c), rng(m.start(1), ks), sk, rng(m.end(2), m.end(3)))
            keys.append(k)
            pos = m.end()
            if pos < len(text) and text[pos] == '.':
                pos += 1
                continue
            break
        # what key() does with the matched keys afterwards (the statements after `.parse_next(input)?`)
        b = self.f.body(d)
        stmts = b['body']['stmts']
        if not (stmts and stmts[0].get('k') == 'let' and stmts[0]['pat'].get('k') == 'p_bind'):
            raise Unanalysable('`key::key` does not start with `let key_path = ..parse_next(input)?`')
        env = {stmts[0]['pat']['name']: VecObj(keys)}
        r = self.it.run({'k': 'block', 'stmts': stmts[1:], 'expr': b['body'].get('expr'), 'l': b['body'].get('l')}, env)
        return self.unwrap(r, 'key'), pos

    def internal(self, name):
        c = [d for d in self.f.bodies if d.startswith('<toml_edit::internal_string::InternalString as core::convert::From<&') and d.endswith('>::from')]
        return self.fn(c[0], name) if c else name

    WSCN = re.compile(r'(?:[ \t\n]|\r\n|#[^\r\n]*(?:\r\n|\n))*')

    def array(self, text, pos):
        """`array` on text[pos:] (text[pos] is `[`): array_values and array_value evaluated with what their sub-parsers match; returns (Array, position after `]`)"""
        A = PP + 'array::'
        p = pos + 1
        if text.startswith(']', p):
            arr = self.unwrap(self.scripted(A + 'array_values', [('ctor', 'core::option::Option::Some', (ord(']'),))]), 'array')
            return arr, p + 1
        items = []
        while True:
            m = self.WSCN.match(text, p)
            if text[m.end()] in '],':
                break                                   # no value here: `separated` stops and gives back what it read after the last element
            v, p2 = self.value(text, m.end())
            m2 = self.WSCN.match(text, p2)
            parts = [rng(p, m.end()), v, rng(p2, m2.end())]
            acts = [c for c in self.closures(A + 'array_value') if self.inner(c)]
            if len(acts) == 1:
                # written as one combinator: `(ws, value, ws).map(|(prefix, value, suffix)| ..)`
                it_ = self.it.apply(self.it.val(acts[0], {}), shape_for(acts[0].get('params', []), parts))
                it_ = it_[2][0] if isinstance(it_, tuple) and len(it_) == 3 and it_[0] == 'ctor' and it_[1] == OK else it_
            else:
                it_ = self.unwrap(self.scripted(A + 'array_value', parts), 'array element')
            items.append(it_)
            p = m2.end()
            if text[p] == ',':
                # the separator belongs to `separated` only if another element follows
                m3 = self.WSCN.match(text, p + 1)
                if text[m3.end()] in '],':
                    break
                p += 1
                continue
            break
        script = [('ctor', 'core::option::Option::None'), VecObj(items)]
        if items:
            comma = text[p] == ','
            script.append(('ctor', 'core::option::Option::Some', (ord(','),)) if comma else ('ctor', 'core::option::Option::None'))
            if comma:
                p += 1
        m = self.WSCN.match(text, p)
        script.append(rng(p, m.end()))
        if text[m.end()] != ']':
            raise ValueError(f'no `]` at {m.end()} in {text!r}')
        arr = self.unwrap(self.scripted(A + 'array_values', script), 'array')
        return arr, m.end() + 1

    def inline_table(self, text, pos):
        """`inline_table` on text[pos:] (text[pos] is `{`): the keyval closure for every pair, then table_from_pairs through the closure of inline_table"""
        IT_ = PP + 'inline_table::'
        p = pos + 1
        pairs = []
        ws = re.compile(r'[ \t]*')
        while True:
            m = ws.match(text, p)
            if text[m.end()] == '}':
                break
            keys, p2 = self.key_path(text, p)
            if text[p2] != '=':
                raise ValueError(f'no `=` at {p2} in {text!r}')
            m1 = ws.match(text, p2 + 1)
            v, p3 = self.value(text, m1.end())
            m2 = ws.match(text, p3)
            kv = self.action(IT_ + 'keyval', lambda c: self.inner(c), keys, ord('='), rng(p2 + 1, m1.end()), v, rng(p3, m2.end()))
            pairs.append(kv)
            p = m2.end()
            if text[p] == ',':
                p += 1
                continue
            break
        m = ws.match(text, p)
        if text[m.end()] != '}':
            raise ValueError(f'no `}}` at {m.end()} in {text!r}')
        pre = self.fn('toml_edit::raw_string::RawString::with_span', rng(p, m.end()))
        parts = [VecObj(pairs), pre]
        # what inline_table_keyvals makes of its two parts (nothing today: a tuple; a closure that packs them into a struct would be evaluated here)
        kvc = [c for c in self.closures(IT_ + 'inline_table_keyvals') if self.inner(c)] if self.f.has_body(IT_ + 'inline_table_keyvals') else []
        if len(kvc) == 1 and len(kvc[0].get('params', [])) == 1:
            try:
                parts = [self.it.apply(self.it.val(kvc[0], {}), shape_for(kvc[0]['params'], parts))]
            except Unanalysable:
                parts = [VecObj(pairs), pre]
        cl = [c for c in self.closures(IT_ + 'inline_table') if self.inner(c) and self.calls('table_from_pairs')(c)]
        tfp = IT_ + 'table_from_pairs'
        if len(cl) == 1:
            t = self.it.apply(self.it.val(cl[0], {}), shape_for(cl[0].get('params', []), parts))
        elif not cl and self.f.has_body(tfp) and any(n.get('k') == 'path' and n.get('path') == tfp for n in walk(self.f.body(IT_ + 'inline_table')['body'])):
            t = self.it.apply_fn(self.f.body(tfp), shape_for(self.f.body(tfp).get('params', []), parts))          # handed to try_map by name
        else:
            raise Unanalysable(f'{len(cl)} closures of `{IT_}inline_table` hand the pairs to table_from_pairs')
        return self.unwrap(t, f'inline table at {pos}'), m.end() + 1

    def value(self, text, pos):
        d = PP + 'value::value'
        if text[pos] in '[{':
            inner, end = (self.array if text[pos] == '[' else self.inline_table)(text, pos)
            v = ('ctor', V_ + ('Array' if text[pos] == '[' else 'InlineTable'), (inner,))
            v = self.apply_raw(v, rng(pos, end), 'container')
            return v, end
        m = VAL_RE.match(text, pos)
        if not m:
            raise ValueError(f'no value at {pos} in {text!r}')
        vt = m.group(0)
        if vt[0] == '"':
            v = self.action(d, lambda c: self.inner(c) and self.calls('into_owned')(c), vt[1:-1])
        elif vt in ('true', 'false'):
            v = self.fn("<toml_edit::value::Value as core::convert::From<bool>>::from", vt == 'true')
        else:
            v = self.fn("<toml_edit::value::Value as core::convert::From<i64>>::from", int(vt))
        v = self.apply_raw(v, rng(m.start(), m.end()), 'scalar')
        return v, m.end()

    def line_trailing(self, text, pos):
        """(ws, opt(comment)).span() then the line ending: the span, and the position after the line ending"""
        m = re.compile(r'[ \t]*(#[^\r\n]*)?').match(text, pos)
        end = m.end()
        after = end + 2 if text.startswith('\r\n', end) else end + 1 if end < len(text) and text[end] == '\n' else end
        if after == end and end != len(text):
            raise ValueError(f'junk after a value at {end} in {text!r}')
        return rng(pos, end), after

    def feed(self, text):
        """run the semantic actions for every match of the document; returns the parser state"""
        D = PP + 'document::'
        self.st = self.fn(PP + 'state::ParseState::new')
        ws_act = lambda a, b: self.action(D + 'parse_ws', lambda c: self.inner(c) and self.calls('on_ws')(c), rng(a, b))
        pos = 0
        m = re.compile(r'[ \t]*').match(text, pos)
        ws_act(pos, m.end())
        pos = m.end()
        while pos < len(text):
            ch = text[pos]
            if ch == '#':
                mc = re.compile(r'#[^\r\n]*(?:\r\n|\n)?').match(text, pos)
                end = mc.end()
                if end < len(text) and text[end - 1] != '\n':
                    raise ValueError(f'junk after a comment at {end} in {text!r}')
                self.action(D + 'parse_comment', lambda c: self.inner(c) and self.calls('on_comment')(c), rng(pos, end))
                pos = end
            elif ch == '\n' or text.startswith('\r\n', pos):
                n_ = 1 if ch == '\n' else 2
                self.action(D + 'parse_newline', lambda c: self.inner(c) and self.calls('on_ws')(c), rng(pos, pos + n_))
                pos += n_
            elif ch == '[':
                arr = text.startswith('[[', pos)
                start = pos
                keys, p2 = self.key_path(text, pos + (2 if arr else 1))
                close = ']]' if arr else ']'
                if not text.startswith(close, p2):
                    raise ValueError(f'no `{close}` at {p2} in {text!r}')
                p2 += len(close)
                tr, after = self.line_trailing(text, p2)
                fn, ev = (PP + 'table::array_table', 'on_array_header') if arr else (PP + 'table::std_table', 'on_std_header')
                r = self.action(fn, lambda c: self.inner(c) and self.calls(ev)(c), keys, rng(start, p2), tr)
                self.unwrap(r, f'header at {start}')
                pos = after
            else:
                start = pos
                keys, p2 = self.key_path(text, pos)
                if text[p2] != '=':
                    raise ValueError(f'no `=` at {p2} in {text!r}')
                p2 += 1
                m = re.compile(r'[ \t]*').match(text, p2)
                v, p3 = self.value(text, m.end())
                tr, after = self.line_trailing(text, p3)
                kv = self.action(D + 'parse_keyval', lambda c: self.inner(c), keys, ord('='), rng(p2, m.end()), v, tr)
                kv = self.unwrap(kv, f'key-value pair at {start}')
                r = self.action(D + 'keyval', lambda c: self.inner(c) and self.calls('on_keyval')(c), kv)
                self.unwrap(r, f'key-value pair at {start}')
                pos = after
            m = re.compile(r'[ \t]*').match(text, pos)
            ws_act(pos, m.end())
            pos = m.end()
        return self.st

    def document(self, text):
        """parse_document: the events, then ParseState::into_document"""
        st = self.feed(text)
        doc = self.unwrap(self.fn(PP + 'state::ParseState::into_document', st, text), 'end of document')
        return doc

    def printed(self, text):
        """parse, make editable (despan), print"""
        doc = self.document(text)
        im = [d for d in self.f.bodies if d.startswith('toml_edit::document::ImDocument') and d.endswith('::into_mut')]
        if len(im) != 1:
            raise Unanalysable('ImDocument::into_mut not found')
        dm = self.fn(im[0], doc)
        disp = self.f.method('core::fmt::Display', 'toml_edit::document::DocumentMut', 'fmt')
        n0 = len(self.it.calls)
        self.it.apply_fn(self.f.body(disp), [dm, ('formatter',)])
        return dm, self.it.text(n0)
