"""The parser's semantic actions evaluated end to end on model documents.

The grammar rules (which bytes a rule consumes) are decided elsewhere (C01, C02: the G-IR against the ABNF).  What the parser *does* with what it matched is in the closures
attached to the rules and in ParseState: build a Key with its decor from the spans around it, wrap a value with its raw text, hand a header / a key-value pair / white
space to the parser state, and at the end turn the state into a document.  This module runs exactly those pieces of /repo — the closures of parser::key::key,
parser::document::{parse_keyval, keyval, parse_ws, parse_comment, parse_newline}, parser::table::{std_table, array_table}, parser::value::{value, apply_raw}, then the
methods of ParseState, ImDocument::into_mut (despan) and Display for DocumentMut — in the evaluator, on the matches a small line tokenizer finds in a model document (a
subset of TOML: bare and quoted keys, integers, booleans, basic strings, headers, comments, blank lines).  Nothing of /repo is executed: the bodies come from the typed HIR
facts of the current tree.

The tokenizer is the stand-in for the grammar rules only (where a key starts and ends); every value that reaches the tree is produced by /repo's own code."""
import re

from .core import walk, peel
from .den import Evaluator, VecObj, Unanalysable, EvalPanic
from .places import deref
from .printdrive import PrintInterp

PP = 'toml_edit::parser::'
OK = 'core::result::Result::Ok'
KEY_RE = re.compile(r'([ \t]*)([A-Za-z0-9_-]+|"[^"\\\n]*"|\'[^\'\n]*\')([ \t]*)')
VAL_RE = re.compile(r'[+-]?[0-9]+|true|false|"[^"\\\n]*"')


class Refused(Exception):
    """the parser state refused the document (an error value came back from a semantic action)"""

    def __init__(self, where, err):
        super().__init__(f'{where}: {err!r:.200}')
        self.where, self.err = where, err


def rng(a, b):
    return ('range', a, b - 1)            # the evaluator keeps ranges with an inclusive end


class Pipeline:
    def __init__(self, facts):
        self.f = facts
        self.it = PrintInterp(Evaluator(facts))
        self.st = None

    # -- pieces of /repo ------------------------------------------------------------------------------------------------------
    def fn(self, d, *args):
        if not self.f.has_body(d):
            raise Unanalysable(f'`{d}` not found')
        return self.it.apply_fn(self.f.body(d), list(args))

    def closures(self, d):
        if not self.f.has_body(d):
            raise Unanalysable(f'`{d}` not found')
        return [n for n in walk(self.f.body(d)['body']) if n.get('k') == 'closure']

    def state_env(self, d):
        """the locals of `d` that hold the shared parser state (a RefCell<ParseState>, modelled as the state itself)"""
        env = {}
        for n in walk(self.f.body(d)['body']):
            if n.get('k') == 'path' and n.get('res') == 'Local' and 'ParseState' in (n.get('t') or ''):
                env[n['path']] = self.st
        for p in self.f.body(d).get('params', []):
            if p.get('k') == 'p_bind' and 'ParseState' in (p.get('t') or ''):
                env[p['name']] = self.st
        return env

    def action(self, d, pick, *args):
        """the closure of `d` selected by `pick` (a predicate over closure nodes), applied to args"""
        cl = [c for c in self.closures(d) if pick(c)]
        if len(cl) != 1:
            raise Unanalysable(f'{len(cl)} closures of `{d}` match the expected shape')
        env = self.state_env(d)
        return self.it.apply(self.it.val(cl[0], env), list(args))

    @staticmethod
    def calls(name):
        return lambda c: any(n.get('k') in ('mcall', 'call') and (n.get('name') == name or (peel(n.get('f', {})).get('path') or '').endswith('::' + name)) for n in walk(c.get('body', c)))

    @staticmethod
    def inner(c):
        """not the outer `move |i| {..}` closure that only builds the parser"""
        return not any(n.get('k') == 'closure' and n is not c for n in walk(c.get('body', {})))

    def unwrap(self, r, where):
        r = deref(r)
        if isinstance(r, tuple) and len(r) == 3 and r[0] == 'ctor' and r[1] == OK:
            return r[2][0]
        raise Refused(where, r)

    # -- the matches of one document -------------------------------------------------------------------------------------------
    def key_path(self, text, base):
        """`key` on text[base:]: the keys with their decor, and the position after them"""
        d = PP + 'key::key'
        pos = base
        keys = []
        while True:
            m = KEY_RE.match(text, pos)
            if not m:
                raise ValueError(f'no key at {pos} in {text!r}')
            pre, kt, suf = m.group(1), m.group(2), m.group(3)
            ks = m.start(2)
            name = kt[1:-1] if kt[0] in '"\'' else kt
            simple = [c for c in self.closures(PP + 'key::simple_key') if self.inner(c) and len(c.get('params', [])) == 1 and c['params'][0].get('k') == 'p_tuple']
            if len(simple) == 1:
                sk = self.it.apply(self.it.val(simple[0], {}), [(self.internal(name), rng(ks, ks + len(kt)))])
            else:
                sk = (self.fn('toml_edit::raw_string::RawString::with_span', rng(ks, ks + len(kt))), self.internal(name))
            k = self.action(d, lambda c: self.inner(c) and self.calls('with_dotted_decor')(c), (rng(m.start(1), ks), sk, rng(m.end(2), m.end(3))))
            keys.append(k)
            pos = m.end()
            if pos < len(text) and text[pos] == '.':
                pos += 1
                continue
            break
        # what key() does with the matched keys afterwards (the statements after `.parse_next(input)?`)
        b = self.f.body(d)
        stmts = b['body']['stmts']
        if not (stmts and stmts[0].get('k') == 'let' and stmts[0]['pat'].get('k') == 'p_bind'):
            raise Unanalysable('`key::key` does not start with `let key_path = ..parse_next(input)?`')
        env = {stmts[0]['pat']['name']: VecObj(keys)}
        r = self.it.run({'k': 'block', 'stmts': stmts[1:], 'expr': b['body'].get('expr'), 'l': b['body'].get('l')}, env)
        return self.unwrap(r, 'key'), pos

    def internal(self, name):
        c = [d for d in self.f.bodies if d.startswith('<toml_edit::internal_string::InternalString as core::convert::From<&') and d.endswith('>::from')]
        return self.fn(c[0], name) if c else name

    def value(self, text, pos):
        m = VAL_RE.match(text, pos)
        if not m:
            raise ValueError(f'no value at {pos} in {text!r}')
        vt = m.group(0)
        d = PP + 'value::value'
        if vt[0] == '"':
            v = self.action(d, lambda c: self.inner(c) and self.calls('into_owned')(c), vt[1:-1])
        elif vt in ('true', 'false'):
            v = self.fn("<toml_edit::value::Value as core::convert::From<bool>>::from", vt == 'true')
        else:
            v = self.fn("<toml_edit::value::Value as core::convert::From<i64>>::from", int(vt))
        v = self.action(d, lambda c: self.inner(c) and self.calls('apply_raw')(c), (v, rng(m.start(), m.end())))
        return v, m.end()

    def line_trailing(self, text, pos):
        """(ws, opt(comment)).span() then the line ending: the span, and the position after the line ending"""
        m = re.compile(r'[ \t]*(#[^\n]*)?').match(text, pos)
        end = m.end()
        after = end + 1 if end < len(text) and text[end] == '\n' else end
        if after == end and end != len(text):
            raise ValueError(f'junk after a value at {end} in {text!r}')
        return rng(pos, end), after

    def feed(self, text):
        """run the semantic actions for every match of the document; returns the parser state"""
        D = PP + 'document::'
        self.st = self.fn(PP + 'state::ParseState::new')
        ws_act = lambda a, b: self.action(D + 'parse_ws', lambda c: self.inner(c) and self.calls('on_ws')(c), rng(a, b))
        pos = 0
        m = re.compile(r'[ \t]*').match(text, pos)
        ws_act(pos, m.end())
        pos = m.end()
        while pos < len(text):
            ch = text[pos]
            if ch == '#':
                end = text.find('\n', pos)
                end = len(text) if end < 0 else end + 1
                self.action(D + 'parse_comment', lambda c: self.inner(c) and self.calls('on_comment')(c), rng(pos, end))
                pos = end
            elif ch == '\n':
                self.action(D + 'parse_newline', lambda c: self.inner(c) and self.calls('on_ws')(c), rng(pos, pos + 1))
                pos += 1
            elif ch == '[':
                arr = text.startswith('[[', pos)
                start = pos
                keys, p2 = self.key_path(text, pos + (2 if arr else 1))
                close = ']]' if arr else ']'
                if not text.startswith(close, p2):
                    raise ValueError(f'no `{close}` at {p2} in {text!r}')
                p2 += len(close)
                tr, after = self.line_trailing(text, p2)
                fn, ev = (PP + 'table::array_table', 'on_array_header') if arr else (PP + 'table::std_table', 'on_std_header')
                r = self.action(fn, lambda c: self.inner(c) and self.calls(ev)(c), ((keys, rng(start, p2)), tr))
                self.unwrap(r, f'header at {start}')
                pos = after
            else:
                start = pos
                keys, p2 = self.key_path(text, pos)
                if text[p2] != '=':
                    raise ValueError(f'no `=` at {p2} in {text!r}')
                p2 += 1
                m = re.compile(r'[ \t]*').match(text, p2)
                v, p3 = self.value(text, m.end())
                tr, after = self.line_trailing(text, p3)
                kv = self.action(D + 'parse_keyval', lambda c: self.inner(c), (keys, ('=', (rng(p2, m.end()), v, tr))))
                kv = self.unwrap(kv, f'key-value pair at {start}')
                r = self.action(D + 'keyval', lambda c: self.inner(c) and self.calls('on_keyval')(c), kv)
                self.unwrap(r, f'key-value pair at {start}')
                pos = after
            m = re.compile(r'[ \t]*').match(text, pos)
            ws_act(pos, m.end())
            pos = m.end()
        return self.st

    def document(self, text):
        """parse_document: the events, then ParseState::into_document"""
        st = self.feed(text)
        doc = self.unwrap(self.fn(PP + 'state::ParseState::into_document', st, text), 'end of document')
        return doc

    def printed(self, text):
        """parse, make editable (despan), print"""
        doc = self.document(text)
        im = [d for d in self.f.bodies if d.startswith('toml_edit::document::ImDocument') and d.endswith('::into_mut')]
        if len(im) != 1:
            raise Unanalysable('ImDocument::into_mut not found')
        dm = self.fn(im[0], doc)
        disp = self.f.method('core::fmt::Display', 'toml_edit::document::DocumentMut', 'fmt')
        n0 = len(self.it.calls)
        self.it.apply_fn(self.f.body(disp), [dm, ('formatter',)])
        return dm, self.it.text(n0)
