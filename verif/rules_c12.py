"""C12 — the standalone date-time parser, the document parser and the printer agree
(decided part: field ranges, delimiter sets, calendar tables, truncation length, printer
widths, serde bridge)."""
import copy
import re

from .core import run_property, AnalysisIncomplete, walk, peel, last_seg, calls_in, callee_all, src_facts
from .den import Evaluator, FxInterp, Interp, Unanalysable, fmt_set, INF
from .abnf import Abnf
from . import parsemodel as pm
from .parsemodel import P, term
from .rules_c01 import gregorian_leap, month_len, FIELD_RANGES, cc

PROP = 'C12'
FROM_STR = '<toml_datetime::datetime::Datetime as core::str::traits::FromStr>::from_str'


def returns_err(n):
    return any(x.get('k') == 'ret' and any((y.get('path') or '').endswith('Result::Err') for y in walk(x)) for x in walk(n))


def rejecting_ifs(body):
    return [n for n in walk(body) if n.get('k') == 'if' and returns_err(n['then']) and 'else' not in n]


def field_names(e):
    return {n['name'] for n in walk(e) if n.get('k') == 'field'}


def local_names(e):
    return {n['path'].split('#')[0] for n in walk(e) if n.get('k') == 'path' and n.get('res') == 'Local'}


def subst_locals(e, mapping):
    """rename locals by base name -> pseudo local"""
    e = copy.deepcopy(e)
    for n in walk(e):
        if n.get('k') == 'path' and n.get('res') == 'Local' and n['path'].split('#')[0] in mapping:
            n['path'] = mapping[n['path'].split('#')[0]]
    return e


def standalone_tables(facts):
    b = facts.body(FROM_STR)
    ev = Evaluator(facts)
    fx = FxInterp(ev)
    ifs = rejecting_ifs(b['body'])
    out = {'body': b}
    # single-field range checks
    acc = {}
    for fld in ('month', 'hour', 'minute', 'second'):
        rej = set()
        n_if = 0
        for n in ifs:
            if field_names(n['cond']) == {fld} and not local_names(n['cond']) - {'date', 'time'}:
                n_if += 1
                for v in range(0, 100):
                    if fx.run(n['cond'], {'.' + fld: v}):
                        rej.add(v)
        acc[fld] = (set(range(100)) - rej, n_if)
    out['accept'] = acc
    # calendar
    leap_let = None
    len_let = None
    for n in walk(b['body']):
        if n.get('k') == 'let' and n['pat'].get('k') == 'p_bind':
            nm = n['pat']['name'].split('#')[0]
            if nm == 'is_leap_year':
                leap_let = n
            if nm == 'max_days_in_month':
                len_let = n
    if leap_let is None or len_let is None:
        raise AnalysisIncomplete('standalone parser: is_leap_year / max_days_in_month not found')
    out['leap'] = {y for y in range(10000) if fx.run(leap_let['init'], {'.year': y})}
    tab = {}
    for m in range(1, 13):
        for lp in (False, True):
            tab[(m, lp)] = fx.run(len_let['init'], {'.month': m, leap_let['pat']['name']: lp})
    out['len'] = tab
    day_if = [n for n in ifs if 'day' in field_names(n['cond'])]
    wrong = []
    if len(day_if) == 1:
        for mx in (28, 29, 30, 31):
            for d in range(0, 100):
                r = bool(fx.run(day_if[0]['cond'], {'.day': d, len_let['pat']['name']: mx}))
                if r != (d < 1 or d > mx):
                    wrong.append((mx, d, r))
    else:
        wrong.append(('day check count', len(day_if)))
    out['day_wrong'] = wrong
    # offset: tabulate (sign, hours, minutes)
    tot_let = None
    for n in walk(b['body']):
        if n.get('k') == 'let' and n['pat'].get('k') == 'p_bind' and n['pat']['name'].split('#')[0] == 'total_minutes':
            tot_let = n
    off_ifs = [n for n in ifs if local_names(n['cond']) & {'hours', 'minutes', 'total_minutes'} and not field_names(n['cond'])]
    okset = set()
    if tot_let is not None:
        init = subst_locals(tot_let['init'], {'sign': 'sign', 'hours': 'hours', 'minutes': 'minutes'})
        conds = [subst_locals(n['cond'], {'hours': 'hours', 'minutes': 'minutes', 'total_minutes': 'total_minutes'}) for n in off_ifs]
        for sign in (1, -1):
            for h in range(100):
                for m in range(100):
                    env = {'sign': sign, 'hours': h, 'minutes': m}
                    env['total_minutes'] = fx.run(init, env)
                    if not any(fx.run(c, env) for c in conds):
                        okset.add((sign, h, m))
    out['offset_ok'] = okset
    out['offset_ifs'] = len(off_ifs)
    return out


def r1_fields(rep, facts, g):
    R = rep.rule('C12/R1', 'field ranges are identical in the standalone parser, the document grammar and RFC 3339: month 1-12, hour 0-23, '
                 'minute 0-59, second 0-60, offset hh 0-23 / mm 0-59', floor=6)
    try:
        st = standalone_tables(facts)
    except Unanalysable as e:
        rep.incomplete(R, 'standalone|tabulate', f'cannot tabulate the standalone parser: {e}')
        return None
    b = st['body']
    loc = facts.loc(b)
    gram = {}
    if g is not None:
        for fld, fn in (('month', 'datetime::date_month'), ('hour', 'datetime::time_hour'), ('minute', 'datetime::time_minute'), ('second', 'datetime::time_second')):
            try:
                gram[fld] = pm.accept_set_2digit(g, fn)
            except Unanalysable as e:
                rep.incomplete(R, f'{fld}|grammar', str(e))
    spec = {'month': (1, 12), 'hour': (0, 23), 'minute': (0, 59), 'second': (0, 60)}
    for fld, (lo, hi) in spec.items():
        acc, n_if = st['accept'][fld]
        exp = set(range(lo, hi + 1))
        gset = gram.get(fld)
        ok = acc == exp and (gset is None or gset == exp)
        detail = f'standalone accepts {fmt_set(acc)}' + (f', grammar accepts {fmt_set(gset)}' if gset is not None else '') + f', RFC 3339 {lo}..={hi}'
        rep.check(R, f'{fld}|three-way', ok, detail, f'`{fld}`: {detail} — a value one parser accepts and the other refuses becomes an unwritable value or an unreadable document', loc)
    exp_off = {(s, h, m) for s in (1, -1) for h in range(24) for m in range(60)}
    got = st['offset_ok']
    extra = sorted(got - exp_off)[:4]
    miss = sorted(exp_off - got)[:4]
    rep.check(R, 'offset|standalone', got == exp_off, f'accepts exactly +-hh:mm with hh 0-23, mm 0-59 ({len(got)} combinations of 20000)',
              f'the standalone parser accepts offsets (sign, hh, mm) {extra}… and refuses {miss}…; the grammar takes time-hour ":" time-minute (0-23 / 0-59)', loc)
    if g is not None:
        t = term(g, 'datetime::time_offset')
        m = pm.trans_mentions(g, t)
        rep.check(R, 'offset|grammar', P + 'datetime::time_hour' in m and P + 'datetime::time_minute' in m, 'time_hour ":" time_minute', 'the grammar\'s offset no longer uses time_hour / time_minute')
    return st


def r2_calendar(rep, facts, st):
    R = rep.rule('C12/R2', 'leap-year predicate and month-length table of the standalone parser equal the Gregorian calendar (and thereby the grammar\'s, C01/R2)', floor=3)
    loc = facts.loc(st['body'])
    exp = {y for y in range(10000) if gregorian_leap(y)}
    rep.check(R, 'standalone|leap-year', st['leap'] == exp, '0..=9999', f'leap-year predicate differs on years {sorted(st["leap"] ^ exp)[:6]}', loc)
    badm = [(m, lp, v) for (m, lp), v in st['len'].items() if v != month_len(m, lp)]
    rep.check(R, 'standalone|month-length', not badm, '24 cells', f'month-length table wrong for (month, leap, got) {badm}', loc)
    rep.check(R, 'standalone|day-check', not st['day_wrong'], 'rejects exactly day < 1 || day > month length', f'day check wrong: {st["day_wrong"][:5]}', loc)


def char_lits(e):
    return {n['v'] for n in walk(e) if n.get('k') == 'lit' and n.get('lk') == 'char'}


def r3_delims(rep, facts, a):
    R = rep.rule('C12/R3', 'delimiter / zone / sign character sets of the standalone parser equal the grammar\'s: {T, t, space}, {Z, z}, {+, -}', floor=3)
    b = facts.body(FROM_STR)
    loc = facts.loc(b)
    delim = zone = None
    for n in walk(b['body']):
        if n.get('k') == 'let' and n['pat'].get('k') == 'p_bind' and n['pat']['name'].split('#')[0] == 'partial_time':
            c = peel(n['init'])
            if c.get('k') == 'if':
                delim = char_lits(c['cond'])
    signs = set()
    for n in walk(b['body']):
        if n.get('k') == 'if':
            cl = char_lits(n['cond'])
            if cl and cl <= {ord('Z'), ord('z')} and zone is None and any((x.get('path') or '').endswith('Offset::Z') for x in walk(n['then'])):
                zone = cl
        if n.get('k') == 'let' and n['pat'].get('k') == 'p_bind' and n['pat']['name'].split('#')[0] == 'sign':
            m = peel(n['init'])
            if m.get('k') == 'match':
                it = Interp(Evaluator(facts))
                for arm in m['arms']:
                    cl = {x['e']['v'] for x in walk(arm['pat']) if x.get('k') == 'p_expr' and x['e'].get('lk') == 'char'}
                    for c in cl:
                        try:
                            signs.add((c, it.run(arm['body'], {})))
                        except Unanalysable:
                            signs.add((c, None))
    rep.check(R, 'standalone|time-delim', delim == set(cc(a, 'time-delim')), f'{sorted(map(chr, delim or []))}', f'standalone date/time delimiter set is {sorted(map(chr, delim or []))}, the grammar takes {sorted(map(chr, cc(a, "time-delim")))}', loc)
    zexp = set(a.charclass(a.alternatives('time-offset')[0]))
    rep.check(R, 'standalone|zulu', zone == zexp, f'{sorted(map(chr, zone or []))}', f'standalone zone letters {sorted(map(chr, zone or []))}, grammar {sorted(map(chr, zexp))}', loc)
    rep.check(R, 'standalone|sign-table', signs == {(ord('+'), 1), (ord('-'), -1)}, "'+' -> 1, '-' -> -1", f'standalone sign table is {sorted(signs)}', loc)


def r3b_digit(rep, facts):
    R = rep.rule('C12/R3b', 'the standalone parser\'s digit helper accepts exactly the ASCII digits the grammar\'s DIGIT class accepts', floor=1)
    d = 'toml_datetime::datetime::digit'
    b = facts.body(d)
    guards = []
    for n in walk(b['body']):
        if n.get('k') == 'match':
            for arm in n['arms']:
                if 'guard' in arm and any((x.get('path') or '').endswith('Result::Ok') for x in walk(arm['body']) if x.get('k') == 'path'):
                    guards += [x.get('callee') or x.get('name') for x in walk(arm['guard']) if x.get('k') == 'mcall']
                if 'guard' not in arm and any((x.get('path') or '').endswith('Result::Ok') for x in walk(arm['body']) if x.get('k') == 'path'):
                    # digit patterns '0'..='9'
                    pr = [x for x in walk(arm['pat']) if x.get('k') == 'p_range']
                    if pr and all(x.get('lo', {}).get('v') == 48 and x.get('hi', {}).get('v') == 57 and x.get('incl') for x in pr):
                        guards.append('0..=9')
                    else:
                        guards.append('unguarded Ok arm')
    ok = bool(guards) and all(g == '0..=9' or (g or '').endswith('is_ascii_digit') for g in guards)
    rep.check(R, d, ok, f'Ok only under {guards}', f'`digit` returns Ok under {guards}: characters outside 0-9 (e.g. other Unicode digits) are taken as digits, '
              f'which the grammar refuses and whose `as u8 - b\'0\'` arithmetic is out of range', facts.loc(b))


def r4_truncation(rep, facts):
    R = rep.rule('C12/R4', 'fractional seconds are truncated to 9 digits in the standalone parser (digit i < 9 scaled by 10^(8-i), no rounding), like the grammar (C02/R5)', floor=1)
    b = facts.body(FROM_STR)
    ok = False
    detail = 'scaling not found'
    it = Interp(Evaluator(facts))
    for n in walk(b['body']):
        if n.get('k') == 'if':
            c = peel(n['cond'])
            pows = [x for x in walk(n['then']) if x.get('k') == 'mcall' and x.get('name') == 'pow']
            if pows and c.get('k') == 'binary':
                ivar = [x['path'] for x in walk(c) if x.get('k') == 'path' and x.get('res') == 'Local']
                if not ivar:
                    continue
                try:
                    taken = [i for i in range(0, 20) if it.run(c, {ivar[0]: i})]
                    base = it.run(pows[0]['recv'], {})
                    exps = {i: it.run(pows[0]['args'][0], {ivar[0]: i}) for i in taken}
                    ok = taken == list(range(9)) and base == 10 and all(exps[i] == 8 - i for i in taken)
                    detail = f'digits {taken} scaled by {base}^{[exps[i] for i in taken]}'
                except Unanalysable as e:
                    detail = str(e)
    rounding = [c for n in calls_in(b['body']) for c in callee_all(n) if last_seg(c) in ('round', 'ceil')]
    rep.check(R, 'standalone|truncate-9', ok and not rounding, detail, f'fraction handling changed: {detail}', facts.loc(b))


def r5_printer(rep, facts):
    R = rep.rule('C12/R5', 'the printer writes the field widths both parsers read: {:04}-{:02}-{:02}, {:02}:{:02}:{:02}, fraction from a 9-digit '
                 'rendering with trailing zeros trimmed, Z or sign hh:mm; date, then T and time, then offset', floor=6)
    src = src_facts(facts.repo)
    fm = [f for f in src['fmts'] if f['file'].endswith('toml_datetime/src/datetime.rs')]

    def lits(scope_sub):
        return [f['lit'].strip('"') for f in fm if scope_sub in f['scope']]
    d = lits('Display for Date>')
    rep.check(R, 'Display for Date', d == ['{:04}-{:02}-{:02}'], str(d), f'Date prints with {d}, the parsers read 4DIGIT-2DIGIT-2DIGIT')
    t = lits('Display for Time>')
    rep.check(R, 'Display for Time', t[:1] == ['{:02}:{:02}:{:02}'] and '{:09}' in t and '.{}' in t, str(t), f'Time prints with {t}')
    b = facts.body(facts.method('core::fmt::Display', 'toml_datetime::datetime::Time', 'fmt'))
    trim = [n for n in walk(b['body']) if n.get('k') == 'mcall' and n.get('name') == 'trim_end_matches']
    okt = len(trim) == 1 and peel(trim[0]['args'][0]).get('v') == ord('0')
    nz = any(n.get('k') == 'if' and peel(n['cond']).get('k') == 'binary' and peel(n['cond']).get('op') == '!=' and peel(peel(n['cond'])['a']).get('name') == 'nanosecond' for n in walk(b['body']))
    rep.check(R, 'Display for Time|fraction', okt and nz, "if nanosecond != 0 { format!(\"{:09}\").trim_end_matches('0') }", 'the fraction is not printed as a trimmed 9-digit rendering when non-zero', facts.loc(b))
    o = lits('Display for Offset>')
    rep.check(R, 'Display for Offset', sorted(o) == sorted(['Z', '{sign}{hours:02}:{minutes:02}']), str(o), f'Offset prints with {o}')
    b = facts.body(facts.method('core::fmt::Display', 'toml_datetime::datetime::Offset', 'fmt'))
    it = Interp(Evaluator(facts))
    divs = [(n.get('op'), it.run(n['b'], {}) if peel(n['b']).get('k') == 'lit' else None) for n in walk(b['body']) if n.get('k') == 'binary' and n.get('op') in ('/', '%')]
    rep.check(R, 'Display for Offset|split', sorted(divs) == [('%', 60), ('/', 60)], 'hours = minutes / 60, minutes = minutes % 60', f'offset split is {divs}', facts.loc(b))
    dt = lits('Display for Datetime>')
    b = facts.body(facts.method('core::fmt::Display', 'toml_datetime::datetime::Datetime', 'fmt'))
    order = []
    for n in walk(b['body']):
        if n.get('k') == 'if' and peel(n['cond']).get('k') == 'letexpr':
            f = [x['name'] for x in walk(peel(n['cond'])['init']) if x.get('k') == 'field']
            if f:
                order.append(f[0])
    rep.check(R, 'Display for Datetime|order', order == ['date', 'time', 'offset'] and 'T' in dt, f'{order}, delimiter T', f'Datetime prints fields in the order {order} with literals {dt}', facts.loc(b))


def r6_bridge(rep, facts):
    R = rep.rule('C12/R6', 'the serde bridge converts only with Display (to_string) and str::parse::<Datetime>; no third conversion exists', floor=3)
    pairs = (("<toml_edit::de::datetime::DatetimeDeserializer as serde::de::MapAccess<'de>>::next_value_seed", 'to_string', None),
             ('<toml_edit::ser::map::DatetimeFieldSerializer as serde::ser::Serializer>::serialize_str', 'parse', 'Datetime'),
             ("<toml_datetime::datetime::Datetime as serde::ser::Serialize>::serialize", 'to_string', None))
    for d, meth, garg in pairs:
        if not facts.has_body(d):
            rep.incomplete(R, d, 'not found')
            continue
        b = facts.body(d)
        found = [n for n in walk(b['body']) if n.get('k') == 'mcall' and n.get('name') == meth]
        ok = bool(found) and (garg is None or any(garg in (n.get('t') or '') + ''.join(n.get('gargs') or []) for n in found))
        rep.check(R, d, ok, f'.{meth}()', f'`{d}` no longer converts with {meth}', facts.loc(b))
    vis = [d for d in facts.bodies if d.startswith('<<toml_datetime::datetime::DatetimeFromString') and d.endswith('visit_str')]
    for d in vis:
        b = facts.body(d)
        ok = any(n.get('k') == 'mcall' and n.get('name') == 'parse' for n in walk(b['body']))
        rep.check(R, 'DatetimeFromString::visit_str', ok, 's.parse()', 'DatetimeFromString no longer parses with str::parse', facts.loc(b))


LEGAL_SHAPES = {('S', 'S', 'S'): 'offset date-time', ('S', 'S', 'N'): 'local date-time', ('S', 'N', 'N'): 'local date', ('N', 'S', 'N'): 'local time'}


def datetime_sites(facts):
    """[(def path, 'fn'|'closure', line, set of (date, time, offset) option shapes, #paths)] for every place that builds a Datetime struct literal"""
    from .forkinterp import ForkInterp, option_shape
    out = []
    for d, b in sorted(facts.bodies.items()):
        if '::test' in d:
            continue
        hits = [n for n in walk(b['body']) if n.get('k') == 'struct' and (n.get('path') or '').endswith('datetime::Datetime')]
        if not hits:
            continue
        clos = [n for n in walk(b['body']) if n.get('k') == 'closure']
        units = []
        for h in hits:
            owner = None
            for c in clos:
                if any(x is h for x in walk(c['body'])):
                    owner = c
            if not any(u is owner for u in units):
                units.append(owner)
        for u in units:
            fi = ForkInterp()
            res = fi.run(u['body'] if u else b['body'], (u or b).get('params', []))
            shapes = set()
            for r in res:
                sh = option_shape(r, ['date', 'time', 'offset'])
                if sh is None:
                    continue
                # '?' = could be either
                cands = [()]
                for x in sh:
                    cands = [c + (y,) for c in cands for y in (('S', 'N') if x == '?' else (x,))]
                shapes |= set(cands)
            out.append((d, 'closure' if u else 'fn', (u or b).get('l') or b.get('line'), shapes, fi.paths))
    return out


def r7_shapes(rep, facts, rid='C12/R7'):
    R = rep.rule(rid, 'one set of date-time shapes everywhere: every place that builds a Datetime (the grammar parser, the standalone parser, the '
                 'conversions) can only produce offset date-time, local date-time, local date or local time — decided by enumerating the paths of '
                 'each constructor over the Some/None-ness of (date, time, offset) — and that is the set type_name / the serde bridge handles', floor=5)
    sites = datetime_sites(facts)
    allsh = set()
    for d, kind, line, shapes, paths in sites:
        b = facts.body(d)
        bad = sorted(shapes - set(LEGAL_SHAPES))
        allsh |= shapes
        names = {'S': 'Some', 'N': 'None'}
        rep.check(R, f'{d}|shapes', not bad and bool(shapes), f'{paths} path(s): ' + ', '.join(LEGAL_SHAPES[s] for s in sorted(shapes) if s in LEGAL_SHAPES),
                  f'`{d}` can build a Datetime with ' + '; '.join(f'date={names[s[0]]}, time={names[s[1]]}, offset={names[s[2]]}' for s in bad) +
                  ': not one of the four TOML kinds (e.g. a date directly followed by an offset is accepted; printing it gives text the other parser refuses, '
                  'and Datetime::type_name reaches unreachable!)', f'{facts.rel(b.get("file"))}:{line}')
    for tag, pred in (('toml_edit::parser', lambda d: d.startswith('toml_edit::parser::') or 'From<toml_datetime::datetime::Time>' in d or 'From<toml_datetime::datetime::Date>' in d),
                      ('FromStr', lambda d: 'core::str::traits::FromStr' in d)):
        got = set()
        for d, kind, line, shapes, paths in sites:
            if pred(d):
                got |= shapes
        if tag == 'toml_edit::parser' and not any(d.startswith('toml_edit::parser::') for d, *_ in sites):
            continue
        rep.check(R, f'{tag}|covers-all-kinds', set(LEGAL_SHAPES) <= got, 'all four kinds can be produced',
                  f'{tag} can no longer produce {[LEGAL_SHAPES[s] for s in sorted(set(LEGAL_SHAPES) - got)]}')
    tn = 'toml_datetime::datetime::Datetime::type_name'
    if facts.has_body(tn):
        b = facts.body(tn)
        arms = set()
        for m in walk(b['body']):
            if m.get('k') == 'match':
                for arm in m['arms']:
                    p = arm['pat']
                    if p.get('k') == 'p_tuple' and len(p['pats']) == 3 and all(x.get('k') == 'p_expr' and x['e'].get('lk') == 'bool' for x in p['pats']):
                        arms.add(tuple('S' if x['e']['v'] else 'N' for x in p['pats']))
        rep.check(R, 'Datetime::type_name|arms', arms == set(LEGAL_SHAPES), f'handles {sorted(arms)}', f'type_name handles {sorted(arms)}; the constructors produce {sorted(LEGAL_SHAPES)}', facts.loc(b))


def rules(rep, facts):
    if 'toml_datetime' not in facts.crates:
        return
    a = Abnf()
    feats = set(facts.crates.get('toml_edit', {}).get('features', []))
    g = pm.model(facts) if ('toml_edit' in facts.crates and 'parse' in feats) else None
    st = r1_fields(rep, facts, g)
    if st is not None:
        r2_calendar(rep, facts, st)
    r3_delims(rep, facts, a)
    r3b_digit(rep, facts)
    r4_truncation(rep, facts)
    r5_printer(rep, facts)
    r7_shapes(rep, facts)
    dfeats = set(facts.crates['toml_datetime'].get('features', []))
    if 'serde' in dfeats and 'toml_edit' in facts.crates and 'serde' in feats:
        r6_bridge(rep, facts)


def run(tier):
    return run_property(PROP, tier, rules, configs_thorough=['default', 'perf', 'datetime_nodefault', 'datetime_serde', 'edit_parse'])
