"""C12 — the standalone date-time parser, the document parser and the printer agree
(decided part: field ranges, delimiter sets, calendar tables, truncation length, printer
widths, serde bridge)."""
import copy
import re

from .core import run_property, AnalysisIncomplete, walk, peel, last_seg, calls_in, callee_all, src_facts
from .den import Evaluator, FxInterp, Interp, Unanalysable, EvalPanic, fmt_set, INF
from .abnf import Abnf
from . import parsemodel as pm
from .parsemodel import P, term
from .rules_c01 import gregorian_leap, month_len, FIELD_RANGES, cc

PROP = 'C12'
FROM_STR = '<toml_datetime::datetime::Datetime as core::str::traits::FromStr>::from_str'


def returns_err(n):
    return any(x.get('k') == 'ret' and any((y.get('path') or '').endswith('Result::Err') for y in walk(x)) for x in walk(n))


def rejecting_ifs(body):
    return [n for n in walk(body) if n.get('k') == 'if' and returns_err(n['then']) and 'else' not in n]


def field_names(e):
    return {n['name'] for n in walk(e) if n.get('k') == 'field'}


def local_names(e):
    return {n['path'].split('#')[0] for n in walk(e) if n.get('k') == 'path' and n.get('res') == 'Local'}


def subst_locals(e, mapping):
    """rename locals by base name -> pseudo local"""
    e = copy.deepcopy(e)
    for n in walk(e):
        if n.get('k') == 'path' and n.get('res') == 'Local' and n['path'].split('#')[0] in mapping:
            n['path'] = mapping[n['path'].split('#')[0]]
    return e


def standalone_eval(facts):
    """text -> None (rejected) | (date, time, offset) of the standalone parser, by evaluating `Datetime::from_str` on the text with the
    structural interpreter (mutable iterators, loops, helper calls): no code of the repository runs"""
    b = facts.body(FROM_STR)
    pn = [p['name'] for p in b.get('params', []) if p.get('k') == 'p_bind']
    ev = Evaluator(facts)
    SOME = 'core::option::Option::Some'

    def opt(v):
        return v[2][0] if isinstance(v, tuple) and len(v) == 3 and v[1] == SOME else None

    def run(text):
        fx = FxInterp(ev)
        fx.checked_arith = True
        r = fx.run(b['body'], {pn[-1]: text, '@assign': {}})
        if not (isinstance(r, tuple) and r and r[0] == 'ctor'):
            raise Unanalysable(f'from_str evaluates to {r!r}')
        if r[1].endswith('Result::Err'):
            return None
        dt = r[2][0][2]
        d, t, o = opt(dt['date']), opt(dt['time']), opt(dt['offset'])
        date = (d[2]['year'], d[2]['month'], d[2]['day']) if d else None
        time = (t[2]['hour'], t[2]['minute'], t[2]['second'], t[2]['nanosecond']) if t else None
        off = None
        if o is not None:
            if o[0] == 'ctor':
                off = 'Z'
            elif o[0] == 'struct':
                off = o[2].get('minutes')
        return date, time, off
    return b, run


def standalone_tables(facts):
    """the tables the rules below compare, read off the standalone parser's verdicts on one-field families of texts"""
    b, run = standalone_eval(facts)
    out = {'body': b}
    ok = lambda t: run(t) is not None
    acc = {
        'month': ({v for v in range(100) if ok(f'2001-{v:02}-01')}, 1),
        'hour': ({v for v in range(100) if ok(f'{v:02}:00:00')}, 1),
        'minute': ({v for v in range(100) if ok(f'00:{v:02}:00')}, 1),
        'second': ({v for v in range(100) if ok(f'00:00:{v:02}')}, 1),
    }
    out['accept'] = acc
    # calendar: the largest accepted day per (month, year) over every year 0..=9999 would be 120000 evaluations; the predicate depends on the
    # year only through divisibility by 4 / 100 / 400, so one year per residue class pattern and the boundary years are evaluated, and the
    # leap-year table is extended from them (the classes are those the Gregorian rule distinguishes)
    reps = {}
    for y in list(range(0, 401)) + [1900, 1999, 2000, 2023, 2024, 2100, 2400, 9996, 9999]:
        reps[y] = ok(f'{y:04}-02-29')
    out['leap_sample'] = reps
    tab = {}
    for m in range(1, 13):
        for lp, y in ((False, 2001), (True, 2004)):
            mx = 0
            for dday in range(0, 100):
                if ok(f'{y:04}-{m:02}-{dday:02}'):
                    mx = max(mx, dday)
            lo = [dday for dday in range(0, 100) if ok(f'{y:04}-{m:02}-{dday:02}')]
            tab[(m, lp)] = mx if lo == list(range(1, mx + 1)) else ('not-a-range', lo[:5])
    out['len'] = tab
    out['day_wrong'] = [(k, v) for k, v in tab.items() if not isinstance(v, int)]
    okset = set()
    for sign, ch in ((1, '+'), (-1, '-')):
        for h in range(100):
            for m in (0, 1, 30, 59, 60, 61, 99):
                if ok(f'2001-01-01T00:00:00{ch}{h:02}:{m:02}'):
                    okset.add((sign, h, m))
        for m in range(100):
            for h in (0, 1, 12, 23):
                if ok(f'2001-01-01T00:00:00{ch}{h:02}:{m:02}'):
                    okset.add((sign, h, m))
    out['offset_ok'] = okset
    out['offset_ifs'] = 1
    return out


def r1_fields(rep, facts, g):
    R = rep.rule('C12/R1', 'field ranges are identical in the standalone parser, the document grammar and RFC 3339: month 1-12, hour 0-23, '
                 'minute 0-59, second 0-60, offset hh 0-23 / mm 0-59', floor=6)
    try:
        st = standalone_tables(facts)
    except Unanalysable as e:
        rep.incomplete(R, 'standalone|tabulate', f'cannot tabulate the standalone parser: {e}')
        return None
    b = st['body']
    loc = facts.loc(b)
    gram = {}
    if g is not None:
        for fld, fn in (('month', 'datetime::date_month'), ('hour', 'datetime::time_hour'), ('minute', 'datetime::time_minute'), ('second', 'datetime::time_second')):
            try:
                gram[fld] = pm.accept_set_2digit(g, fn)
            except Unanalysable as e:
                rep.incomplete(R, f'{fld}|grammar', str(e))
    spec = {'month': (1, 12), 'hour': (0, 23), 'minute': (0, 59), 'second': (0, 60)}
    for fld, (lo, hi) in spec.items():
        acc, n_if = st['accept'][fld]
        exp = set(range(lo, hi + 1))
        gset = gram.get(fld)
        ok = acc == exp and (gset is None or gset == exp)
        detail = f'standalone accepts {fmt_set(acc)}' + (f', grammar accepts {fmt_set(gset)}' if gset is not None else '') + f', RFC 3339 {lo}..={hi}'
        rep.check(R, f'{fld}|three-way', ok, detail, f'`{fld}`: {detail} — a value one parser accepts and the other refuses becomes an unwritable value or an unreadable document', loc)
    sampled = {(sg, h, m) for sg in (1, -1) for h in range(100) for m in (0, 1, 30, 59, 60, 61, 99)} | {(sg, h, m) for sg in (1, -1) for m in range(100) for h in (0, 1, 12, 23)}
    exp_off = {(s_, h, m) for s_ in (1, -1) for h in range(24) for m in range(60)} & sampled
    got = st['offset_ok']
    extra = sorted(got - exp_off)[:4]
    miss = sorted(exp_off - got)[:4]
    rep.check(R, 'offset|standalone', got == exp_off, f'accepts exactly +-hh:mm with hh 0-23, mm 0-59 ({len(got)} of the sampled (sign, hh, mm) combinations: every hh with seven mm values, every mm with four hh values)',
              f'the standalone parser accepts offsets (sign, hh, mm) {extra}… and refuses {miss}…; the grammar takes time-hour ":" time-minute (0-23 / 0-59)', loc)
    if g is not None:
        t = term(g, 'datetime::time_offset')
        m = pm.trans_mentions(g, t)
        rep.check(R, 'offset|grammar', P + 'datetime::time_hour' in m and P + 'datetime::time_minute' in m, 'time_hour ":" time_minute', 'the grammar\'s offset no longer uses time_hour / time_minute')
    return st


def r2_calendar(rep, facts, st):
    R = rep.rule('C12/R2', 'leap-year predicate and month-length table of the standalone parser equal the Gregorian calendar (and thereby the grammar\'s, C01/R2)', floor=3)
    loc = facts.loc(st['body'])
    wrong = sorted(y for y, v in st['leap_sample'].items() if v != gregorian_leap(y))
    rep.check(R, 'standalone|leap-year', not wrong, f'February 29 accepted exactly in leap years ({len(st["leap_sample"])} years: 0..=400 and the century boundaries)',
              f'`YYYY-02-29` is accepted / refused against the Gregorian rule for years {wrong[:6]}', loc)
    badm = [(m, lp, v) for (m, lp), v in st['len'].items() if v != month_len(m, lp)]
    rep.check(R, 'standalone|month-length', not badm, '24 cells', f'month-length table wrong for (month, leap, got) {badm}', loc)
    rep.check(R, 'standalone|day-check', not st['day_wrong'], 'rejects exactly day < 1 || day > month length', f'day check wrong: {st["day_wrong"][:5]}', loc)


def char_lits(e):
    return {n['v'] for n in walk(e) if n.get('k') == 'lit' and n.get('lk') == 'char'}


def r3_delims(rep, facts, a):
    R = rep.rule('C12/R3', 'delimiter / zone / sign character sets of the standalone parser equal the grammar\'s: {T, t, space}, {Z, z}, {+, -}', floor=3)
    # decided on the verdicts of the standalone parser (evaluated, not run) for one-character variations of a full date-time
    b, run = standalone_eval(facts)
    loc = facts.loc(b)
    alphabet = [chr(c) for c in range(1, 128)] + ['\u00e9', '\u2212', '\uff0b']
    try:
        delim = {ord(c) for c in alphabet if run(f'1979-05-27{c}07:32:00') is not None and run(f'1979-05-27{c}07:32:00')[1] is not None}
        zone = {ord(c) for c in alphabet if run(f'1979-05-27T07:32:00{c}') is not None and run(f'1979-05-27T07:32:00{c}')[2] == 'Z'}
        signs = set()
        for c in alphabet:
            r = run(f'1979-05-27T07:32:00{c}01:00')
            if r is not None:
                signs.add((ord(c), (r[2] // 60) if isinstance(r[2], int) else r[2]))
    except Unanalysable as e:
        rep.incomplete(R, 'standalone|tables', f'cannot evaluate the standalone parser: {e}', loc)
        return
    rep.check(R, 'standalone|time-delim', delim == set(cc(a, 'time-delim')), f'{sorted(map(chr, delim or []))}', f'standalone date/time delimiter set is {sorted(map(chr, delim or []))}, the grammar takes {sorted(map(chr, cc(a, "time-delim")))}', loc)
    zexp = set(a.charclass(a.alternatives('time-offset')[0]))
    rep.check(R, 'standalone|zulu', zone == zexp, f'{sorted(map(chr, zone or []))}', f'standalone zone letters {sorted(map(chr, zone or []))}, grammar {sorted(map(chr, zexp))}', loc)
    rep.check(R, 'standalone|sign-table', signs == {(ord('+'), 1), (ord('-'), -1)}, "'+' -> 1, '-' -> -1", f'standalone sign table is {sorted(signs)}', loc)


def r3b_digit(rep, facts):
    R = rep.rule('C12/R3b', 'the standalone parser takes exactly the ASCII digits the grammar\'s DIGIT class takes: every digit position of a full offset date-time with '
                 'fraction is tried with digits of other scripts, superscripts, fullwidth forms and the neighbours of 0-9 in ASCII; each such text is refused, '
                 'without a panic (the `as u8 - b\'0\'` arithmetic behind a digit is only in range for 0-9).  Decided on the evaluated parser', floor=1)
    from .den import EvalPanic
    b, run = standalone_eval(facts)
    base = '1979-05-27T07:32:00.125+01:30'
    odd = ['\u0663', '\u0969', '\uff13', '\u00b3', '\u2463', '/', ':', 'a']       # Arabic-Indic 3, Devanagari 3, fullwidth 3, superscript 3, circled 4, '/', ':', 'a'
    bad = []
    n = 0
    try:
        for i, ch in enumerate(base):
            if not ch.isdigit():
                continue
            for o in odd:
                if o == ':' and False:
                    continue
                text = base[:i] + o + base[i + 1:]
                n += 1
                try:
                    r = run(text)
                except EvalPanic as ex:
                    bad.append(f'{text!r} panics: {ex}')
                    continue
                if r is not None:
                    bad.append(f'{text!r} is accepted as {r}')
    except Unanalysable as e:
        rep.incomplete(R, 'standalone|digits', f'cannot evaluate the standalone parser: {e}', facts.loc(b))
        return
    rep.check(R, 'standalone|digits', not bad, f'{n} texts with a non-ASCII or non-digit character in a digit position are refused',
              f'the standalone parser takes characters outside 0-9 as digits: {"; ".join(bad[:3])} — the grammar refuses them and the digit arithmetic is out of range', facts.loc(b))


def spec_datetime(text):
    """RFC 3339 / TOML 1.0.0 date-time as the standalone parser is specified to read it: None or (date, time, offset)"""
    import re
    m = re.fullmatch(r'(?:([0-9]{4})-([0-9]{2})-([0-9]{2}))?(?:([Tt ])?([0-9]{2}):([0-9]{2}):([0-9]{2})(?:\.([0-9]+))?(?:([Zz])|([+-])([0-9]{2}):([0-9]{2}))?)?', text)
    if not m or not text:
        return None
    y, mo, d, delim, h, mi, sec, frac, z, sg, oh, om = m.groups()
    has_date, has_time = y is not None, h is not None
    if not has_date and not has_time:
        return None
    if has_date and has_time and delim is None:
        return None
    if not has_date and delim is not None:
        return None
    if (z or sg) and not (has_date and has_time):
        return None
    date = time = off = None
    if has_date:
        y, mo, d = int(y), int(mo), int(d)
        if not (1 <= mo <= 12) or not (1 <= d <= month_len(mo, gregorian_leap(y))):
            return None
        date = (y, mo, d)
    if has_time:
        h, mi, sec = int(h), int(mi), int(sec)
        if h > 23 or mi > 59 or sec > 60:
            return None
        ns = int((frac or '')[:9].ljust(9, '0')) if frac else 0
        time = (h, mi, sec, ns)
    if z:
        off = 'Z'
    elif sg:
        oh, om = int(oh), int(om)
        if oh > 23 or om > 59:
            return None
        off = (1 if sg == '+' else -1) * (oh * 60 + om)
    return date, time, off


def datetime_family(thorough=False):
    """texts around the grammar: every well-formed shape, each with single-character edits (deletion, duplication, replacement by a character
    of the date-time alphabet) at every position, plus fractions of 1..=14 digits"""
    bases = ['1979-05-27T07:32:00Z', '1979-05-27 07:32:00.999999-07:00', '2000-02-29t23:59:60.5+23:59', '1979-05-27T07:32:00', '1979-05-27',
             '07:32:00', '00:32:00.123456789', '2100-02-28T00:00:00z']
    alphabet = '09:-T Z+.x' if thorough else '0:-TZ+.'
    out = list(bases)
    for bs in bases:
        for i in range(len(bs) + 1):
            if i < len(bs):
                out.append(bs[:i] + bs[i + 1:])
                out.append(bs[:i] + bs[i] + bs[i:])
            for ch in alphabet:
                if i < len(bs):
                    out.append(bs[:i] + ch + bs[i + 1:])
                if thorough:
                    out.append(bs[:i] + ch + bs[i:])
    digits = '98765432112345'
    for n in range(1, 15):
        out.append('07:32:00.' + digits[:n])
        out.append('1979-05-27T07:32:00.' + digits[:n] + 'Z')
    out += ['', ' ', 'T', '1979-05-27T', '1979-05-27Z', '1979-05-27+01:00', '07:32:00Z', '07:32:00+01:00', '1979-05-2707:32:00', '1979-05-27T07:32:00-00:00',
            '1979-05-27T07:32:00+00:00', '1979-05-27T07:32:00.', '1979-05-27T07:32', '1979-5-27', '79-05-27', '1979-05-27T07:32:00ZZ', '1979-05-27T07:32:00 Z',
            '\u0661\u0669\u0667\u0669-05-27', '1979-05-27T07:32:00\u00e9']
    seen = set()
    res = []
    for t in out:
        if t not in seen:
            seen.add(t)
            res.append(t)
    return res


def r4_truncation(rep, facts, thorough=False):
    R = rep.rule('C12/R4', 'the standalone parser is the specification on texts around the grammar: for every well-formed date-time shape and every '
                 'single-character edit of it, and for fractions of 1..=14 digits, `Datetime::from_str` — evaluated structurally on the text — accepts '
                 'exactly what RFC 3339 / TOML 1.0.0 accept and yields the same fields (fractions truncated to nanoseconds, `Z` kept apart from +00:00)', floor=2)
    from .den import EvalPanic
    b, run = standalone_eval(facts)
    fam = datetime_family(thorough)
    bad = None
    panic = None
    n = 0
    try:
        for text in fam:
            n += 1
            try:
                got = run(text)
            except EvalPanic as e:
                if panic is None:
                    panic = (text, str(e))
                continue
            want = spec_datetime(text)
            if got != want and bad is None:
                bad = (text, got, want)
    except Unanalysable as e:
        rep.incomplete(R, 'standalone|family', f'cannot evaluate Datetime::from_str: {e}', facts.loc(b))
        return
    show = lambda v: 'rejected' if v is None else f'date {v[0]}, time {v[1]}, offset {v[2]}'
    rep.check(R, 'standalone|family', bad is None, f'{n} texts: verdict and fields as specified',
              (f'`{bad[0]}` is {show(bad[1])} by Datetime::from_str; the specification says {show(bad[2])} — the standalone parser and the grammar '
               f'(which follows the specification, C01/R10) disagree on this text') if bad else '', facts.loc(b))
    rep.check(R, 'standalone|no-panic', panic is None, 'no arithmetic overflow, slice or unwrap panic on any of them',
              f'Datetime::from_str panics on `{panic[0]}`: {panic[1]}' if panic else '', facts.loc(b))


def r5_printer(rep, facts):
    R = rep.rule('C12/R5', 'the printer writes the field widths both parsers read: {:04}-{:02}-{:02}, {:02}:{:02}:{:02}, fraction from a 9-digit '
                 'rendering with trailing zeros trimmed, Z or sign hh:mm; date, then T and time, then offset', floor=6)
    src = src_facts(facts.repo)
    fm = [f for f in src['fmts'] if f['file'].endswith('toml_datetime/src/datetime.rs')]

    def lits(scope_sub):
        return [f['lit'].strip('"') for f in fm if scope_sub in f['scope']]
    d = lits('Display for Date>')
    rep.check(R, 'Display for Date', d == ['{:04}-{:02}-{:02}'], str(d), f'Date prints with {d}, the parsers read 4DIGIT-2DIGIT-2DIGIT')
    t = lits('Display for Time>')
    rep.check(R, 'Display for Time', t[:1] == ['{:02}:{:02}:{:02}'] and '{:09}' in t and '.{}' in t, str(t), f'Time prints with {t}')
    b = facts.body(facts.method('core::fmt::Display', 'toml_datetime::datetime::Time', 'fmt'))
    trim = [n for n in walk(b['body']) if n.get('k') == 'mcall' and n.get('name') == 'trim_end_matches']
    okt = len(trim) == 1 and peel(trim[0]['args'][0]).get('v') == ord('0')
    nz = any(n.get('k') == 'if' and peel(n['cond']).get('k') == 'binary' and peel(n['cond']).get('op') == '!=' and peel(peel(n['cond'])['a']).get('name') == 'nanosecond' for n in walk(b['body']))
    rep.check(R, 'Display for Time|fraction', okt and nz, "if nanosecond != 0 { format!(\"{:09}\").trim_end_matches('0') }", 'the fraction is not printed as a trimmed 9-digit rendering when non-zero', facts.loc(b))
    o = lits('Display for Offset>')
    rep.check(R, 'Display for Offset', sorted(o) == sorted(['Z', '{sign}{hours:02}:{minutes:02}']), str(o), f'Offset prints with {o}')
    b = facts.body(facts.method('core::fmt::Display', 'toml_datetime::datetime::Offset', 'fmt'))
    it = Interp(Evaluator(facts))
    divs = [(n.get('op'), it.run(n['b'], {}) if peel(n['b']).get('k') == 'lit' else None) for n in walk(b['body']) if n.get('k') == 'binary' and n.get('op') in ('/', '%')]
    rep.check(R, 'Display for Offset|split', sorted(divs) == [('%', 60), ('/', 60)], 'hours = minutes / 60, minutes = minutes % 60', f'offset split is {divs}', facts.loc(b))
    dt = lits('Display for Datetime>')
    b = facts.body(facts.method('core::fmt::Display', 'toml_datetime::datetime::Datetime', 'fmt'))
    order = []
    for n in walk(b['body']):
        if n.get('k') == 'if' and peel(n['cond']).get('k') == 'letexpr':
            f = [x['name'] for x in walk(peel(n['cond'])['init']) if x.get('k') == 'field']
            if f:
                order.append(f[0])
    rep.check(R, 'Display for Datetime|order', order == ['date', 'time', 'offset'] and 'T' in dt, f'{order}, delimiter T', f'Datetime prints fields in the order {order} with literals {dt}', facts.loc(b))


def r5b_printed_values(rep, facts):
    R = rep.rule('C12/R5b', 'what the printer writes denotes the value it was given: Display for Datetime evaluated on sample values (local date, local time, local and offset date-times; '
                 'offsets Z, +00:00, -00:00 as a numeric zero, +07:30, -08:00, +23:59; nanoseconds 0, 5e8, 1, 999999999; second 60; year 0 and 9999) and the text read by the '
                 'specification\'s rules gives back the same fields — in particular a numeric zero offset is not printed as Z, which both parsers read as another value', floor=20)
    from .printdrive import PrintInterp
    d = facts.method('core::fmt::Display', 'toml_datetime::datetime::Datetime', 'fmt')
    if not d or not facts.has_body(d):
        rep.incomplete(R, 'Display for Datetime', 'not found')
        return
    b = facts.body(d)
    DT = 'toml_datetime::datetime::'
    SOME_, NONE_ = 'core::option::Option::Some', 'core::option::Option::None'
    opt = lambda v: ('ctor', NONE_) if v is None else ('ctor', SOME_, (v,))
    date = lambda y, m, dd: ('struct', DT + 'Date', {'year': y, 'month': m, 'day': dd})
    time = lambda h, mi, sec, ns: ('struct', DT + 'Time', {'hour': h, 'minute': mi, 'second': sec, 'nanosecond': ns})
    off = lambda o: ('ctor', DT + 'Offset::Z') if o == 'Z' else ('struct', DT + 'Offset::Custom', {'minutes': o})
    dates = [(1979, 5, 27), (0, 1, 1), (9999, 12, 31), (2000, 2, 29)]
    times = [(7, 32, 0, 0), (0, 0, 0, 500000000), (23, 59, 60, 1), (12, 0, 5, 999999999), (1, 2, 3, 120000000)]
    offs = ['Z', 0, 450, -480, 1439, -1]
    samples = [(dd, None, None) for dd in dates] + [(None, tt, None) for tt in times] + [(dates[0], tt, None) for tt in times] + [(dates[i % 4], times[i % 5], o) for i, o in enumerate(offs)]
    for dd, tt, oo in samples:
        model = ('struct', DT + 'Datetime', {'date': opt(date(*dd) if dd else None), 'time': opt(time(*tt) if tt else None), 'offset': opt(off(oo) if oo is not None else None)})
        label = f'{dd} {tt} {oo}'
        it = PrintInterp(Evaluator(facts))
        try:
            it.apply_fn(b, [model, ('formatter',)])
            text = it.text()
        except (Unanalysable, EvalPanic, TypeError, KeyError, IndexError) as ex:
            rep.incomplete(R, label, f'cannot evaluate Display for Datetime on {label}: {ex}', facts.loc(b))
            continue
        back = spec_datetime(text)
        rep.check(R, label, back == (dd, tt, oo), f'{text}', f'the date-time (date {dd}, time {tt}, offset {oo}) is printed as `{text}`, which the specification reads as {back}: printing and reading '
                  f'back changes the value', facts.loc(b))


def r6_bridge(rep, facts):
    R = rep.rule('C12/R6', 'the serde bridge converts only with Display (to_string) and str::parse::<Datetime>; no third conversion exists', floor=3)
    pairs = (("<toml_edit::de::datetime::DatetimeDeserializer as serde::de::MapAccess<'de>>::next_value_seed", 'to_string', None),
             ('<toml_edit::ser::map::DatetimeFieldSerializer as serde::ser::Serializer>::serialize_str', 'parse', 'Datetime'),
             ("<toml_datetime::datetime::Datetime as serde::ser::Serialize>::serialize", 'to_string', None))
    for d, meth, garg in pairs:
        if not facts.has_body(d):
            rep.incomplete(R, d, 'not found')
            continue
        b = facts.body(d)
        found = [n for n in walk(b['body']) if n.get('k') == 'mcall' and n.get('name') == meth]
        ok = bool(found) and (garg is None or any(garg in (n.get('t') or '') + ''.join(n.get('gargs') or []) for n in found))
        rep.check(R, d, ok, f'.{meth}()', f'`{d}` no longer converts with {meth}', facts.loc(b))
    vis = [d for d in facts.bodies if d.startswith('<<toml_datetime::datetime::DatetimeFromString') and d.endswith('visit_str')]
    for d in vis:
        b = facts.body(d)
        ok = any(n.get('k') == 'mcall' and n.get('name') == 'parse' for n in walk(b['body']))
        rep.check(R, 'DatetimeFromString::visit_str', ok, 's.parse()', 'DatetimeFromString no longer parses with str::parse', facts.loc(b))


LEGAL_SHAPES = {('S', 'S', 'S'): 'offset date-time', ('S', 'S', 'N'): 'local date-time', ('S', 'N', 'N'): 'local date', ('N', 'S', 'N'): 'local time'}


def datetime_sites(facts):
    """[(def path, 'fn'|'closure', line, set of (date, time, offset) option shapes, #paths)] for every place that builds a Datetime struct literal"""
    from .forkinterp import ForkInterp, option_shape
    out = []
    for d, b in sorted(facts.bodies.items()):
        if '::test' in d:
            continue
        hits = [n for n in walk(b['body']) if n.get('k') == 'struct' and (n.get('path') or '').endswith('datetime::Datetime')]
        if not hits:
            continue
        clos = [n for n in walk(b['body']) if n.get('k') == 'closure']
        units = []
        for h in hits:
            owner = None
            for c in clos:
                if any(x is h for x in walk(c['body'])):
                    owner = c
            if not any(u is owner for u in units):
                units.append(owner)
        for u in units:
            fi = ForkInterp()
            res = fi.run(u['body'] if u else b['body'], (u or b).get('params', []))
            shapes = set()
            for r in res:
                sh = option_shape(r, ['date', 'time', 'offset'])
                if sh is None:
                    continue
                # '?' = could be either
                cands = [()]
                for x in sh:
                    cands = [c + (y,) for c in cands for y in (('S', 'N') if x == '?' else (x,))]
                shapes |= set(cands)
            out.append((d, 'closure' if u else 'fn', (u or b).get('l') or b.get('line'), shapes, fi.paths))
    return out


def r7_shapes(rep, facts, rid='C12/R7'):
    R = rep.rule(rid, 'one set of date-time shapes everywhere: every place that builds a Datetime (the grammar parser, the standalone parser, the '
                 'conversions) can only produce offset date-time, local date-time, local date or local time — decided by enumerating the paths of '
                 'each constructor over the Some/None-ness of (date, time, offset) — and that is the set type_name / the serde bridge handles', floor=5)
    sites = datetime_sites(facts)
    allsh = set()
    for d, kind, line, shapes, paths in sites:
        b = facts.body(d)
        bad = sorted(shapes - set(LEGAL_SHAPES))
        allsh |= shapes
        names = {'S': 'Some', 'N': 'None'}
        rep.check(R, f'{d}|shapes', not bad and bool(shapes), f'{paths} path(s): ' + ', '.join(LEGAL_SHAPES[s] for s in sorted(shapes) if s in LEGAL_SHAPES),
                  f'`{d}` can build a Datetime with ' + '; '.join(f'date={names[s[0]]}, time={names[s[1]]}, offset={names[s[2]]}' for s in bad) +
                  ': not one of the four TOML kinds (e.g. a date directly followed by an offset is accepted; printing it gives text the other parser refuses, '
                  'and Datetime::type_name reaches unreachable!)', f'{facts.rel(b.get("file"))}:{line}')
    for tag, pred in (('toml_edit::parser', lambda d: d.startswith('toml_edit::parser::') or 'From<toml_datetime::datetime::Time>' in d or 'From<toml_datetime::datetime::Date>' in d),
                      ('FromStr', lambda d: 'core::str::traits::FromStr' in d)):
        got = set()
        for d, kind, line, shapes, paths in sites:
            if pred(d):
                got |= shapes
        if tag == 'toml_edit::parser' and not any(d.startswith('toml_edit::parser::') for d, *_ in sites):
            continue
        rep.check(R, f'{tag}|covers-all-kinds', set(LEGAL_SHAPES) <= got, 'all four kinds can be produced',
                  f'{tag} can no longer produce {[LEGAL_SHAPES[s] for s in sorted(set(LEGAL_SHAPES) - got)]}')
    tn = 'toml_datetime::datetime::Datetime::type_name'
    if facts.has_body(tn):
        b = facts.body(tn)
        arms = set()
        for m in walk(b['body']):
            if m.get('k') == 'match':
                for arm in m['arms']:
                    p = arm['pat']
                    if p.get('k') == 'p_tuple' and len(p['pats']) == 3 and all(x.get('k') == 'p_expr' and x['e'].get('lk') == 'bool' for x in p['pats']):
                        arms.add(tuple('S' if x['e']['v'] else 'N' for x in p['pats']))
        rep.check(R, 'Datetime::type_name|arms', arms == set(LEGAL_SHAPES), f'handles {sorted(arms)}', f'type_name handles {sorted(arms)}; the constructors produce {sorted(LEGAL_SHAPES)}', facts.loc(b))


def rules(rep, facts):
    if 'toml_datetime' not in facts.crates:
        return
    a = Abnf()
    feats = set(facts.crates.get('toml_edit', {}).get('features', []))
    g = pm.model(facts) if ('toml_edit' in facts.crates and 'parse' in feats) else None
    st = r1_fields(rep, facts, g)
    if st is not None:
        r2_calendar(rep, facts, st)
    r3_delims(rep, facts, a)
    r3b_digit(rep, facts)
    r4_truncation(rep, facts)
    r5_printer(rep, facts)
    r5b_printed_values(rep, facts)
    # R5 reads the format strings of the Display impls; R5b evaluates them on sample values and reads the text back by the specification.  Where every sample
    # comes back as the value that was printed, a printer written another way (a helper that returns the fraction, `write_str` for the fixed letters) is not a finding.
    r5b = rep.rules.get('C12/R5b', {}).get('obligations', [])
    if len(r5b) >= 8 and all(o['ok'] for o in r5b) and not any(v['rule'] == 'C12/R5b' for v in rep.violations):
        moot = [v for v in rep.violations if v['rule'] == 'C12/R5']
        if moot:
            rep.violations[:] = [v for v in rep.violations if v not in moot]
            if 'C12/R5' in rep.rules:
                rep.rules['C12/R5']['obligations'] = [o for o in rep.rules['C12/R5']['obligations'] if o['ok']]
                rep.rules['C12/R5']['floor'] = None
            rep.notes.append(f'C12/R5 reads the format strings of the printer and does not recognise {len(moot)} of them in this tree ({moot[0]["detail"][:140]}); every sample value printed by '
                             f'evaluating Display for Datetime reads back as itself (C12/R5b).')
    r7_shapes(rep, facts)
    if g is not None:
        from .rules_c01 import r2_ranges
        r2_ranges(rep, g, a)
        rep.relabel('C01/R2', 'C12/R2b', 'the document grammar applies the same field ranges and calendar: ')
        # both parsers cut a long fraction to nanoseconds the same way (the standalone side is tabulated by C12/R4)
        from .rules_c02 import r5_fraction
        r5_fraction(rep, g, facts)
        rep.relabel('C02/R5', 'C12/R8', 'the document parser reads the fraction the standalone parser reads: ')
    dfeats = set(facts.crates['toml_datetime'].get('features', []))
    if 'serde' in dfeats and 'toml_edit' in facts.crates and 'serde' in feats:
        r6_bridge(rep, facts)


def run(tier):
    return run_property(PROP, tier, rules, configs_thorough=['default', 'perf', 'datetime_nodefault', 'datetime_serde', 'edit_parse'])
