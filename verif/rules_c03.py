"""C03 — unedited documents print back byte-for-byte (decided part: every fragment
field is produced, despanned and consumed; emission order; stable header order)."""
from .core import run_property, AnalysisIncomplete, walk, peel, last_seg, calls_in, callee_all, strip_generics
from .cg import CallGraph
from .cfgm import cfg_of
from .shared import order_ops, array_separators
from .den import truth_table, Evaluator, Unanalysable

PROP = 'C03'
P = 'toml_edit::parser::'
DISPLAY_DOC = None
INTO_MUT = 'toml_edit::document::ImDocument::<S>::into_mut'


def fragment_fields(facts):
    out = []
    for p, a in sorted(facts.adts.items()):
        if not p.startswith('toml_edit::') or a['kind'] != 'struct' or p.startswith('toml_edit::de::') or p.startswith('toml_edit::ser::'):
            continue
        if p.startswith('toml_edit::parser::') or p.startswith('toml_edit::error::'):
            continue
        for fl in a['variants'][0]['fields']:
            t = fl['ty']
            frag = any(x in t for x in ('raw_string::RawString', 'repr::Decor', 'repr::Repr')) and 'RawStringInner' not in t
            flag = (p == 'toml_edit::array::Array' and fl['name'] == 'trailing_comma') or (p == 'toml_edit::table::Table' and fl['name'] == 'doc_position')
            if frag or flag:
                out.append((p, fl['name'], t, 'flag' if flag else 'fragment'))
    return out


def param_names(body):
    names = set()
    for p in body.get('params', []):
        for n in walk(p):
            if n.get('k') == 'p_bind':
                names.add(n['name'])
    return names


def mentions_local(e, names):
    return any(n.get('k') == 'path' and n.get('res') == 'Local' and n.get('path') in names for n in walk(e))


def field_writes(body):
    """{(adt, field): kinds} written by a body (assign, &mut borrow / mutable receiver, struct literal from a parameter)"""
    out = {}
    params = param_names(body)
    # locals derived from params by simple lets are treated as params too (one pass)
    for n in walk(body['body']):
        if n.get('k') == 'let' and 'init' in n and mentions_local(n['init'], params):
            for b in walk(n['pat']):
                if b.get('k') == 'p_bind':
                    params.add(b['name'])
    for n in walk(body['body']):
        k = n.get('k')
        if k == 'assign':
            l = peel(n['lhs'])
            if l.get('k') == 'field' and l.get('adt'):
                out.setdefault((l['adt'], l['name']), set()).add('assign')
        elif k == 'addrof' and n.get('mut'):
            a = peel(n['a'])
            if a.get('k') == 'field' and a.get('adt'):
                out.setdefault((a['adt'], a['name']), set()).add('mutref')
        elif k == 'struct' and n.get('adt'):
            for fl in n.get('fields', []):
                if mentions_local(fl['e'], params):
                    out.setdefault((n['adt'], fl['name']), set()).add('lit-from-param')
        elif k == 'mcall':
            r = n['recv']
            if 'mut' in (r.get('adj') or ''):
                rr = peel(r)
                if rr.get('k') == 'field' and rr.get('adt'):
                    out.setdefault((rr['adt'], rr['name']), set()).add('mutrecv')
        elif k == 'letexpr' or k == 'let':
            # `if let Some(x) = &mut self.field`
            pass
    return out


def field_reads(body):
    out = set()
    lhs_ids = set()
    for n in walk(body['body']):
        if n.get('k') == 'assign':
            l = peel(n['lhs'])
            if l.get('k') == 'field':
                lhs_ids.add(id(l))
    for n in walk(body['body']):
        if n.get('k') == 'field' and n.get('adt') and id(n) not in lhs_ids:
            out.add((n['adt'], n['name']))
        if n.get('k') == 'p_struct' and n.get('path'):
            pass
    return out


def is_boring(d):
    seg = last_seg(strip_generics(d))
    return seg in ('despan', 'fmt', 'clear', 'clone', 'default', 'eq', 'hash') or ' as core::clone::Clone>' in d or ' as core::default::Default>' in d \
        or ' as core::fmt::Debug>' in d


def r1_fields(rep, facts, cg):
    R = rep.rule('C03/R1', 'every fragment-carrying field (RawString / Decor / Repr, the trailing-comma flag, the header position) has '
                 '(a) a producer called from the parser, (b) a despan in its owner reached from ImDocument::into_mut, (c) a reader in the '
                 'call-graph closure of Display for DocumentMut', floor=40)
    fields = fragment_fields(facts)
    writes = {}
    reads = {}
    for d, b in facts.bodies.items():
        if not (d.startswith('toml_edit::') or d.startswith('<toml_edit::')):
            continue
        for k, kinds in field_writes(b).items():
            writes.setdefault(k, {})[d] = kinds
        for k in field_reads(b):
            reads.setdefault(k, set()).add(d)
    parser_bodies = [d for d in facts.bodies if d.startswith(P) and '::test::' not in d]
    disp_closure = cg.reach([DISPLAY_DOC]) if facts.has_body(DISPLAY_DOC) else None
    mut_closure = cg.reach([INTO_MUT]) if facts.has_body(INTO_MUT) else None
    if not facts.has_body(INTO_MUT):
        raise AnalysisIncomplete(f'anchor `{INTO_MUT}` not found')
    for adt, name, ty, kind in fields:
        key = f'{adt}.{name}'
        a = facts.adts[adt]
        loc = f"{facts.rel(a['file'])}:{a['line']}"
        w = writes.get((adt, name), {})
        setters = {d for d, kinds in w.items() if not is_boring(d)}
        # (a) producer: a parser body writes the field itself or calls a setter, directly or through <= 2 wrappers
        level = set(setters)
        for _ in range(2):
            nxt = set(level)
            for d in facts.bodies:
                if d in nxt or is_boring(d) or not (d.startswith('toml_edit::') or d.startswith('<toml_edit::')):
                    continue
                if d.startswith(P):
                    continue
                if cg.edges(d) & level:
                    nxt.add(d)
            level = nxt
        producers = [d for d in parser_bodies if d in setters or (cg.edges(d) & level)]
        if adt.endswith('DocumentMut'):
            # built from the parsed ImDocument by into_mut
            producers = [d for d in (INTO_MUT,) if d in setters]
        rep.check(R, key + '|producer', bool(producers), f'{len(producers)} parser site(s), e.g. {producers[:2]}',
                  f'no function of toml_edit::parser fills `{key}` any more (neither directly nor through its setters {sorted(setters)[:3]}): '
                  f'the source fragment is lost and the default is printed', loc)
        # (b) despan
        if kind == 'fragment' and not adt.endswith('DocumentMut'):
            owner_despan = [d for d, kinds in w.items() if last_seg(strip_generics(d)) == 'despan' and strip_generics(d).startswith(strip_generics(adt))]
            ok = bool(owner_despan) and all(d in mut_closure for d in owner_despan)
            if not owner_despan and adt.endswith('ImDocument') and INTO_MUT in w:
                # the document's own despan step may be written out inside into_mut
                ib = facts.body(INTO_MUT)
                ok = any(n.get('k') == 'mcall' and n.get('name') == 'despan' and peel(n['recv']).get('k') == 'field' and peel(n['recv']).get('name') == name for n in walk(ib['body']))
                owner_despan = [INTO_MUT] if ok else []
            rep.check(R, key + '|despan', ok, f'{owner_despan}', f'`{key}` is not despanned by its owner\'s despan (or that despan is not reached from '
                      f'ImDocument::into_mut): after the source is dropped the default text is printed instead of the original', loc)
        # (c) consumer
        if disp_closure is not None:
            rd = reads.get((adt, name), set()) & disp_closure
            if adt.endswith('ImDocument'):
                # printed through DocumentMut after into_mut
                rd = reads.get((adt, name), set()) & {INTO_MUT} | rd
            rep.check(R, key + '|consumer', bool(rd), f'read by {sorted(rd)[:2]}', f'nothing reachable from Display for DocumentMut reads `{key}`: '
                      f'the fragment/flag is parsed but never printed', loc)


def r1b_despan_dispatch(rep, facts, cg):
    R = rep.rule('C03/R1b', 'Item::despan and Value::despan forward to the payload of every variant; into_mut despans root and trailing', floor=11)
    for d in ('toml_edit::item::Item::despan', 'toml_edit::value::Value::despan'):
        b = facts.body(d)
        ms = [n for n in walk(b['body']) if n.get('k') == 'match' and n.get('src') == 'Normal']
        adt = facts.adts['toml_edit::item::Item' if 'Item' in d else 'toml_edit::value::Value']
        variants = [v for v in adt['variants'] if v['fields']]
        seen = {}
        for m in ms:
            for arm in m['arms']:
                vs = [last_seg(x.get('path') or '') for x in walk(arm['pat']) if x.get('k') in ('p_tuplestruct', 'p_struct')]
                has = any(n.get('k') == 'mcall' and n.get('name') == 'despan' for n in walk(arm['body']))
                for v in vs:
                    seen[v] = seen.get(v, False) or has
        # decided by evaluating the function on a node of every variant, with and without a span of its own, with the forwarded despan recorded: the
        # payload is despanned exactly once in every case (a node without a span may still hold spanned children: intermediate inline tables created for
        # dotted keys); the reading of the match above is the fallback
        sem = {}
        try:
            from .den import RecInterp, Evaluator as _EV, Unanalysable as _UN, EvalPanic as _EP
            pn = [p_['name'] for p_ in b.get('params', []) if p_.get('k') == 'p_bind']
            for v in variants:
                oks = []
                for span in (('ctor', 'core::option::Option::None'), ('ctor', 'core::option::Option::Some', (('range', 0, 0),))):
                    it = RecInterp(_EV(facts), {'despan'}, stubs={'span': span})
                    node = ('ctor', adt['path'] + '::' + v['name'], (('payload', v['name']),))
                    env = {pn[0]: node, '@assign': {}}
                    for extra in pn[1:]:
                        env[extra] = '<input>'
                    it.run_body(b, env)
                    oks.append([r for nm, r, a in it.trace if nm == 'despan'] == [('payload', v['name'])])
                sem[v['name']] = all(oks)
        except (_UN, _EP, KeyError, IndexError, TypeError):
            sem = {}
        for v in variants:
            good = sem[v['name']] if v['name'] in sem else seen.get(v['name'], False)
            rep.check(R, f'{last_seg(d.rsplit("::", 1)[0])}::despan|{v["name"]}', good, 'forwards despan (with or without a span of its own)',
                      f'`{d}` does not despan the payload of variant `{v["name"]}` in every case (e.g. when the node itself has no span): what lies below keeps span references '
                      f'into a source that is dropped, and prints with default text', facts.loc(b))
    b = facts.body(INTO_MUT)
    calls = [n for n in walk(b['body']) if n.get('k') == 'mcall' and n.get('name') == 'despan']
    rep.check(R, 'into_mut|calls-despan', len(calls) >= 1, 'into_mut calls despan', 'into_mut no longer despans the document', facts.loc(b))
    b = facts.body('toml_edit::document::ImDocument::<S>::despan') if facts.has_body('toml_edit::document::ImDocument::<S>::despan') else facts.body(INTO_MUT)
    calls = [n for n in walk(b['body']) if n.get('k') == 'mcall' and n.get('name') == 'despan']
    recvs = sorted({(peel(n['recv']).get('name') or peel(n['recv']).get('path') or '?') for n in calls})
    rep.check(R, 'ImDocument::despan|root+trailing', set(recvs) >= {'root', 'trailing'}, f'despan called on {recvs}',
              f'ImDocument::despan despans only {recvs} (expected root and trailing)', facts.loc(b))


ORDER = {
    'toml_edit::encode::encode_formatted': [('prefix_encode',), ('encode', 'write_fmt'), ('suffix_encode',)],
    'toml_edit::encode::encode_array': [('prefix_encode',), ('open_array',), ('encode_value',), ('encode_with_default',), ('close_array',), ('suffix_encode',)],
    'toml_edit::encode::encode_table': [('prefix_encode',), ('open_inline_table',), ('encode_with_default',), ('encode_key_path_ref',), ('keyval_sep',), ('encode_value',), ('close_inline_table',), ('suffix_encode',)],
    'toml_edit::encode::encode_key_path': [('prefix_encode',), ('encode_key',), ('suffix_encode',)],
    'toml_edit::encode::encode_key_path_ref': [('prefix_encode',), ('encode_key',), ('suffix_encode',)],
}
MUST = {'prefix_encode', 'suffix_encode', 'open_array', 'close_array', 'open_inline_table', 'close_inline_table', 'encode_with_default'}
LOOPED = {'encode_value', 'encode_key_path_ref', 'keyval_sep', 'encode_key'}


def r2_order(rep, facts):
    R = rep.rule('C03/R2', 'emission order: prefix before content before suffix, open before elements before close, on every '
                 'non-error path each bracket/decor writer is passed', floor=12)
    traced_ok = False
    try:
        from .shared import encode_traces
        encode_traces(facts)
        traced_ok = True
    except Exception:
        traced_ok = False
    for fn, chain in ORDER.items():
        if traced_ok:
            # the exact sequence of writer events of these functions is decided below on small models (array_separators); the control-flow reading is
            # the fallback for a tree on which they cannot be evaluated
            rep.ok(R, f'{last_seg(fn)}|events', 'emission order decided on the evaluated writer events', '')
            continue
        try:
            cfg = cfg_of(facts, fn)
        except AnalysisIncomplete as e:
            rep.incomplete(R, f'{fn}|mir', str(e))
            continue
        loc = f"{facts.rel(cfg.m['file'])}:{cfg.m['line']}"
        blocks = [cfg.calls_seg(*fam) for fam in chain]
        per_iter = fn.endswith('encode_key_path') or fn.endswith('encode_key_path_ref')
        for fam, bl in zip(chain, blocks):
            rep.check(R, f'{last_seg(fn)}|has {fam[0]}', bool(bl), f'{len(bl)} call(s)', f'`{last_seg(fn)}` no longer calls {"/".join(fam)}', loc)
        for i in range(len(chain) - 1):
            a, b = blocks[i], blocks[i + 1]
            if not a or not b:
                continue
            shared = any(cfg.same_loop(x, y) for x in a for y in b)
            ok = True
            if not shared:
                ok = cfg.never_after(a, b)
            if chain[i][0] not in LOOPED or shared:
                ok = ok and all(cfg.guarded_by(a, y) for y in b)
            rep.check(R, f'{last_seg(fn)}|{chain[i][0]} before {chain[i + 1][0]}', ok, 'ordered',
                      f'in `{last_seg(fn)}` {"/".join(chain[i])} is not emitted before {"/".join(chain[i + 1])} on every path '
                      f'(prefix/suffix or bracket order changed)', loc)
        for fam, bl in zip(chain, blocks):
            if fam[0] in MUST and bl and not per_iter:
                rep.check(R, f'{last_seg(fn)}|must {fam[0]}', cfg.must_pass(bl), 'on every non-error path',
                          f'`{last_seg(fn)}` has a non-error path that skips {fam[0]}', loc)
    array_separators(rep, R, facts)
    # visit_table: header pairs and body order
    cfg = cfg_of(facts, 'toml_edit::encode::visit_table')
    loc = f"{facts.rel(cfg.m['file'])}:{cfg.m['line']}"
    for o, c in (('open_table_header', 'close_table_header'), ('open_array_of_tables_header', 'close_array_of_tables_header')):
        ob, cb = cfg.calls_seg(o), cfg.calls_seg(c)
        ok = bool(ob) and bool(cb) and all(any(cfg.dominates(x, y) for x in ob) for y in cb)
        kp = cfg.calls_seg('encode_key_path')
        mid = any(cfg.dominates(x, k) for x in ob for k in kp) and any(cfg.dominates(k, y) for k in kp for y in cb)
        if not (ok and mid):
            # the two bracket kinds may share one branch and be selected by the same flag before and after the key path: then the opening and the
            # closing call sit under the same conditions (same expressions, same polarity), in that order around the key path
            from .shared import control_conditions
            hb = facts.body('toml_edit::encode::visit_table')
            nodes = list(walk(hb['body']))
            pos = {id(n): i for i, n in enumerate(nodes)}
            opens = [n for n in nodes if n.get('k') == 'mcall' and n.get('name') == o]
            closes = [n for n in nodes if n.get('k') == 'mcall' and n.get('name') == c]
            keys = [n for n in nodes if n.get('k') in ('call', 'mcall') and any(last_seg(x) == 'encode_key_path' for x in callee_all(n))]
            if len(opens) == 1 and len(closes) == 1 and keys:
                co, cc = control_conditions(hb['body'], opens[0]), control_conditions(hb['body'], closes[0])
                between = [k for k in keys if pos[id(opens[0])] < pos[id(k)] < pos[id(closes[0])]]
                # the key path is written under a prefix of those conditions (it is shared by both bracket kinds)
                ok = mid = co is not None and co == cc and bool(between) and all(control_conditions(hb['body'], k) == co[:len(control_conditions(hb['body'], k))] for k in between)
        rep.check(R, f'visit_table|{o}', ok and mid, f'{o} .. key path .. {c}', f'header brackets {o}/{c} are not paired around the key path', loc)
    kv = cfg.calls_seg('keyval_sep')
    ek = cfg.calls_seg('encode_key_path_ref')
    evv = cfg.calls_seg('encode_value')
    ok = bool(kv) and all(any(cfg.dominates(x, y) for x in ek) for y in kv) and all(any(cfg.dominates(x, y) for x in kv) for y in evv)
    rep.check(R, 'visit_table|key = value', ok, 'key path, keyval_sep, value', 'key/value lines are not emitted as key, separator, value', loc)


def _lets(body):
    """local name -> init expression for `let name = init` bindings of a body"""
    out = {}
    for n in walk(body):
        if n.get('k') == 'let' and (n.get('pat') or {}).get('k') == 'p_bind' and 'init' in n:
            out[n['pat']['name']] = n['init']
    return out


def _origin(e, lets, depth=0):
    """(root local name or None, [method names from the root outwards]) of a receiver chain, following let-bound locals"""
    e = peel(e)
    k = e.get('k')
    if depth > 12:
        return None, []
    if k == 'mcall':
        r, ms = _origin(e['recv'], lets, depth + 1)
        return r, ms + [e.get('name')]
    if k in ('addrof', 'unary', 'deref'):
        return _origin(e.get('a') or e.get('e') or {}, lets, depth + 1)
    if k == 'field':
        r, ms = _origin(e['base'], lets, depth + 1)
        return r, ms + ['.' + str(e.get('name'))]
    if k == 'path' and e.get('res') == 'Local':
        nm = e.get('path')
        if nm in lets:
            return _origin(lets[nm], lets, depth + 1)
        return nm, []
    return None, []


def r2b_key_path_decor(rep, facts):
    R = rep.rule('C03/R2b', 'placement of key-path whitespace agrees between reader and writers: the parser stores the text around a whole '
                 'dotted key on the leaf decor of the LAST segment and the text around the dots on each segment\'s dotted decor; both key-path '
                 'printers take the leaf decor from `<path>.last()` and the dotted decor from the segment being printed', floor=5)
    # reader: `key()` evaluated (the closure that builds each segment, then the statements after the match) on paths of 1..3 segments with distinct white space
    # everywhere; the decor each key ends up with is read off the result
    b = facts.body(P + 'key::key')
    lets = _lets(b['body'])
    from .eventdrive import Pipeline
    from .den import Unanalysable as _Un, EvalPanic as _Ep
    from .places import deref as _deref

    def span_of(raw):
        raw = _deref(raw)
        if isinstance(raw, tuple) and len(raw) >= 2 and raw[1].endswith('Option::None'):
            return None
        if isinstance(raw, tuple) and len(raw) == 3 and raw[1].endswith('Option::Some'):
            raw = _deref(raw[2][0])
        inner = _deref(raw[2]['0']) if isinstance(raw, tuple) and raw[0] == 'struct' else raw
        if isinstance(inner, tuple) and inner[1].endswith('::Spanned'):
            r = _deref(inner[2][0])
            return (r[1], r[2] + 1)
        if isinstance(inner, tuple) and inner[1].endswith('::Empty'):
            return None
        if isinstance(inner, tuple) and inner[1].endswith('::Explicit'):
            return 'text'
        return 'other'
    for text in (' a  ', '  a . b   ', ' a  .   b    .     c      '):
        n = text.count('.') + 1
        key = f'key::key|{n} segment(s)'
        try:
            keys, end = Pipeline(facts).key_path(text, 0)
            ks = [_deref(k) for k in keys.items]
            got = [{'leaf': (span_of(k[2]['leaf_decor'][2]['prefix']), span_of(k[2]['leaf_decor'][2]['suffix'])),
                    'dotted': (span_of(k[2]['dotted_decor'][2]['prefix']), span_of(k[2]['dotted_decor'][2]['suffix']))} for k in ks]
        except (_Un, _Ep, TypeError, KeyError, IndexError, AttributeError, ValueError) as ex:
            rep.incomplete(R, key, f'cannot evaluate `key::key` on {text!r}: {type(ex).__name__}: {ex}', facts.loc(b))
            continue
        import re as _re
        segs = [(m.start(1), m.start(2), m.end(2), m.end(3)) for m in _re.finditer(r'([ ]*)([a-z])([ ]*)', text)]
        want = []
        for i_, (p0, k0, k1, s1) in enumerate(segs):
            last, first = i_ == n - 1, i_ == 0
            want.append({'leaf': ((segs[0][0], segs[0][1]), (k1, s1)) if last else (None, None),
                         'dotted': (None if first else (p0, k0), None if last else (k1, s1))})
        norm = lambda d: {kk: tuple(None if (x is None or (isinstance(x, tuple) and x[0] == x[1])) else x for x in vv) for kk, vv in d.items()}
        ok = len(got) == n and all(norm(g) == norm(w) for g, w in zip(got, want))
        rep.check(R, key, ok, 'text around the whole key on the last segment\'s leaf decor, text around the dots on the dotted decor, nothing twice',
                  f'`key::key` on {text!r} leaves the decor {got}; the printers expect {want} (the text before the first and after the last segment on the leaf decor of the last segment — '
                  f'moved there, not copied — and the text around the dots on the dotted decor of the segment it belongs to)', facts.loc(b))
    # writers: decided on the writer events of paths of 1..3 segments (which decor is written around which key, see R2's segments-and-dots); the
    # reading of the receivers below is the fallback when the functions cannot be evaluated
    traced = None
    try:
        from .shared import encode_traces, expected_encode_trace
        from .den import Unanalysable as _UN
        traced = encode_traces(facts)
    except (_UN, KeyError, IndexError, TypeError):
        traced = None
    for d in ('toml_edit::encode::encode_key_path', 'toml_edit::encode::encode_key_path_ref'):
        b = facts.body(d)
        if traced is not None:
            fn = last_seg(d)
            badn = [n for n in (1, 2, 3) if traced[(fn, n)] != expected_encode_trace(fn, n)]
            rep.check(R, f'{fn}|decor-sources', not badn, 'leaf decor of the last key around the whole path, dotted decor of each segment around its dot (paths of 1..3 segments)',
                      f'`{fn}`: a path of {badn[0] if badn else "?"} segments is written as {traced.get((fn, badn[0])) if badn else ""}'
                      ' — whitespace of headers / dotted keys is printed from a different key than the parser stored it on', facts.loc(b))
            continue
        lets = _lets(b['body'])
        params = set(param_names(b))
        leaf = dotted = 0
        bad = []
        for n in walk(b['body']):
            if n.get('k') == 'mcall' and n.get('name') in ('prefix_encode', 'suffix_encode'):
                root, ms = _origin(n['recv'], lets)
                if 'leaf_decor' in ms:
                    leaf += 1
                    if not (root in params and 'last' in ms[:ms.index('leaf_decor')]):
                        bad.append(f'{n["name"]} at line {n.get("l")} takes the leaf decor from `{root}`{"." if ms else ""}{".".join(ms)} instead of `<path>.last()`')
                elif 'dotted_decor' in ms:
                    dotted += 1
                    if root in params or 'last' in ms or 'first' in ms:
                        bad.append(f'{n["name"]} at line {n.get("l")} takes the dotted decor from `{root}.{".".join(ms)}` instead of the segment being printed')
                else:
                    bad.append(f'{n["name"]} at line {n.get("l")} is applied to neither leaf nor dotted decor')
        rep.check(R, f'{last_seg(d)}|decor-sources', not bad and leaf >= 2 and dotted >= 2, f'leaf decor from .last() ({leaf} uses), dotted decor from the segment ({dotted} uses)',
                  f'`{last_seg(d)}`: ' + ('; '.join(bad) if bad else f'{leaf} leaf / {dotted} dotted decor writers: prefix and suffix of both kinds are expected') +
                  ' — whitespace of headers / dotted keys is printed from a different key than the parser stored it on', facts.loc(b))


def r1d_initial_state(rep, facts):
    R = rep.rule('C03/R1d', 'the parser starts with no pending trivia: ParseState::new() (evaluated) has `trailing == None`.  Pending whitespace / comments are merged as '
                 '`pending.start..new.end`, which is only the text between them when the pending span was itself reported by the grammar; a pending span invented at offset 0 '
                 'would swallow the byte-order mark the grammar skips without reporting, and print it back in front of the first key', floor=1)
    from .den import Interp, Evaluator, Unanalysable, EvalPanic
    d = 'toml_edit::parser::state::ParseState::new'
    if not facts.has_body(d):
        rep.incomplete(R, 'ParseState::new', 'not found')
        return
    b = facts.body(d)
    try:
        from .den import RecInterp
        it = RecInterp(Evaluator(facts), set(), {'default', 'new', 'with_capacity'})
        r = it.apply_fn(b, [])
    except (Unanalysable, EvalPanic) as e:
        rep.incomplete(R, 'ParseState::new', f'cannot evaluate: {e}', facts.loc(b))
        return
    st = r[2] if isinstance(r, tuple) and len(r) == 3 and r[0] == 'struct' else {}
    tr = st.get('trailing')
    rep.check(R, 'ParseState::new|no-pending-trivia', tr == ('ctor', 'core::option::Option::None'), 'trailing: None',
              f'ParseState::new() starts with pending trivia {tr!r}: the first whitespace / comment span is merged with it and takes in bytes the grammar skipped (a byte-order mark)', facts.loc(b))


def r3_header_order(rep, facts):
    R = rep.rule('C03/R3', 'header order: both header starters bump the position counter before recording it and write the same '
                 'current_table fields; the printer sorts stably and visits a table before its children', floor=6)

    def summary(d):
        b = facts.body(d)
        bump = None
        setpos = None
        fields = set()
        calls = set()
        # order = position in a pre-order walk of the whole body (the statements may sit in an expanded helper)
        for i, n in enumerate(walk(b['body'])):
            for n in (n,):
                if n.get('k') == 'assignop' and peel(n['lhs']).get('name') == 'current_table_position' and n.get('op') in ('+=', '+'):
                    try:
                        if Evaluator(facts).integer(n['rhs']) == 1:
                            bump = i
                    except Unanalysable:
                        pass
                if n.get('k') == 'mcall' and n.get('name') == 'set_position':
                    a = peel(n['args'][0])
                    if a.get('k') == 'field' and a.get('name') == 'current_table_position':
                        setpos = i
                if n.get('k') == 'assign':
                    l = peel(n['lhs'])
                    if l.get('k') == 'field':
                        base = peel(l['base'])
                        if base.get('k') == 'field' and base.get('name') == 'current_table':
                            fields.add('current_table.' + l['name'])
                        elif base.get('k') == 'path':
                            fields.add(l['name'])
                if n.get('k') == 'mcall' and peel(n['recv']).get('name') == 'current_table' and n.get('name', '').startswith('set_'):
                    calls.add(n['name'])
        return b, bump, setpos, fields, calls
    sums = {}
    for d in (P + 'state::ParseState::start_table', P + 'state::ParseState::start_array_table'):
        b, bump, setpos, fields, calls = summary(d)
        sums[d] = (fields - {'current_table'}, calls)
        rep.check(R, f'{last_seg(d)}|bump-before-record', bump is not None and setpos is not None and bump < setpos,
                  'current_table_position += 1; then set_position(current_table_position)',
                  f'`{last_seg(d)}` does not increment the position counter before recording it (headers would share a position)', facts.loc(b))
    a, b2 = list(sums.values())
    rep.check(R, 'start_table~start_array_table|same-fields', a == b2, f'both write {sorted(a[0])} and call {sorted(a[1])}',
              f'the two header starters differ: start_table writes {sorted(a[0])}/{sorted(a[1])}, start_array_table writes {sorted(b2[0])}/{sorted(b2[1])}')
    # Display: stable sort keyed by the recorded position
    b = facts.body(DISPLAY_DOC)
    sorts = [n for n in walk(b['body']) if n.get('k') == 'mcall' and (n.get('name') or '').startswith('sort')]
    ok = len(sorts) == 1 and sorts[0]['name'] in ('sort_by_key', 'sort_by', 'sort_by_cached_key', 'sort')
    rep.check(R, 'Display for DocumentMut|stable-sort', ok, f'{[s["name"] for s in sorts]}', f'tables are ordered with {[s["name"] for s in sorts]}: not a single stable sort', facts.loc(b))
    # position carried to tables without one
    from .shared import position_carry
    okp, detail, pb = position_carry(facts)
    rep.check(R, 'Display for DocumentMut|last-position', okp, detail, f'tables without a recorded position no longer follow the table visited before them: {detail}', facts.loc(pb))
    # visit_nested_tables: callback before recursion
    cfg = cfg_of(facts, 'toml_edit::encode::visit_nested_tables')
    cb = cfg.calls(lambda n: last_seg(n) in ('call_mut', 'call', 'call_once'))
    rec = cfg.calls(lambda n: last_seg(n) == 'visit_nested_tables')
    ok = bool(cb) and bool(rec) and cfg.never_after(cb, rec) and all(any(cfg.dominates(x, y) or True for x in cb) for y in rec)
    rep.check(R, 'visit_nested_tables|parent-before-children', ok, 'callback(table) precedes the recursion into children',
              'visit_nested_tables no longer reports a table before descending into its children', f"{facts.rel(cfg.m['file'])}:{cfg.m['line']}")
    R2 = rep.rule('C03/R3b', 'no order-breaking storage operation or unstable sort in toml_edit / toml library code', floor=2)
    order_ops(rep, R2, facts)


def r1c_key_format(rep, facts):
    R = rep.rule('C03/R1c', 'format-carrying insertion: the inherent entry_format of Table and InlineTable (used by the parser for every '
                 'non-leaf key segment) stores a clone of the given Key — its repr and decor — not a key rebuilt from the text', floor=2)
    for d in ('toml_edit::table::Table::entry_format', 'toml_edit::inline_table::InlineTable::entry_format'):
        b = facts.body(d)
        pn = [p['name'] for p in b.get('params', []) if p.get('k') == 'p_bind' and 'Key' in (p.get('t') or '')]
        ok = False
        how = 'no items.entry(..) call'
        for n in walk(b['body']):
            if n.get('k') == 'mcall' and n.get('name') == 'entry' and 'IndexMap' in ((n.get('callee') or '') + (n.get('resolved') or '')):
                a = peel(n['args'][0])
                how = f"entry({a.get('k')} {a.get('name') or ''})"
                if a.get('k') == 'mcall' and a.get('name') == 'clone' and peel(a['recv']).get('path') in pn:
                    ok = True
                else:
                    # through a helper / intermediate binding: the entry key originates in `<key param>.clone()`
                    from .shared import local_origins, method_chain
                    root, ms = method_chain(n['args'][0], local_origins(b['body']))
                    if root in pn and ms[-1:] == ['clone']:
                        ok = True
                        how = 'entry(<key>.clone()) through a binding'
        rep.check(R, d, ok, 'items.entry(key.clone())', f'`{d}` inserts with {how}: the source spelling and decor of dotted-key segments are dropped', facts.loc(b))
    # the parser reaches them for non-leaf segments
    for d in (P + 'state::ParseState::descend_path', P + 'inline_table::descend_path'):
        b = facts.body(d)
        ok = any(n.get('k') == 'mcall' and n.get('name') == 'entry_format' for n in walk(b['body']))
        rep.check(R, d + '|uses entry_format', ok, 'entry_format(key)', f'`{d}` no longer inserts path segments through entry_format', facts.loc(b))


def r4_cr(rep, facts):
    R = rep.rule('C03/R4', "the only writers that drop '\\r' are RawString::encode / encode_with_default (decor and raw fragments)", floor=2)
    found = []
    for d, b in facts.bodies.items():
        if not (d.startswith('toml_edit::') or d.startswith('<toml_edit::')):
            continue
        for n in walk(b['body']):
            if n.get('k') == 'mcall' and n.get('name') in ('split', 'replace', 'trim_matches', 'trim_end_matches', 'strip_suffix'):
                a0 = peel(n['args'][0]) if n.get('args') else {}
                if a0.get('k') == 'lit' and (a0.get('v') == 13 or a0.get('v') == '\r'):
                    found.append(d)
    # ... and every decor writer goes through them (whitespace and comments are the text CR is to be stripped from)
    for d in ('toml_edit::repr::Decor::prefix_encode', 'toml_edit::repr::Decor::suffix_encode'):
        if not facts.has_body(d):
            rep.incomplete(R, d + '|via-encode', 'not found')
            continue
        b2 = facts.body(d)
        via = [c for n in calls_in(b2['body']) for c in callee_all(n) if last_seg(c) in ('encode_with_default', 'encode') and 'RawString' in c]
        raw_write = any(n.get('k') == 'mcall' and n.get('name') in ('to_str_with_default', 'to_str', 'as_str') for n in walk(b2['body']))
        rep.check(R, d + '|via-encode', bool(via) and not raw_write, 'writes the stored text through RawString::encode_with_default',
                  f'`{d}` writes decor text without RawString::encode_with_default: carriage returns of a CRLF document survive in this fragment while every other one is normalised', facts.loc(b2))
    # ... and so does the printer itself: nothing in the encoder or in a Display impl takes the text of a RawString out (`as_str`, `to_str`) to write it directly
    n_scanned = 0
    for d, b2 in sorted(facts.bodies.items()):
        if not (d.startswith('toml_edit::encode::') or (d.startswith('<toml_edit::') and ' as core::fmt::Display>::fmt' in d)):
            continue
        n_scanned += 1
        direct = [n for n in walk(b2['body']) if n.get('k') == 'mcall' and n.get('name') in ('as_str', 'to_str', 'to_str_with_default') and 'RawString' in (peel(n['recv']).get('t') or '')]
        if direct:
            rep.bad(R, f'{d}|raw-text-taken-out', f'`{d}` takes the text of a RawString out with `{direct[0]["name"]}` instead of writing it through RawString::encode*: the carriage returns of a '
                    f'CRLF document survive in this fragment while every other one is normalised', facts.loc(b2, direct[0]))
    rep.check(R, 'printer|scanned', n_scanned >= 10, f'{n_scanned} encoder functions / Display impls write raw fragments only through RawString::encode*', f'only {n_scanned} printer functions found')
    exp = {'toml_edit::raw_string::RawString::encode', 'toml_edit::raw_string::RawString::encode_with_default'}
    for d in sorted(set(found) | exp):
        rep.check(R, f'{d}|cr-writer', d in exp and d in found, "splits on '\\r'",
                  f"`{d}` {'removes carriage returns: CR stripping is no longer confined to RawString::encode*' if d not in exp else 'no longer strips carriage returns'}")


def rules(rep, facts):
    global DISPLAY_DOC
    feats = set(facts.crates.get('toml_edit', {}).get('features', []))
    if 'toml_edit' not in facts.crates or not {'parse', 'display'} <= feats:
        rep.notes.append(f'configuration {facts.config}: parser or printer not compiled, rules skipped.')
        return
    DISPLAY_DOC = facts.method('core::fmt::Display', 'toml_edit::document::DocumentMut', 'fmt')
    cg = CallGraph(facts)
    r1_fields(rep, facts, cg)
    r1b_despan_dispatch(rep, facts, cg)
    r1c_key_format(rep, facts)
    r2_order(rep, facts)
    r2b_key_path_decor(rep, facts)
    r3_header_order(rep, facts)
    r1d_initial_state(rep, facts)
    r4_cr(rep, facts)
    R6 = rep.rule('C03/R6', 'every table that has something to print gets its header, and its rows follow it (visit_table evaluated with the writes recorded: explicit / implicit tables holding '
                  'nothing, a value, dotted-key values only or a sub-table only, at the root and under a path, as `[table]` and as `[[table]]` element) — rows printed without their header '
                  'land in another table and the document no longer reads back as itself', floor=30)
    from .shared import visit_table_model
    visit_table_model(rep, R6, facts)
    from .rules_events import r_round_trip
    r_round_trip(rep, facts)
    # R4 reads off the encoder that every stored fragment is written through RawString::encode* (which drops carriage returns).  The CRLF model documents of R7
    # are printed by evaluating the encoder: where they come out with every CR LF turned into LF, a fragment written some other way (a helper that hands the
    # text on, a `to_str` followed by the same filter) is not a finding.
    r7 = {o['key']: o['ok'] for o in rep.rules.get('C03/R7', {}).get('obligations', [])}
    if r7.get('CRLF line endings') and r7.get('mixed LF and CRLF line endings') and not any(v['rule'] == 'C03/R7' and 'CRLF' in v['key'] for v in rep.violations):
        moot = [v for v in rep.violations if v['rule'] == 'C03/R4' and (v['key'].endswith('raw-text-taken-out') or v['key'].endswith('via-encode') or v['key'].endswith('cr-writer'))]
        if moot:
            rep.violations[:] = [v for v in rep.violations if v not in moot]
            if 'C03/R4' in rep.rules:
                rep.rules['C03/R4']['obligations'] = [o for o in rep.rules['C03/R4']['obligations'] if o['ok']]
                rep.rules['C03/R4']['floor'] = None
            rep.notes.append(f'C03/R4 reads the writing of stored fragments off the shape of the encoder and does not recognise {len(moot)} site(s) in this tree ({moot[0]["detail"][:140]}); the CRLF '
                             f'model documents of C03/R7, printed by evaluating the encoder, come out with every CR LF normalised.')


def _witnesses(rep):
    from .witness import report
    report(rep, 'C03/R5', 'type level (compile-fail witnesses): a parsed document is immutable, spans cannot be forged or written from outside', ['w01_imdocument_is_immutable', 'w02_rawstring_span_is_private', 'w07_table_span_is_private'])


def run(tier):
    return run_property(PROP, tier, rules, configs_thorough=['default', 'perf', 'preserve_order', 'unbounded'], extra=_witnesses if tier == 'thorough' else None)
