"""C10 — string and key quoting is exact (decided part: the writer's tables agree
with the reader's: escape tables, unescaped sets, run thresholds, delimiters, totality)."""
import copy
import re

from .core import run_property, AnalysisIncomplete, walk, peel, last_seg, calls_in, callee_all, src_facts
from .den import Evaluator, FxInterp, Interp, Unanalysable, fmt_set, ALL, truth_table
from .abnf import Abnf
from . import parsemodel as pm
from .parsemodel import P, term
from .rules_c01 import cc
from .rules_c02 import value_arg

PROP = 'C10'
W = 'toml_write::string::'
SOME = 'core::option::Option::Some'


def big_byte_match(body, min_arms):
    ms = [n for n in walk(body['body']) if n.get('k') == 'match' and n.get('src') == 'Normal' and len(n['arms']) >= min_arms]
    # the match over the current byte: scrutinee is `*b`
    ms = [m for m in ms if peel(m['scrut']).get('k') == 'path' and (peel(m['scrut']).get('t') or m['scrut'].get('t')) in ('u8', '&u8')]
    if len(ms) != 1:
        raise AnalysisIncomplete(f'{body["def"]}: expected one per-byte match, found {len(ms)}')
    return ms[0]


def local_named(body, prefix):
    for n in walk(body['body']):
        if n.get('k') == 'p_bind' and n['name'].split('#')[0] == prefix:
            return n['name']
    for p in body.get('params', []):
        for n in walk(p):
            if n.get('k') == 'p_bind' and n['name'].split('#')[0] == prefix:
                return n['name']
    raise AnalysisIncomplete(f'{body["def"]}: local `{prefix}` not found')


def parser_escape_table(g):
    """letter -> code point, from the parser's escape_seq_char"""
    t = term(g, 'strings::escape_seq_char')
    disp = pm.find_dispatch(g, t)
    rows, _ = pm.dispatch_table(g, disp)
    out = {}
    for s, arm in rows:
        va = value_arg(arm['p'])
        if va is not None and len(s) == 1:
            try:
                out[next(iter(s))] = g.ev.integer(va)
            except Unanalysable:
                pass
    return out, rows


def writer_tables(facts):
    b = facts.body(W + 'write_toml_value')
    m = big_byte_match(b, 8)
    ev = Evaluator(facts)
    it = FxInterp(ev)
    bvar = peel(m['scrut'])['path']
    is_ml = local_named(b, 'is_ml')
    out = {}
    for ml in (False, True):
        esc = {}
        brk = set()
        for v in range(256):
            a, br = it.effects(m, {bvar: v, is_ml: ml})
            # the pending escape sequence: whichever local the arm assigns `Some("<text>")` to (its name is not relied upon)
            hits = [val for val in a.values() if isinstance(val, tuple) and val[:2] == ('ctor', SOME) and len(val) == 3 and val[2] and isinstance(val[2][0], str)]
            if len(hits) > 1:
                raise Unanalysable(f'several escape texts assigned for byte {v}')
            if hits:
                esc[v] = hits[0][2][0]
            if br:
                brk.add(v)
        out[ml] = (esc, frozenset(brk))
    return b, m, out


def r1_inverse(rep, facts, g, a):
    R = rep.rule('C10/R1', 'the writer\'s escape table is the inverse of the parser\'s: every short escape it writes decodes to the byte '
                 'it stands for, the fallback is \\uXXXX with four upper-case hex digits and the parser\'s `u` takes four', floor=9)
    b, m, tabs = writer_tables(facts)
    loc = facts.loc(b)
    ptab, rows = parser_escape_table(g)
    for ml in (False, True):
        esc, brk = tabs[ml]
        for byte, text in sorted(esc.items()):
            ok = len(text) == 2 and text[0] == '\\' and ptab.get(ord(text[1])) == byte
            rep.check(R, f'{"ml" if ml else "basic"}|byte {byte:#04x}', ok, f'{text!r} decodes to {byte:#04x}',
                      f'byte {byte:#04x} is written as {text!r}, which the parser decodes to '
                      f'{("%#04x" % ptab[ord(text[1])]) if len(text) == 2 and ord(text[1]) in ptab else "an error (unknown escape letter)"}', loc)
    # the fallback format string
    src = src_facts(facts.repo)
    fm = [f for f in src['fmts'] if f['file'].endswith('toml_write/src/string.rs') and f['scope'].endswith('write_toml_value') and '\\\\u' in f['lit']]
    ok = False
    detail = f'{len(fm)} \\u format strings'
    if len(fm) == 1:
        mm = re.search(r'\\\\u\{:0(\d+)([Xx])\}', fm[0]['lit'])
        if mm:
            width, case = int(mm.group(1)), mm.group(2)
            hx = [r for r in rows if ord('u') in r[0]]
            hexes = [x for x in g.subterms(hx[0][1]['p']) if x['op'] in ('ref', 'call') and last_seg(x['fn']) == 'hexescape'] if hx else []
            env_ = g.value_env(hexes[0]) if hexes else {}
            n = env_.get('N') if 'N' in env_ else (list(env_.values())[0] if len(env_) == 1 else None)
            ok = width == n == 4
            detail = f'writer width {width}{case}, parser `u` takes {n}'
    rep.check(R, 'fallback|\\uXXXX', ok, detail, f'the \\u fallback and the parser disagree: {detail}', loc)
    # ... and the parser reads exactly that many digits and no more (the writer puts no terminator after the escape)
    from . import regular as rg
    for n in (4, 8):
        try:
            n1 = rg.NFA()
            ga = rg.GirAutomata(g, {})
            f1 = ga.build_fn(n1, P + 'strings::hexescape', consts={'N': n})
            n2 = rg.NFA()
            aa = rg.AbnfAutomata(a, {})
            f2 = aa.build(n2, aa.expr(f'{n}HEXDIG'))
            w1, w2, _ = rg.compare(n1, f1, n2, f2)
            rep.check(R, f'parser|hexescape::<{n}>', w1 is None and w2 is None, f'accepts exactly {n}HEXDIG',
                      f'hexescape::<{n}> ' + (f'accepts {rg.show_word(w1)}' if w1 is not None else f'refuses {rg.show_word(w2)}' if w2 is not None else '') +
                      f': it does not read exactly {n} hex digits, so `\\u{"X" * n}` followed by a hex digit (as the writer emits for a control character followed by `a`..`f` / `0`..`9`) is not read back', facts.loc(facts.body(P + 'strings::hexescape')))
        except rg.Incomplete as e:
            rep.incomplete(R, f'parser|hexescape::<{n}>', str(e))
    # the fallback is only used for bytes < 0x80 (one byte = one scalar): the bytes that break without a short escape
    for ml in (False, True):
        esc, brk = tabs[ml]
        fb = brk - set(esc)
        rep.check(R, f'{"ml" if ml else "basic"}|fallback-bytes-ascii', all(x < 0x80 for x in fb), f'fallback bytes {fmt_set(fb)}',
                  f'the \\u fallback is taken for non-ASCII bytes {fmt_set({x for x in fb if x >= 0x80})}: a byte of a multi-byte character would be written as its own scalar', loc)


HIGH_SAMPLES = [chr(c) for c in (0x80, 0xE9, 0xFF, 0x7FF, 0x800, 0x20AC, 0xFFFF, 0x10000, 0x1F600, 0x10FFFF)]


def metrics_of(facts, which, s):
    """fields of ValueMetrics / KeyMetrics computed by `calculate` for the string s (the function is evaluated, whatever its shape)"""
    b = facts.body(W + which + '::calculate')
    r = FxInterp(Evaluator(facts)).apply_fn(b, [s])
    if not (isinstance(r, tuple) and len(r) == 3 and r[0] == 'struct' and isinstance(r[2], dict)):
        raise Unanalysable(f'{which}::calculate does not evaluate to a struct')
    return r[2]


def metrics_tables(facts, which):
    """flag name -> bytes whose presence raises it (decided on one-character strings; every byte of a multi-byte sample character that raises it)"""
    b = facts.body(W + which + '::calculate')
    base = metrics_of(facts, which, '')
    flags = {}
    for c in [chr(v) for v in range(128)] + HIGH_SAMPLES:
        m = metrics_of(facts, which, c)
        for name, val in m.items():
            if val != base.get(name) and name != 'unquoted':
                flags.setdefault(name, set()).update(c.encode('utf-8'))
    return b, {k: frozenset(v) for k, v in flags.items()}


def r2_unescaped(rep, facts, g, a):
    R = rep.rule('C10/R2', 'what the writer leaves unescaped the parser accepts unescaped: basic loop bytes within basic-unescaped / '
                 'mlb-unescaped + LF, literal styles only offered for literal-char / mll-char + LF, bare keys exactly unquoted-key characters', floor=8)
    quote = cc(a, 'quotation-mark')
    apos = cc(a, 'apostrophe')
    lf = frozenset([0x0A])
    try:
        b, m, tabs = writer_tables(facts)
        loc = facts.loc(b)
        for ml, allowed, what in ((False, cc(a, 'basic-unescaped'), 'basic-unescaped'), (True, cc(a, 'mlb-unescaped') | lf, 'mlb-unescaped / newline')):
            esc, brk = tabs[ml]
            passed = ALL - brk - quote  # the quote is governed by the run counter (R3)
            extra = passed - allowed
            rep.check(R, f'writer|{"ml" if ml else "basic"}|unescaped-subset', not extra, f'unescaped {fmt_set(passed)} within {what}',
                      f'the {"multi-line " if ml else ""}basic writer leaves bytes {fmt_set(extra)} unescaped, which the parser rejects in {what}', loc)
    except (AnalysisIncomplete, Unanalysable, KeyError, IndexError, TypeError, StopIteration) as e:
        rep.incomplete(R, 'writer|shape', f'the writer does not have the shape this part of the rule reads ({type(e).__name__}: {e})')
    # literal styles: ValueMetrics
    vb, vflags = metrics_tables(facts, 'ValueMetrics')
    vloc = facts.loc(vb)
    esc_codes = vflags.get('escape_codes', frozenset())
    newline = vflags.get('newline', frozenset())
    rep.check(R, 'ValueMetrics|newline-flag', newline == lf, fmt_set(newline), f'the newline flag is raised for {fmt_set(newline)}, expected exactly LF', vloc)
    lit_ok = ALL - esc_codes - apos - newline
    extra = lit_ok - cc(a, 'literal-char')
    rep.check(R, 'ValueMetrics|literal-subset', not extra, 'bytes that do not make as_literal refuse lie within literal-char',
              f'as_literal is offered for strings containing {fmt_set(extra)}, which the parser rejects inside a literal string', vloc)
    mll_ok = ALL - esc_codes
    extra = mll_ok - (cc(a, 'mll-char') | lf | apos)
    rep.check(R, 'ValueMetrics|ml-literal-subset', not extra, 'bytes that do not make as_ml_literal refuse lie within mll-char / newline / apostrophe runs',
              f'as_ml_literal is offered for strings containing {fmt_set(extra)}, which the parser rejects inside a multi-line literal string', vloc)
    rep.check(R, 'ValueMetrics|escape-flag', vflags.get('escape') == cc(a, 'escape'), 'backslash sets `escape`', f'`escape` is raised for {fmt_set(vflags.get("escape", frozenset()))}', vloc)
    # keys
    kb, kflags = metrics_tables(facts, 'KeyMetrics')
    kloc = facts.loc(kb)
    kesc = kflags.get('escape_codes', frozenset())
    klit_ok = ALL - kesc - kflags.get('single_quotes', frozenset())
    extra = klit_ok - cc(a, 'literal-char')
    rep.check(R, 'KeyMetrics|literal-subset', not extra, 'literal keys only for literal-char',
              f'a literal key is offered for keys containing {fmt_set(extra)} (LF must count as needing an escape code)', kloc)
    rep.check(R, 'KeyMetrics|quote-flags', kflags.get('single_quotes') == apos and kflags.get('double_quotes') == quote and kflags.get('escape') == cc(a, 'escape'),
              'quote / backslash flags', f'key flags: {[(k, fmt_set(v)) for k, v in kflags.items()]}', kloc)
    # bare keys: decided on the value of `unquoted` for one-character keys, the empty key and two-character combinations
    from .rules_c01 import rep_elem_class
    exp = rep_elem_class(a, 'unquoted-key')
    unq = None
    try:
        unq = frozenset(v for v in range(128) if metrics_of(facts, 'KeyMetrics', chr(v))['unquoted'] is True)
        high = [c for c in HIGH_SAMPLES if metrics_of(facts, 'KeyMetrics', c)['unquoted'] is not False]
        if high:
            unq = unq | frozenset(x for c in high for x in c.encode('utf-8'))
        pairs_bad = []
        for x in ('a', '-', '_', '9', ' ', '.', '\u00e9', '"'):
            for y in ('Z', '0', ' ', '\n', "'"):
                want = all(ord(ch) in exp for ch in x + y)
                if (metrics_of(facts, 'KeyMetrics', x + y)['unquoted'] is True) != want:
                    pairs_bad.append(x + y)
        empty = metrics_of(facts, 'KeyMetrics', '')['unquoted'] is False
    except Unanalysable as e:
        rep.incomplete(R, 'KeyMetrics|unquoted-class', str(e), kloc)
        return
    rep.check(R, 'KeyMetrics|unquoted-class', unq == exp and not pairs_bad, fmt_set(unq),
              f'bare keys are offered for characters {fmt_set(unq)}' + (f' (and for the keys {pairs_bad[:4]!r})' if pairs_bad else '') + f', the parser takes {fmt_set(exp)}', kloc)
    rep.check(R, 'KeyMetrics|empty-not-bare', empty, 'the empty key is not bare', 'the empty key may be written bare (1*( unquoted-key-char ) requires one character)', kloc)


def subst_metrics(e):
    """self.metrics.X -> local X"""
    e = copy.deepcopy(e)

    def rec(n):
        if isinstance(n, dict):
            if n.get('k') == 'field' and peel(n.get('base', {})).get('k') == 'field' and peel(n['base']).get('name') == 'metrics':
                name = n['name']
                n.clear()
                n.update({'k': 'path', 'res': 'Local', 'path': name})
                return
            for v in list(n.values()):
                rec(v)
        elif isinstance(n, list):
            for v in n:
                rec(v)
    rec(e)
    return e


METRIC_FLAGS = ('escape_codes', 'escape', 'newline')


def refuse_table(facts, d, run_field):
    """Evaluates the whole builder method (whatever its syntactic form: if / bool::then / named locals / helper calls) for every combination of
    one run length 0..4 and the boolean metrics; returns (body, run lengths refused with all flags clear, flags that make it refuse at run 0,
    whether `offered == (run not refused) and no refusing flag set` holds for every combination)."""
    import itertools
    b = facts.body(d)
    it = Interp(Evaluator(facts))
    params = [p for p in b.get('params', []) if p.get('k') == 'p_bind']
    if not params:
        raise AnalysisIncomplete(f'{d}: no self parameter')
    me = params[0]['name']

    def offered(run, flags):
        metrics = {'max_seq_single_quotes': 0, 'max_seq_double_quotes': 0, 'unquoted': False, 'single_quotes': False, 'double_quotes': False}
        metrics.update({f: False for f in METRIC_FLAGS})
        metrics[run_field] = run
        metrics.update(flags)
        selfv = ('struct', 'Builder', {'decoded': 'text', 'metrics': ('struct', 'Metrics', metrics)})
        r = it.run(b['body'], {me: selfv})
        if isinstance(r, tuple) and r and r[0] == 'ctor' and r[1].endswith('Option::Some'):
            return True
        if isinstance(r, tuple) and r and r[0] == 'ctor' and r[1].endswith('Option::None'):
            return False
        raise Unanalysable(f'{last_seg(d)} evaluates to {r!r}')
    none = {f: False for f in METRIC_FLAGS}
    refused = {r for r in range(5) if not offered(r, none)}
    flags = {f for f in METRIC_FLAGS if not offered(0, dict(none, **{f: True}))}
    consistent = True
    for r in range(5):
        for combo in itertools.product((False, True), repeat=len(METRIC_FLAGS)):
            fl = dict(zip(METRIC_FLAGS, combo))
            want = (r not in refused) and not any(fl[f] for f in flags)
            if offered(r, fl) != want:
                consistent = False
    return b, refused, flags, consistent


def r3_thresholds(rep, facts, a):
    R = rep.rule('C10/R3', 'quote-run thresholds equal the grammar: a single-line style tolerates no quote of its kind, a multi-line style '
                 'runs of at most 2 (mlb-quotes / mll-quotes = 1*2), and the escaping loop allows the same', floor=6)
    hi_b = a.rep_bounds('mlb-quotes')[1]
    hi_l = a.rep_bounds('mll-quotes')[1]
    for d, field, maxrun, flags in ((W + "TomlStringBuilder::<'s>::as_literal", 'max_seq_single_quotes', 0, {'escape_codes', 'newline'}),
                                    (W + "TomlStringBuilder::<'s>::as_ml_literal", 'max_seq_single_quotes', hi_l, {'escape_codes'}),
                                    (W + "TomlStringBuilder::<'s>::as_basic_pretty", 'max_seq_double_quotes', 0, {'escape_codes', 'escape', 'newline'}),
                                    (W + "TomlStringBuilder::<'s>::as_ml_basic_pretty", 'max_seq_double_quotes', hi_b, {'escape_codes', 'escape'})):
        try:
            b, refused, fl, consistent = refuse_table(facts, d, field)
        except (Unanalysable, KeyError, AnalysisIncomplete) as e:
            rep.incomplete(R, d, f'cannot tabulate: {e}')
            continue
        exp = {r for r in range(5) if r > maxrun}
        rep.check(R, last_seg(d) + '|run-threshold', refused == exp, f'refuses runs of {sorted(exp)}', f'`{last_seg(d)}` refuses quote runs of length {sorted(refused)}, '
                  f'expected {sorted(exp)} (a run of {maxrun + 1} would end the string early)', facts.loc(b))
        rep.check(R, last_seg(d) + '|flags', fl == flags and consistent, f'also refuses on {sorted(fl)}',
                  f'`{last_seg(d)}` refuses on metrics {sorted(fl)}, expected {sorted(flags)}' + ('' if consistent else ' (and the run length and the flags are not combined as a plain disjunction)'), facts.loc(b))
    # (how the escaping loop treats quote runs is decided by R9 on the text it writes for runs of 1..6 quotes in both basic styles)


def r4_delimiters(rep, facts, a):
    R = rep.rule('C10/R4', 'delimiter / escaped / multi-line tables of the encodings equal the parser\'s delimiters', floor=4)
    b = facts.body(W + 'write_toml_value')
    it = Interp(Evaluator(facts))
    enc = local_named(b, 'encoding')
    E = 'toml_write::string::Encoding::'
    vals = {'LiteralString': ('ctor', SOME, (('ctor', E + 'LiteralString'),)), 'BasicString': ('ctor', SOME, (('ctor', E + 'BasicString'),)),
            'MlLiteralString': ('ctor', SOME, (('ctor', E + 'MlLiteralString'),)), 'MlBasicString': ('ctor', SOME, (('ctor', E + 'MlBasicString'),)),
            'None': ('ctor', 'core::option::Option::None')}
    want = {
        'delimiter': {'LiteralString': a.literal('apostrophe').decode(), 'BasicString': a.literal('quotation-mark').decode(),
                      'MlLiteralString': a.literal('ml-literal-string-delim').decode(), 'MlBasicString': a.literal('ml-basic-string-delim').decode(), 'None': ''},
        'escaped': {'LiteralString': False, 'BasicString': True, 'MlLiteralString': False, 'MlBasicString': True, 'None': False},
        'is_ml': {'LiteralString': False, 'BasicString': False, 'MlLiteralString': True, 'MlBasicString': True, 'None': False},
    }
    def prefix_env(env0):
        """evaluate the statements of write_toml_value in order until the first one the evaluator cannot follow (the writing loop);
        returns {local base name: value}"""
        fx = FxInterp(Evaluator(facts))
        env = dict(env0)
        env['@assign'] = {}
        env['@break'] = False
        for st in b['body'].get('stmts', []):
            try:
                fx.val(st, env)
            except Exception:
                break
        return {k.split('#')[0].split('~')[0]: v for k, v in env.items() if isinstance(k, str) and not k.startswith('@')}
    tables = {}
    try:
        for k, v in vals.items():
            tables[k] = prefix_env({enc: v})
    except Unanalysable as e:
        tables = None
    for name, exp in want.items():
        if tables is None or any(name not in tables[k] for k in vals):
            rep.incomplete(R, f'write_toml_value|{name}', f'cannot tabulate `{name}` (no local of that name is computed before the writing loop)', facts.loc(b))
            continue
        got = {k: tables[k][name] for k in vals}
        rep.check(R, f'write_toml_value|{name}', got == exp, str(got), f'`{name}` table is {got}, expected {exp}', facts.loc(b))
    ok = False
    try:
        nl = local_named(b, 'newline')
        ok = True
        for x in (False, True):
            for k, v in vals.items():
                envx = prefix_env({enc: v, nl: x})
                if envx.get('newline_prefix') != (x and want['is_ml'][k]):
                    ok = False
    except (Unanalysable, KeyError, StopIteration):
        ok = False
    rep.check(R, 'write_toml_value|newline_prefix', ok, 'newline && is_ml', 'the leading newline is not written exactly for multi-line styles of strings containing a newline', facts.loc(b))


def r5_totality(rep, facts, a):
    R = rep.rule('C10/R5', 'a default style exists for every string: as_default / as_basic / as_ml_basic return non-Option types and every '
                 'or_else chain ends in one of them', floor=5)
    for d, ret in ((W + "TomlStringBuilder::<'s>::as_default", "toml_write::string::TomlString<'s>"), (W + "TomlStringBuilder::<'s>::as_basic", "toml_write::string::TomlString<'s>"),
                   (W + "TomlStringBuilder::<'s>::as_ml_basic", "toml_write::string::TomlString<'s>"), (W + "TomlKeyBuilder::<'s>::as_default", "toml_write::string::TomlKey<'s>"),
                   (W + "TomlKeyBuilder::<'s>::as_basic", "toml_write::string::TomlKey<'s>")):
        f = facts.fns.get(d)
        if not f:
            rep.incomplete(R, d, 'not found')
            continue
        rep.check(R, last_seg(d.split('::<')[0]) + '::' + last_seg(d) + '|non-optional', f['output'] == ret, f['output'], f'`{d}` returns `{f["output"]}`', f"{facts.rel(f['file'])}:{f['line']}")
    # the default style of every sample string / key is one the grammar accepts for it: decided by evaluating `new(s).as_default()` (whatever
    # the shape of the chain) on strings made of the characters that matter to a style, and judging the chosen style against the ABNF classes
    from .den import EvalPanic
    from .rules_c01 import rep_elem_class
    pieces = ['a', "'", "''", "'" * 3, '"', '"' * 3, '\\', '\n', '\x01', '\t', ' ', 'é', '\x7f', '-', '\r']
    samples = [''] + pieces + [x + y for x in pieces for y in pieces]
    lit = cc(a, 'literal-char')
    bare = rep_elem_class(a, 'unquoted-key')

    def fits(enc, text, key):
        bs = text.encode('utf-8')
        if enc is None:
            return bool(bs) and all(x in bare for x in bs)
        if enc.endswith('MlLiteralString'):
            return all(x in lit or x in (0x27, 0x0A) for x in bs) and "'" * 3 not in text and not key
        if enc.endswith('LiteralString'):
            return all(x in lit for x in bs)
        if enc.endswith('MlBasicString'):
            return not key
        return enc.endswith('BasicString')
    for B, key in (("TomlStringBuilder::<'s>", False), ("TomlKeyBuilder::<'s>", True)):
        bn, bd = facts.body(W + B + '::new'), facts.body(W + B + '::as_default')
        bad = []
        n_ok = 0
        label = B.split('::<')[0]
        try:
            for text in samples:
                it = FxInterp(Evaluator(facts))
                try:
                    r = it.apply_fn(bd, [it.apply_fn(bn, [text])])
                except EvalPanic as ex:
                    bad.append(f'{text!r}: panics ({ex})')
                    continue
                if not (isinstance(r, tuple) and len(r) == 3 and r[0] == 'struct' and 'encoding' in r[2]):
                    bad.append(f'{text!r}: no style ({r!r})')
                    continue
                enc = r[2]['encoding']
                if isinstance(enc, tuple) and enc[0] == 'ctor' and enc[1].endswith('Option::None'):
                    enc = None
                elif isinstance(enc, tuple) and enc[0] == 'ctor' and enc[1].endswith('Option::Some'):
                    enc = enc[2][0][1]
                elif isinstance(enc, tuple) and enc[0] == 'ctor':
                    enc = enc[1]
                if r[2].get('decoded', text) != text:
                    bad.append(f'{text!r}: the style carries another text ({r[2].get("decoded")!r})')
                elif not fits(enc, text, key):
                    bad.append(f'{text!r}: written {"bare" if enc is None else "as " + last_seg(enc)}, which the grammar does not accept for it')
                else:
                    n_ok += 1
        except Unanalysable as ex:
            rep.incomplete(R, label + '::as_default|default-style-fits', f'cannot evaluate: {ex}', facts.loc(bd))
            continue
        rep.check(R, label + '::as_default|default-style-fits', not bad and n_ok == len(samples), f'{n_ok} sample texts: a style is chosen and the grammar accepts the text in it',
                  f'the default style of `{label}`: ' + '; '.join(bad[:4]), facts.loc(bd))


def toml_decode_string(text):
    """the string a TOML 1.0.0 string literal denotes (section `String` of the specification), or None if `text` is not of one of the four forms.
    Written from the specification, not from the repository's parser."""
    def unescape(body, multiline):
        out = []
        i = 0
        while i < len(body):
            c = body[i]
            if c != '\\':
                out.append(c)
                i += 1
                continue
            n = body[i + 1:i + 2]
            simple = {'b': '\b', 't': '\t', 'n': '\n', 'f': '\f', 'r': '\r', '"': '"', '\\': '\\'}
            if n in simple:
                out.append(simple[n])
                i += 2
            elif n == 'u' or n == 'U':
                w = 4 if n == 'u' else 8
                hx = body[i + 2:i + 2 + w]
                if len(hx) != w or any(ch not in '0123456789abcdefABCDEF' for ch in hx):
                    return None
                cp = int(hx, 16)
                if cp > 0x10FFFF or 0xD800 <= cp <= 0xDFFF:
                    return None
                out.append(chr(cp))
                i += 2 + w
            elif multiline:
                # line-ending backslash: `\` ws* newline, then all whitespace and newlines are trimmed
                j = i + 1
                while j < len(body) and body[j] in ' \t':
                    j += 1
                if body[j:j + 1] == '\n' or body[j:j + 2] == '\r\n':
                    while j < len(body) and body[j] in ' \t\r\n':
                        j += 1
                    i = j
                else:
                    return None
            else:
                return None
        return ''.join(out)
    for delim, ml, esc in (('"""', True, True), ("'" * 3, True, False), ('"', False, True), ("'", False, False)):
        if text.startswith(delim) and text.endswith(delim) and len(text) >= 2 * len(delim):
            body = text[len(delim):len(text) - len(delim)]
            if ml:
                if body.startswith('\r\n'):
                    body = body[2:]
                elif body.startswith('\n'):
                    body = body[1:]
            return unescape(body, ml) if esc else body
    return None


def writer_progress(facts):
    """problems (panics, loops that go round without shortening what they work on) met while evaluating the escaping writer on every one-byte ASCII string,
    multi-byte characters and pairs of the characters that matter, in both basic styles: [] when there are none.  (number of runs, problems)"""
    from .den import RecInterp, EvalPanic
    b = facts.body(W + 'write_toml_value')
    E = 'toml_write::string::Encoding::'
    pieces = ['a', '"', '""', '"' * 3, '\\', '\n', '\x01', '\x7f', '\u00e9', '\U0001F600', '\r']
    samples = [''] + [chr(c) for c in range(128)] + [x + y for x in pieces for y in pieces]
    problems = []
    n = 0
    for text in samples:
        for enc in ('BasicString', 'MlBasicString', 'LiteralString', 'MlLiteralString'):
            rec = RecInterp(Evaluator(facts), {'write_str'})
            rec.watch_progress = True
            n += 1
            try:
                rec.apply_fn(b, [text, ('ctor', SOME, (('ctor', E + enc),)), False, ('opaque',)])
            except EvalPanic as ex:
                problems.append(f'{text!r} as {enc}: {ex}')
    return n, problems


def r9_written_text(rep, facts, a):
    R = rep.rule('C10/R9', 'what is written reads back: for sample strings and keys, every style the builders offer is evaluated down to the text the writer emits '
                 '(builder -> style -> write_toml_value / write_toml_key, with the writes recorded); that text must be a `string` resp. `simple-key` of the ABNF '
                 'and must denote the sample under the specification\'s decoding rules (a decoder written from the specification, independent of the parser)', floor=4)
    from .den import RecInterp, EvalPanic
    from . import regular as rg
    aa = rg.AbnfAutomata(a, {})
    autos = {}

    def member(rule, text):
        if rule not in autos:
            n = rg.NFA()
            autos[rule] = (n, aa.build(n, rule, root=True))
        n, f = autos[rule]
        return rg.accepts(n, f, text.encode('utf-8'))
    pieces = ['a', "'", "''", "'" * 3, '"', '""', '"' * 3, '\\', '\n', '\r\n', '\x01', '\t', ' ', 'é', '\x7f', '-', '\r', 'u0041', ' ', '😀']
    samples = [''] + [chr(c) for c in range(128) if chr(c) not in pieces] + ['\x80', '\xff', '\u2028', '\ufeff', 'x\x1by', 'x\x00'] + pieces + [x + y for x in pieces for y in pieces] + ['a' + x + 'b' + y for x in ("'" * 3, '"' * 3, '\\', '\n') for y in ("'", '"', '\\', '\n', '')]
    plan = (("TomlStringBuilder::<'s>", ('as_default', 'as_literal', 'as_ml_literal', 'as_basic_pretty', 'as_ml_basic_pretty', 'as_basic', 'as_ml_basic'), 'string',
             [d for d in facts.bodies if d.endswith('::write_toml_value') and 'TomlString<' in d]),
            ("TomlKeyBuilder::<'s>", ('as_default', 'as_unquoted', 'as_literal', 'as_basic_pretty', 'as_basic'), 'simple-key',
             [d for d in facts.bodies if d.endswith('::write_toml_key') and 'TomlKey<' in d]))
    for B, methods, rule, writers in plan:
        label = B.split('::<')[0]
        if len(writers) != 1 or not facts.has_body(W + B + '::new'):
            rep.incomplete(R, label, f'writer impl or builder of `{label}` not found')
            continue
        bn, bw = facts.body(W + B + '::new'), facts.body(writers[0])
        bad = []
        n_written = 0
        offered = {m: 0 for m in methods}
        try:
            for text in samples:
                it = FxInterp(Evaluator(facts))
                builder = it.apply_fn(bn, [text])
                for m in methods:
                    d = W + B + '::' + m
                    if not facts.has_body(d):
                        continue
                    try:
                        r = FxInterp(Evaluator(facts)).apply_fn(facts.body(d), [builder])
                    except EvalPanic as ex:
                        bad.append(f'{m}({text!r}) panics: {ex}')
                        continue
                    if isinstance(r, tuple) and r[:2] == ('ctor', 'core::option::Option::None'):
                        continue
                    style = r[2][0] if isinstance(r, tuple) and r[:2] == ('ctor', SOME) else r
                    if not (isinstance(style, tuple) and len(style) == 3 and style[0] == 'struct'):
                        raise Unanalysable(f'{m} evaluates to {r!r:.60}')
                    rec = RecInterp(Evaluator(facts), {'write_str'})
                    rec.watch_progress = True
                    try:
                        rec.apply_fn(bw, [style, ('opaque',)])
                    except EvalPanic as ex:
                        bad.append(f'writing {text!r} as {m} panics: {ex}')
                        continue
                    out = ''.join(x[0] for nm, x in rec.calls if nm == 'write_str')
                    offered[m] += 1
                    n_written += 1
                    if not member(rule, out):
                        bad.append(f'{m}({text!r}) is written {out!r}, which is not a `{rule}` of the grammar')
                        continue
                    back = out if (rule == 'simple-key' and not out[:1] in ('"', "'")) else toml_decode_string(out)
                    if back != text:
                        bad.append(f'{m}({text!r}) is written {out!r}, which reads back as {back!r}')
        except Unanalysable as ex:
            rep.incomplete(R, label, f'cannot evaluate the writer of `{label}`: {ex}', facts.loc(bw))
            continue
        rep.check(R, label + '|reads-back', not bad, f'{n_written} written texts of {len(samples)} samples are grammatical and denote the sample ({offered})',
                  f'`{label}`: ' + '; '.join(bad[:3]) + (f' (+{len(bad) - 3} more)' if len(bad) > 3 else ''), facts.loc(bw))
        total = [m for m in methods if m in ('as_default', 'as_basic', 'as_ml_basic') and offered[m] != len(samples)]
        rep.check(R, label + '|total-styles', not total, 'as_default / as_basic (/ as_ml_basic) exist for every sample', f'`{label}`: {total} refuse some samples ({offered})', facts.loc(bn))


def r6_delegation(rep, facts):
    R = rep.rule('C10/R6', 'toml_edit\'s default representations of strings and keys delegate to these builders', floor=2)
    targets = {'String': ('TomlStringBuilder', 'as_default'), 'Key': ('TomlKeyBuilder', 'as_default')}
    d1 = None
    for imp in facts.impls:
        if imp.get('trait') == 'toml_edit::repr::ValueRepr' and imp.get('self_ty') == 'alloc::string::String':
            d1 = imp['items'][0]['def']
    for label, d in (('ValueRepr for String::to_repr', d1), ('Key::default_repr', 'toml_edit::key::Key::default_repr')):
        if not d or not facts.has_body(d):
            rep.incomplete(R, label, 'not found')
            continue
        b = facts.body(d)
        names = {n.get('name') for n in walk(b['body']) if n.get('k') == 'mcall'}
        paths = {last_seg((peel(n.get('f', {})).get('path') or '').rsplit('::', 1)[0].split('::<')[0]) for n in walk(b['body']) if n.get('k') == 'call'}
        bld = 'TomlStringBuilder' if 'String' in label else 'TomlKeyBuilder'
        rep.check(R, label, 'as_default' in names and bld in paths, f'{bld}::new(..).as_default()', f'`{label}` no longer goes through {bld}::as_default (calls {sorted(names)})', facts.loc(b))


def r6b_display_repr(rep, facts):
    R = rep.rule('C10/R6b', 'the text shown for a value or key is its stored spelling when the text is at hand, and the default style otherwise — never nothing: '
                 'Formatted::display_repr and Key::display_repr evaluated on the four states of the stored representation (none; text kept; only a span into a '
                 'source that is not at hand, as in an ImDocument; the empty text)', floor=6)
    from .den import RecInterp, EvalPanic
    RS = 'toml_edit::raw_string::RawStringInner::'
    SOME_, NONE_ = 'core::option::Option::Some', 'core::option::Option::None'

    def repr_of(inner):
        return ('struct', 'toml_edit::repr::Repr', {'raw_value': ('struct', 'toml_edit::raw_string::RawString', {'0': inner})})
    text = lambda t: ('ctor', RS + 'Explicit', (('struct', 'toml_edit::internal_string::InternalString', {'0': t}),))
    states = (('no representation', ('ctor', NONE_), 'DEFAULT'),
              ('the written text', ('ctor', SOME_, (repr_of(text('WRITTEN')),)), 'WRITTEN'),
              ('a span only', ('ctor', SOME_, (repr_of(('ctor', RS + 'Spanned', (('range', 3, 9),))),)), 'DEFAULT'))
    for d in [x for x in sorted(facts.bodies) if x.endswith('::display_repr') and ('Formatted' in x or x.endswith('key::Key::display_repr'))]:
        b = facts.body(d)
        label = d.split('::')[-2].split('<')[0] if 'Formatted' not in d else 'Formatted'
        for name, stored, want in states:
            it = RecInterp(Evaluator(facts), set(), stubs={'default_repr': repr_of(text('DEFAULT'))})
            try:
                r = it.apply_fn(b, [('struct', 'node', {'repr': stored, 'value': 'v', 'key': 'k'})])
            except EvalPanic as ex:
                rep.bad(R, f'{label}|{name}', f'`{d}` panics for a node holding {name}: {ex}', facts.loc(b))
                continue
            except Unanalysable as ex:
                rep.incomplete(R, f'{label}|{name}', f'cannot evaluate `{d}`: {ex}', facts.loc(b))
                continue
            got = r[2][0] if isinstance(r, tuple) and len(r) == 3 and r[0] == 'ctor' and 'Cow::' in r[1] else r
            rep.check(R, f'{label}|{name}', got == want, f'{got!r}', f'`{d}` shows {got!r} for a node holding {name}, expected the {"stored spelling" if want == "WRITTEN" else "default style"}: '
                      f'the value is printed as another (or no) token', facts.loc(b))


def r7_run_metric(rep, facts):
    R = rep.rule('C10/R7', 'the quote-run metrics are running maxima: tabulating one iteration of ValueMetrics::calculate over every byte and '
                 'representative (current run, maximum so far) pairs, the run counter is run+1 (saturating) on the quote and 0 otherwise, and the '
                 'maximum becomes max(maximum, new run) — the thresholds that refuse the literal / multi-line styles test the longest run, not the last', floor=4)
    b = facts.body(W + 'ValueMetrics::calculate')
    loops = [n for n in walk(b['body']) if n.get('k') == 'loop']
    if len(loops) != 1:
        rep.incomplete(R, 'ValueMetrics::calculate|loop', f'{len(loops)} loops found, expected the one over the bytes')
        return
    m = [n for n in walk(loops[0]) if n.get('k') == 'match' and 'ForLoop' in (n.get('src') or '')]
    arm = [a for a in m[0]['arms'] if (a['pat'].get('path') or '').endswith('Some')][0] if m else None
    if arm is None:
        rep.incomplete(R, 'ValueMetrics::calculate|for', 'for-loop over the bytes not found')
        return
    bv = [x for x in walk(arm['pat']) if x.get('k') == 'p_bind'][0]['name']
    locs = {}
    for n in walk(b['body']):
        if n.get('k') == 'let' and n['pat'].get('k') == 'p_bind' and 'init' in n and (n['pat'].get('t') or '') in ('u8', 'u16', 'u32', 'usize', 'u64'):
            locs[n['pat']['name'].split('#')[0]] = (n['pat']['name'], n['pat']['t'])
    it = FxInterp(Evaluator(facts))
    loc = facts.loc(b)
    for quote, run_name, max_name in ((0x27, 'prev_single_quotes', 'max_seq_single_quotes'), (0x22, 'prev_double_quotes', 'max_seq_double_quotes')):
        if run_name not in locs:
            rep.incomplete(R, f'{run_name}|present', f'run counter `{run_name}` not found')
            continue
        var, ty = locs[run_name]
        top = {'u8': 255, 'u16': 65535}.get(ty, 2 ** 32)
        other = [v for k, (v, _) in locs.items() if k != run_name]
        bad_run = bad_max = None
        n_eval = 0
        try:
            for byte in range(256):
                for run in (0, 1, 2, 3, top - 1, top):
                    for mx in sorted({run, run + 1 if run < top else run, 2, 3, top}):
                        if mx < run:
                            continue
                        env = {bv: byte, var: run, '.' + max_name: mx}
                        for o in other:
                            env[o] = 0
                        for f_ in ('max_seq_single_quotes', 'max_seq_double_quotes'):
                            env.setdefault('.' + f_, 0)
                        a, _ = it.effects(arm['body'], env)
                        n_eval += 1
                        new_run = a.get(run_name, run)
                        new_max = a.get(max_name, mx)
                        want_run = min(run + 1, top) if byte == quote else 0
                        if new_run != want_run and bad_run is None:
                            bad_run = (byte, run, new_run, want_run)
                        if new_max != max(mx, want_run) and bad_max is None:
                            bad_max = (byte, run, mx, new_max, max(mx, want_run))
        except Unanalysable as e:
            rep.incomplete(R, f'{run_name}|tabulate', str(e))
            continue
        rep.check(R, f'{run_name}|run-counter', bad_run is None, f'{n_eval} (byte, run, max) cases',
                  f'run counter `{run_name}`: on byte {bad_run[0]:#04x} with run {bad_run[1]} it becomes {bad_run[2]}, expected {bad_run[3]}' if bad_run else '', loc)
        rep.check(R, f'{max_name}|running-maximum', bad_max is None, 'max(maximum, new run)',
                  (f'`{max_name}` is not the running maximum: on byte {bad_max[0]:#04x} with run {bad_max[1]} and maximum {bad_max[2]} it becomes {bad_max[3]}, expected {bad_max[4]} '
                   f'(a long run followed by a shorter one is forgotten, so a literal style is offered for text containing its own delimiter)') if bad_max else '', loc)


# rules that read the *shape* of write_toml_value / the metrics loop (one `match` over the byte, named run counters).  R9 decides the same questions on the
# text that is written; when it holds for every sample, a shape these rules do not recognise is a note, not a failure (a shape they do recognise and
# find wrong is still a violation)
SHAPE_RULES = ('C10/R1', 'C10/R2', 'C10/R4', 'C10/R7')


def _shape(rep, fn, rid, *args):
    try:
        fn(rep, *args)
    except (AnalysisIncomplete, Unanalysable, KeyError, IndexError, TypeError, StopIteration) as e:
        rep.incomplete(rid, 'shape', f'the writer does not have the shape this rule reads ({type(e).__name__}: {e})')


def rules(rep, facts):
    if 'toml_write' not in facts.crates:
        return
    a = Abnf()
    r3_thresholds(rep, facts, a)
    _shape(rep, r4_delimiters, 'C10/R4', facts, a)
    r5_totality(rep, facts, a)
    r9_written_text(rep, facts, a)
    r10_writer_impls(rep, facts)
    _shape(rep, r7_run_metric, 'C10/R7', facts)
    feats = set(facts.crates.get('toml_edit', {}).get('features', []))
    if 'toml_edit' in facts.crates and {'parse', 'display'} <= feats:
        g = pm.model(facts)
        _shape(rep, r1_inverse, 'C10/R1', facts, g, a)
        r2_unescaped(rep, facts, g, a)
        r6_delegation(rep, facts)
        r6b_display_repr(rep, facts)
        r11_key_display(rep, facts)
        # the reader side of every style: the string parsers accept exactly the ABNF string rules (shared with C01/R10)
        from .rules_c01 import r10_regular_language
        r10_regular_language(rep, g, a, only_prefix='strings::', rid='C10/R8')
    else:
        rep.notes.append(f'configuration {facts.config}: parser not compiled, reader-side comparisons skipped.')
    r9 = rep.rules.get('C10/R9', {}).get('obligations', [])
    if r9 and all(o['ok'] for o in r9):
        for rid in SHAPE_RULES:
            gone = [v for v in rep.violations if v['rule'] == rid and v['kind'] == 'analysis-incomplete']
            if gone:
                rep.violations[:] = [v for v in rep.violations if v not in gone]
                if rid in rep.rules:
                    rep.rules[rid]['floor'] = None
                    rep.rules[rid]['obligations'] = [o for o in rep.rules[rid]['obligations'] if o['ok']]
                rep.notes.append(f'{rid} reads the shape of the escaping writer / metrics loop and does not recognise it in this tree ({gone[0]["detail"][:160]}); '
                                 f'the question is decided by C10/R9 on the written text.')


def _witnesses(rep):
    from .witness import report
    report(rep, 'C10/R5b', 'type level (compile-fail witnesses): default styles are total, optional styles may refuse', ['w05_default_string_style_is_total', 'w06_default_key_style_is_total', 'w08_literal_style_may_refuse'])


def run(tier):
    return run_property(PROP, tier, rules, configs_thorough=['default', 'perf', 'write_nodefault', 'write_alloc', 'edit_display'], extra=_witnesses if tier == 'thorough' else None)


def r10_writer_impls(rep, facts):
    """every impl of the writer traits evaluated on sample values, the text read back by an independent decoder"""
    import tomllib
    from .den import Evaluator, Unanalysable, EvalPanic, VecObj
    from .places import MapObj
    from .printdrive import PrintInterp
    R = rep.rule('C10/R10', 'whatever type a string reaches the writer in, it is written as a string: every impl of WriteTomlValue / WriteTomlKey for a text type (str, String, Cow<str>), for a '
                 'sequence or a map of them, and for bool is evaluated on sample values (bare-looking words, `true`, `123`, `inf`, a date, quotes, a newline, the empty string) with the writes '
                 'recorded; `v = <text>` resp. `<text> = 1` must be valid TOML that decodes (Python\'s tomllib) to the sample', floor=40)
    S = ['hello', 'true', '123', 'inf', '1979-05-27', 'two words', 'quote " inside', "it's", '', 'line\nbreak', 'a.b', 'é']
    TEXT = ('str', 'alloc::string::String', "alloc::borrow::Cow<'_, str>")
    n = 0
    for imp in facts.impls:
        tr = imp.get('trait') or ''
        if tr not in ('toml_write::value::WriteTomlValue', 'toml_write::key::WriteTomlKey'):
            continue
        st = imp.get('self_ty') or ''
        is_key = tr.endswith('WriteTomlKey')
        d = facts.impl_method(imp, 'write_toml_key' if is_key else 'write_toml_value')
        if not d or not facts.has_body(d):
            continue
        if st in TEXT:
            samples = [(s, s) for s in S]
        elif st == 'bool' and not is_key:
            samples = [(True, True), (False, False)]
        elif st in ('[V]', 'alloc::vec::Vec<V>') and not is_key:
            samples = [(VecObj(list(S[:6])), list(S[:6])), (VecObj([]), [])]
        elif st.startswith('alloc::collections::btree::map::BTreeMap') and not is_key:
            samples = [(MapObj([(s, s) for s in S[:8]], sorted_=True), {s: s for s in S[:8]}), (MapObj([], sorted_=True), {})]
        else:
            continue
        b = facts.body(d)
        for val, want in samples:
            key = f'{"key" if is_key else "value"} of {st}|{want!r:.40}'
            try:
                it = PrintInterp(Evaluator(facts))
                it.apply_fn(b, [val, ('writer',)])
                text = it.text()
            except EvalPanic as ex:
                rep.bad(R, key, f'`{d}` panics on {want!r:.60}: {ex}', facts.loc(b))
                continue
            except (Unanalysable, TypeError, KeyError, IndexError, AttributeError, ValueError) as ex:
                rep.incomplete(R, key, f'cannot evaluate `{d}` on {want!r:.60}: {type(ex).__name__}: {ex}', facts.loc(b))
                continue
            n += 1
            src = f'{text} = 1\n' if is_key else f'v = {text}\n'
            try:
                got = tomllib.loads(src)
            except tomllib.TOMLDecodeError as ex:
                rep.bad(R, key, f'`{d}` writes {want!r:.60} as {text!r:.120}, which is not a TOML {"key" if is_key else "value"} ({ex})', facts.loc(b))
                continue
            ref = {want: 1} if is_key else {'v': want}
            rep.check(R, key, got == ref and type(got.get('v', 0)) is type(ref.get('v', 0)), f'{text!r:.60}',
                      f'`{d}` writes {want!r:.60} as {text!r:.120}, which reads back as {(list(got)[0] if is_key else got.get("v"))!r:.80}', facts.loc(b))


def r11_key_display(rep, facts):
    """the text a key shows (Display for Key, Display for KeyMut) is a key that reads back"""
    import tomllib
    from .den import Evaluator, Unanalysable, EvalPanic
    from .printdrive import PrintInterp
    R = rep.rule('C10/R11', 'a key shown on its own is a key: Display for Key and Display for KeyMut evaluated on sample keys (bare words, two words, a dot, quotes, the empty key, a newline, '
                 'non-ASCII) without a stored spelling — `<text> = 1` must decode (Python\'s tomllib) to the key — and with a stored quoted spelling, which must be shown as stored', floor=20)
    NONE_ = ('ctor', 'core::option::Option::None')
    dec = lambda: ('struct', 'toml_edit::repr::Decor', {'prefix': NONE_, 'suffix': NONE_})

    def key(name, stored=None):
        rp = NONE_ if stored is None else ('ctor', 'core::option::Option::Some', (('struct', 'toml_edit::repr::Repr', {'raw_value': ('struct', 'toml_edit::raw_string::RawString', {
            '0': ('ctor', 'toml_edit::raw_string::RawStringInner::Explicit', (('struct', 'toml_edit::internal_string::InternalString', {'0': stored}),))})}),))
        return ('struct', 'toml_edit::key::Key', {'key': ('struct', 'toml_edit::internal_string::InternalString', {'0': name}), 'repr': rp, 'leaf_decor': dec(), 'dotted_decor': dec()})
    S = ['hello', 'two words', '1.5', 'a.b', "it's", 'quote " inside', '', 'line\nbreak', 'é', 'true', '-']
    for ty, wrap in (('toml_edit::key::Key', lambda k: k), ("toml_edit::key::KeyMut<'_>", lambda k: ('struct', 'toml_edit::key::KeyMut', {'key': k}))):
        try:
            d = facts.method('core::fmt::Display', ty, 'fmt')
        except AnalysisIncomplete:
            d = None
        if not d or not facts.has_body(d):
            rep.incomplete(R, f'{ty}|Display', 'not found')
            continue
        b = facts.body(d)
        for name, stored in [(s, None) for s in S] + [('a', "'a'"), ('b c', '"b c"'), ('x', '"\\u0078"')]:
            kk = f'{last_seg(ty.split("<")[0])}|{name!r}' + (f' stored as {stored}' if stored else '')
            try:
                it = PrintInterp(Evaluator(facts))
                it.apply_fn(b, [wrap(key(name, stored)), ('formatter',)])
                text = it.text()
            except EvalPanic as ex:
                rep.bad(R, kk, f'`{d}` panics on the key {name!r}: {ex}', facts.loc(b))
                continue
            except (Unanalysable, TypeError, KeyError, IndexError, AttributeError, ValueError) as ex:
                rep.incomplete(R, kk, f'cannot evaluate `{d}` on the key {name!r}: {type(ex).__name__}: {ex}', facts.loc(b))
                continue
            if stored is not None:
                rep.check(R, kk, text == stored, f'{text!r}', f'`{d}` shows the key {name!r}, stored as {stored}, as {text!r}', facts.loc(b))
                continue
            try:
                got = tomllib.loads(f'{text} = 1\n')
            except tomllib.TOMLDecodeError as ex:
                rep.bad(R, kk, f'`{d}` shows the key {name!r} as {text!r:.80}, which is not a TOML key ({ex})', facts.loc(b))
                continue
            rep.check(R, kk, got == {name: 1}, f'{text!r}', f'`{d}` shows the key {name!r} as {text!r:.80}, which reads back as {list(got)!r:.80}', facts.loc(b))
