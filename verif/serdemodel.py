"""Shared model of the serde layer: the workspace impls of serde::Serializer /
Deserializer with their reviewed role, per-method outcome classes, the date-time tunnel,
None-skipping sites, promotion guards of the formatting visitors."""
import copy

from .core import AnalysisIncomplete, walk, peel, last_seg, calls_in, callee_all, strip_generics
from .den import Evaluator, Interp, Unanalysable, truth_table

SER = 'serde::ser::Serializer'
DE = 'serde::de::Deserializer'

# role of every workspace impl of serde::Serializer (by self type); a new impl must be classified here
SER_ROLES = {
    'toml_edit::ser::value::ValueSerializer': 'value',
    '&mut toml_edit::ser::map::MapValueSerializer': 'value',
    'toml_edit::ser::key::KeySerializer': 'key',
    'toml_edit::ser::map::DatetimeFieldSerializer': 'datefield',
    "toml::ser::Serializer<'d>": 'document',
    "toml::ser::ValueSerializer<'d>": 'value',
    'toml::value::ValueSerializer': 'value',
    'toml::value::TableSerializer': 'tableroot',
}
SER_METHODS = ['serialize_bool', 'serialize_i8', 'serialize_i16', 'serialize_i32', 'serialize_i64', 'serialize_u8', 'serialize_u16',
               'serialize_u32', 'serialize_u64', 'serialize_f32', 'serialize_f64', 'serialize_char', 'serialize_str', 'serialize_bytes',
               'serialize_none', 'serialize_some', 'serialize_unit', 'serialize_unit_struct', 'serialize_unit_variant',
               'serialize_newtype_struct', 'serialize_newtype_variant', 'serialize_seq', 'serialize_tuple', 'serialize_tuple_struct',
               'serialize_tuple_variant', 'serialize_map', 'serialize_struct', 'serialize_struct_variant']


def ser_impls(facts):
    import re
    out = {}
    for imp in facts.impls:
        if imp.get('trait') == SER:
            out[imp['self_ty']] = {it['name']: it['def'] for it in imp['items']}
    # the flag-carrying serializer of map values is known by `&mut MapValueSerializer`; handed on by value with a borrowed flag (`MapValueSerializer<'_>`) it is the
    # same serializer under another signature
    for ty in list(out):
        base = re.sub(r"<'[a-z_]+>", '', ty)
        if base == 'toml_edit::ser::map::MapValueSerializer' and '&mut ' + base not in out:
            out['&mut ' + base] = out[ty]
            if ty != base:
                out.pop(ty)
    return out


def always_err(facts, d):
    """the method can only return Err: no Ok constructor, no call that could produce Ok (delegation)"""
    b = facts.body(d)
    has_ok = any(n.get('k') == 'path' and (n.get('path') or '').endswith('Result::Ok') for n in walk(b['body']))
    errs = any(n.get('k') == 'path' and (n.get('path') or '').endswith('Result::Err') for n in walk(b['body']))
    deleg = [last_seg(c) for n in calls_in(b['body']) for c in callee_all(n)[:1]
             if last_seg(c).startswith('serialize_') or last_seg(c) in ('serialize', 'write_value', 'write_document', 'try_from', 'new')]
    deleg = [x for x in deleg if x not in ('new',)]
    tail = peel(b['body'].get('expr') or {})
    direct_err = tail.get('k') == 'call' and (peel(tail.get('f', {})).get('path') or '').endswith('Result::Err')
    return errs and not has_ok and not deleg and direct_err


def outcome_table(facts):
    """{self_ty: {method: 'err' | 'ok'}}"""
    out = {}
    for ty, methods in ser_impls(facts).items():
        row = {}
        for m in SER_METHODS:
            if m in methods and facts.has_body(methods[m]):
                row[m] = 'err' if always_err(facts, methods[m]) else 'ok'
            else:
                row[m] = 'default'
        out[ty] = row
    return out


def mentions_datetime_name(n):
    return any(x.get('k') == 'path' and (x.get('path') or '').endswith('datetime::NAME') for x in walk(n))


def struct_tunnel(facts, d):
    """how serialize_struct treats the date-time struct name: 'tests-name', 'delegates:<callee>', 'ignores'"""
    b = facts.body(d)
    name_param = None
    ps = [p for p in b.get('params', []) if p.get('k') == 'p_bind']
    if len(ps) >= 2:
        name_param = ps[1]['name']
    for n in walk(b['body']):
        if n.get('k') == 'binary' and n.get('op') in ('==', '!=') and mentions_datetime_name(n):
            return 'tests-name'
    for n in calls_in(b['body']):
        cs = callee_all(n)
        if any(last_seg(c) == 'serialize_struct' for c in cs) and n.get('args'):
            a0 = peel(n['args'][0])
            if a0.get('k') == 'path' and a0.get('path') == name_param:
                tgt = [c for c in cs if last_seg(c) == 'serialize_struct'][0]
                return 'delegates:' + tgt
    return 'ignores'


def swallow_sites(facts, crate_prefixes=('toml_edit::ser', 'toml::value', 'toml::ser')):
    """match arms / if-lets in serialize_value / serialize_field / serialize_element that let an Err pass without returning it.
    Returns [(def, kind, guard_ok, detail, node)]"""
    out = []
    ev = Evaluator(facts)
    for d, b in facts.bodies.items():
        seg = last_seg(strip_generics(d))
        if seg not in ('serialize_value', 'serialize_field', 'serialize_element', 'serialize_entry', 'serialize_key'):
            continue
        if not any(p in d for p in crate_prefixes):
            continue
        for m in walk(b['body']):
            if m.get('k') != 'match' or m.get('src') != 'Normal':
                continue
            for arm in m['arms']:
                pv = None
                for x in walk(arm['pat']):
                    if x.get('k') in ('p_tuplestruct', 'p_struct') and (x.get('path') or '').endswith('Result::Err'):
                        pv = x
                if pv is None:
                    continue
                body = arm['body']
                sem = _swallow_semantic(facts, arm)
                if sem is not None:
                    table, has_flag = sem
                    if not any(table.values()):
                        continue        # every error is passed on
                    want = {(un, fl): (un and fl) for un in (False, True) for fl in (False, True)}
                    okg = has_flag and table == want
                    if not has_flag and table == {(un, fl): un for un in (False, True) for fl in (False, True)}:
                        detail = 'Err arm matches UnsupportedNone and falls through without a flag test'
                        out.append((d, 'pattern-only', False, detail, arm))
                    else:
                        cells = ', '.join(f'({"UnsupportedNone" if un else "other error"}, value {"was" if fl else "was not"} None) -> {"dropped" if v else "returned"}'
                                          for (un, fl), v in sorted(table.items()))
                        out.append((d, 'guarded', okg, cells, arm))
                    continue
                rets = [x for x in walk(body) if x.get('k') == 'ret' and any((y.get('path') or '').endswith('Result::Err') for y in walk(x))]
                uncond = peel(body).get('k') == 'ret' or (peel(body).get('k') == 'block' and not peel(body).get('stmts') and peel(peel(body).get('expr') or {}).get('k') == 'ret')
                if uncond:
                    continue
                # the arm can fall through: a swallow site
                restricts_kind = any((x.get('path') or '').endswith('UnsupportedNone') for x in walk(arm['pat']))
                if not rets:
                    out.append((d, 'pattern-only', False, f'Err arm matches {"UnsupportedNone" if restricts_kind else "any error"} and falls through without a flag test', arm))
                    continue
                ifs = [x for x in walk(body) if x.get('k') == 'if' and any(y.get('k') == 'ret' for y in walk(x['then']))]
                okg = False
                detail = 'no guard'
                for i in ifs:
                    def atom(x):
                        if x.get('k') == 'binary' and x.get('op') in ('==', '!=') and any((y.get('path') or '').endswith('UnsupportedNone') for y in walk(x)):
                            return 'is_unsupported_none' if x['op'] == '==' else 'isnt_unsupported_none'
                        if x.get('k') == 'field' and x.get('name') == 'is_none':
                            return 'value_was_none'
                        if x.get('k') == 'path' and x.get('res') == 'Local' and (x.get('t') or '').replace('&mut ', '').replace('&', '').strip() == 'bool' and 'none' in (x.get('path') or '').lower():
                            return 'value_was_none'          # the flag kept in a local of the caller (`saw_none`) instead of a field of the serializer
                        return None
                    try:
                        names, table = truth_table(ev, i['cond'], atom)
                        if 'isnt_unsupported_none' in names and 'is_unsupported_none' not in names:
                            # `e != UnsupportedNone` is the same question asked the other way round
                            k_ = names.index('isnt_unsupported_none')
                            names = ['is_unsupported_none' if n_ == 'isnt_unsupported_none' else n_ for n_ in names]
                            table = {tuple((not v_) if j_ == k_ else v_ for j_, v_ in enumerate(key_)): val_ for key_, val_ in table.items()}
                            order_ = sorted(range(len(names)), key=lambda j_: names[j_])
                            names = [names[j_] for j_ in order_]
                            table = {tuple(key_[j_] for j_ in order_): val_ for key_, val_ in table.items()}
                        detail = f'{names}: {table}'
                        if names == ['is_unsupported_none', 'value_was_none']:
                            okg = all(v == (not (a and bb)) for (a, bb), v in table.items())
                    except Unanalysable as e:
                        detail = str(e)
                out.append((d, 'guarded', okg, detail, arm))
    return out


def visitor_overrides(facts, method='visit_item_mut'):
    out = []
    for imp in facts.impls:
        if (imp.get('trait') or '').endswith('visit_mut::VisitMut'):
            for it in imp['items']:
                if it['name'] == method and facts.has_body(it['def']):
                    out.append((imp['self_ty'], it['def']))
    return out


def promotion_summary(facts, d):
    """summary of a visit_item_mut override: promotion calls, their guard, the flag protocol"""
    b = facts.body(d)
    prom = []

    def rec(n, guards):
        if isinstance(n, dict):
            if n.get('k') == 'mcall' and n.get('name') in ('make_item', 'into_table', 'into_array_of_tables'):
                prom.append((n['name'], list(guards)))
            if n.get('k') == 'if':
                rec(n['cond'], guards)
                rec(n['then'], guards + [('then', n['cond'])])
                if 'else' in n:
                    rec(n['else'], guards + [('else', n['cond'])])
                return
            for v in n.values():
                rec(v, guards)
        elif isinstance(n, list):
            for v in n:
                rec(v, guards)
    rec(b['body'], [])
    flags = sorted({n['name'] for n in walk(b['body']) if n.get('k') == 'field' and peel(n.get('base', {})).get('res') == 'Local' and
                    (peel(n['base']).get('path') or '').startswith('self')})
    saved = None
    for n in walk(b['body']):
        if n.get('k') == 'let' and n['pat'].get('k') == 'p_bind' and peel(n.get('init', {})).get('k') == 'field' and peel(n['init']).get('name') in flags:
            saved = (n['pat']['name'], peel(n['init'])['name'])
    stmts = b['body'].get('stmts', []) + ([b['body']['expr']] if b['body'].get('expr') else [])
    rec_idx = None
    restore_idx = None
    for i, s in enumerate(stmts):
        for n in walk(s):
            if n.get('k') == 'call' and last_seg((peel(n.get('f', {})).get('path') or '')) == 'visit_item_mut':
                rec_idx = i
            if n.get('k') == 'assign' and peel(n['lhs']).get('k') == 'field' and saved and peel(n['lhs']).get('name') == saved[1] and \
                    peel(n['rhs']).get('path') == saved[0] and rec_idx is not None and i > rec_idx:
                restore_idx = i
    sets_from_node = any(n.get('k') == 'assign' and peel(n['lhs']).get('k') == 'field' and any(x.get('k') == 'mcall' and x.get('name') == 'is_value' for x in walk(n['rhs']))
                         for n in walk(b['body']))
    guarded = []
    for name, guards in prom:
        ok = False
        for branch, cond in guards:
            c = peel(cond)
            neg = c.get('k') == 'unary' and c.get('op') == '!'
            inner = peel(c['a']) if neg else c
            is_flag = (inner.get('k') == 'field' and inner.get('name') in flags) or (saved and inner.get('k') == 'path' and inner.get('path') == saved[0])
            if is_flag and ((neg and branch == 'then') or (not neg and branch == 'else')):
                ok = True
        guarded.append((name, ok))
    return {'body': b, 'promotions': guarded, 'flags': flags, 'saved': saved, 'restores_after_recursion': restore_idx is not None,
            'sets_flag_from_node': sets_from_node, 'recurses': rec_idx is not None}


def self_uses(facts, d):
    """how a method body uses its `self` parameter: list of (kind, detail); kind in {'field-write', 'field-read', 'passed-on', 'other'}"""
    b = facts.body(d)
    params = b.get('params', [])
    if not params or params[0].get('k') != 'p_bind':
        return []
    me = params[0]['name']
    uses = []

    def is_self(n):
        n = peel(n)
        return n.get('k') == 'path' and n.get('res') == 'Local' and n.get('path') == me
    for n in walk(b['body']):
        k = n.get('k')
        if k == 'assign' and peel(n['lhs']).get('k') == 'field' and is_self(peel(n['lhs'])['base']):
            uses.append(('field-write', peel(n['lhs'])['name']))
        elif k in ('mcall', 'call'):
            for a in n.get('args', []):
                if is_self(a):
                    uses.append(('passed-on', n.get('name') or last_seg((peel(n.get('f', {})).get('path') or ''))))
            if k == 'mcall' and is_self(n['recv']):
                uses.append(('method', n.get('name')))
        elif k == 'field' and is_self(n['base']):
            uses.append(('field', n.get('name')))
    return uses


def same_name_delegations(facts, traits=(SER, DE)):
    """[(method def, callee node, [(param index, arg index)])] for methods of workspace impls of serde traits that call a method of the
    same name and pass their own parameters on"""
    out = []
    for imp in facts.impls:
        if imp.get('trait') not in traits:
            continue
        for it in imp['items']:
            d = it['def']
            if it['kind'] != 'AssocFn' or not facts.has_body(d):
                continue
            b = facts.body(d)
            if b.get('x'):
                continue
            pnames = [p.get('name') if p.get('k') == 'p_bind' else None for p in b.get('params', [])][1:]
            for n in walk(b['body']):
                if n.get('k') == 'mcall' and n.get('name') == it['name']:
                    pairs = []
                    for ai, a in enumerate(n.get('args', [])):
                        a = peel(a)
                        if a.get('k') == 'path' and a.get('res') == 'Local' and a.get('path') in pnames:
                            pairs.append((pnames.index(a['path']), ai))
                    out.append((d, imp['self_ty'], it['name'], n, pairs, pnames))
    return out


def _swallow_semantic(facts, arm):
    """evaluates an `Err(e) => ..` arm for e in {UnsupportedNone, another error} x flag in {false, true};
    returns ({(is_unsupported_none, flag): error is dropped}, a flag local was found) or None when the arm cannot be evaluated"""
    from .den import FxInterp, Ret
    ERR = 'core::result::Result::Err'
    none_paths = sorted({x.get('path') or (x.get('e') or {}).get('path') for x in walk(arm) if ((x.get('path') or (x.get('e') or {}).get('path') or '')).endswith('::UnsupportedNone')})
    if not none_paths:
        return None
    un_path = none_paths[0]
    other = un_path.rsplit('::', 1)[0] + '::OtherErrorForAnalysis'
    bound = {x['name'] for x in walk(arm['pat']) if x.get('k') == 'p_bind'}
    for x in walk(arm['body']):
        if x.get('k') == 'p_bind':
            bound.add(x['name'])
    free = {}
    for x in walk(arm['body']):
        if x.get('k') == 'path' and x.get('res') == 'Local' and x.get('path') not in bound:
            free[x['path']] = x.get('t') or ''
    if 'guard' in arm and arm['guard'] is not None:
        for x in walk(arm['guard']):
            if x.get('k') == 'path' and x.get('res') == 'Local' and x.get('path') not in bound:
                free[x['path']] = x.get('t') or ''
    flag_locals = [n for n, t in free.items() if 'MapValueSerializer' in t]
    if any(n not in flag_locals for n in free):
        return None
    table = {}
    for un in (False, True):
        for fl in (False, True):
            it = FxInterp(Evaluator(facts))
            env = {n: ('struct', 'MapValueSerializer', {'is_none': fl}) for n in flag_locals}
            env['@assign'] = {}
            errv = ('ctor', un_path) if un else ('ctor', other)
            # the error may be wrapped: toml's Error { inner: toml_edit::ser::Error }
            val = ('ctor', ERR, (errv,))
            try:
                if not it.matches(arm['pat'], val, env):
                    wrapped = ('ctor', ERR, (('struct', 'Error', {'inner': errv}),))
                    if not it.matches(arm['pat'], wrapped, env):
                        table[(un, fl)] = False      # the arm does not take this error: another arm returns it
                        continue
                if arm.get('guard') is not None and not it.val(arm['guard'], env):
                    table[(un, fl)] = False
                    continue
                try:
                    r = it.val(arm['body'], env)
                except Ret as ret:
                    r = ret.v
            except Unanalysable:
                return None
            is_err = isinstance(r, tuple) and len(r) >= 2 and r[0] == 'ctor' and r[1] == ERR
            table[(un, fl)] = not is_err
    return table, bool(flag_locals)
