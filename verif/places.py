"""places.py — a small heap for the structural interpreter: ordered maps, their entries, and mutable references to slots.

den.py evaluates expressions over immutable values (plus struct models whose fields can be updated in place).  The editing API of
toml_edit / toml is written against `IndexMap<Key, Item>`, `BTreeMap<String, Value>` and `Vec<Item>` with `entry()`, `get_mut()`,
`mem::replace(entry.get_mut(), ..)`, `*slot = ..`: to evaluate one API method on a model container and compare the outcome with the
same operation on a reference ordered map (a per-method summary, C16/R9) the interpreter needs

  * MapObj      an ordered map (insertion-ordered like IndexMap, or key-sorted like BTreeMap) with the operations the crates use,
  * OccObj / VacObj   the two halves of the entry API,
  * SlotRef     a mutable reference to one slot (a map value, a map key, a Vec element) that can be read through, assigned through
                (`*r = v`) and handed to mem::replace / mem::take / mem::swap.

PlaceInterp is RecInterp plus these; nothing of den.py changes its behaviour for the existing rules.
"""
import functools

from .core import peel, last_seg, callee_all, strip_generics, walk
from .den import RecInterp, Unanalysable, EvalPanic, VecObj, IterObj

SOME, NONE = 'core::option::Option::Some', 'core::option::Option::None'
LESS, EQUAL, GREATER = ('core::cmp::Ordering::' + x for x in ('Less', 'Equal', 'Greater'))


def opt(x):
    return ('ctor', NONE) if x is None else ('ctor', SOME, (x,))


class SlotRef:
    """a mutable reference to one slot of a modelled container"""

    def __init__(self, getter, setter, what='slot'):
        self._g, self._s, self.what = getter, setter, what

    def get(self):
        return self._g()

    def set(self, v):
        self._s(v)

    def __repr__(self):
        return f'&mut <{self.what}>'


def deref(v):
    while isinstance(v, SlotRef):
        v = v.get()
    return v


def keyname(k):
    """the name a key is looked up by: a &str is itself, a Key / InternalString model is its text"""
    k = deref(k)
    if isinstance(k, tuple) and len(k) == 3 and k[0] == 'struct' and isinstance(k[2], dict):
        for f in ('key', '0', 'inner'):
            if f in k[2]:
                return keyname(k[2][f])
    if isinstance(k, tuple) and len(k) == 3 and k[0] == 'ctor' and len(k[2]) == 1 and not k[1].startswith('core::'):
        return keyname(k[2][0])                 # a newtype around the text (InternalString)
    return k


class MapObj:
    """an ordered map.  `sorted_` makes it a BTreeMap (iteration and insertion position by key order); otherwise an IndexMap (insertion order)."""

    def __init__(self, pairs=(), sorted_=False):
        self.pairs = [[k, v] for k, v in pairs]
        self.sorted = sorted_
        if sorted_:
            self.pairs.sort(key=lambda p: keyname(p[0]))

    def find(self, q):
        n = keyname(q)
        for i, p in enumerate(self.pairs):
            if keyname(p[0]) == n:
                return i
        return None

    def vref(self, i):
        p = self.pairs[i]
        return SlotRef(lambda: p[1], lambda v: p.__setitem__(1, v), f'value of `{keyname(p[0])}`')

    def kref(self, i):
        p = self.pairs[i]
        return SlotRef(lambda: p[0], lambda v: p.__setitem__(0, v), f'key `{keyname(p[0])}`')

    def put(self, k, v):
        """insert: an existing key keeps its slot (and its stored key); returns (index, old value or None)"""
        i = self.find(k)
        if i is not None:
            old = self.pairs[i][1]
            self.pairs[i][1] = v
            return i, old
        if self.sorted:
            n = keyname(k)
            j = 0
            while j < len(self.pairs) and keyname(self.pairs[j][0]) < n:
                j += 1
            self.pairs.insert(j, [k, v])
            return j, None
        self.pairs.append([k, v])
        return len(self.pairs) - 1, None

    def __len__(self):
        return len(self.pairs)

    def __repr__(self):
        return 'Map{' + ', '.join(f'{keyname(k)!r}: {v!r:.40}' for k, v in self.pairs) + '}'


class OccObj:
    def __init__(self, m, i, key):
        self.m, self.pair, self.given = m, m.pairs[i], key

    def idx(self):
        for i, p in enumerate(self.m.pairs):
            if p is self.pair:
                return i
        raise EvalPanic('an occupied entry is used after its slot was removed')

    def __repr__(self):
        return f'Occupied({keyname(self.pair[0])!r})'


class VacObj:
    def __init__(self, m, key):
        self.m, self.key = m, key

    def __repr__(self):
        return f'Vacant({keyname(self.key)!r})'


def clone_value(v):
    """`.clone()`: an independent copy of a modelled value"""
    v = deref(v)
    if isinstance(v, MapObj):
        return MapObj([(clone_value(k), clone_value(x)) for k, x in v.pairs], v.sorted)
    if isinstance(v, VecObj):
        return VecObj([clone_value(x) for x in v.items])
    if isinstance(v, tuple) and len(v) == 3 and v[0] == 'struct' and isinstance(v[2], dict):
        return ('struct', v[1], {k: clone_value(x) for k, x in v[2].items()})
    if isinstance(v, tuple):
        return tuple(clone_value(x) for x in v)
    return v


def plain(v):
    """a value without references and container objects (for comparisons in the rules)"""
    v = deref(v)
    if isinstance(v, MapObj):
        return tuple((plain(k), plain(x)) for k, x in v.pairs)
    if isinstance(v, VecObj):
        return tuple(plain(x) for x in v.items)
    if isinstance(v, IterObj):
        return tuple(plain(x) for x in v.rest())
    if isinstance(v, tuple):
        return tuple(plain(x) for x in v)
    if isinstance(v, list):
        return [plain(x) for x in v]
    if isinstance(v, dict):
        return {k: plain(x) for k, x in v.items()}
    return v


MAP_CTOR_PREFIXES = ('indexmap::map::IndexMap', 'alloc::collections::btree::map::BTreeMap', 'std::collections::BTreeMap')
ENTRY_PATHS = {False: ('indexmap::map::core::entry::Entry::Occupied', 'indexmap::map::core::entry::Entry::Vacant'),
               True: ('alloc::collections::btree::map::entry::Entry::Occupied', 'alloc::collections::btree::map::entry::Entry::Vacant')}


def _ref_depth(t):
    """how many references a type is wrapped in (`&'a mut &T` is 2)"""
    import re
    n = 0
    while True:
        m = re.match(r"&\s*('[A-Za-z_]+\s+)?(mut\s+)?", t)
        if not m:
            return n
        n += 1
        t = t[m.end():]


def _has_call(n):
    return any(x.get('k') in ('mcall', 'call') for x in walk(n))


class PlaceInterp(RecInterp):
    def __init__(self, ev, record=(), record_fns=(), stubs=None):
        super().__init__(ev, record, record_fns, stubs)
        self.model_mem = True
        self._syn = 0

    # -- helpers -------------------------------------------------------------------------------------------------------------
    def _bindnode(self, v, env, like=None):
        self._syn += 1
        nm = f'@p{self._syn}'
        env[nm] = v
        return {'k': 'path', 'res': 'Local', 'path': nm, 't': (like or {}).get('t'), 'l': (like or {}).get('l')}

    def _default_of(self, ty, depth=0):
        ty = (ty or '').replace('&mut ', '').replace('&', '').strip()
        facts = getattr(self.ev, 'facts', None)
        base = strip_generics(ty).split('<')[0]
        if facts is not None and depth < 4 and facts.has_method('core::default::Default', base, 'default'):
            dd = facts.method('core::default::Default', base, 'default')
            if facts.has_body(dd) and (not facts.body(dd).get('derived') or (getattr(facts, 'adts', {}).get(base) or {}).get('kind') == 'enum'):
                return self.apply_fn(facts.body(dd), [])            # a hand-written Default, or the `#[default]` variant of an enum
        if facts is not None and base in getattr(facts, 'adts', {}) and depth < 4 and not base.startswith('toml_edit::item::Item'):
            adt = facts.adts[base]
            if adt.get('kind') == 'struct' and adt.get('variants') and all(f.get('name') and not str(f['name']).isdigit() for f in adt['variants'][0].get('fields', [])):
                return ('struct', base, {f['name']: self._default_of(f.get('ty'), depth + 1) for f in adt['variants'][0].get('fields', [])})
        if ty.startswith(MAP_CTOR_PREFIXES) or base.endswith('::KeyValuePairs'):
            return MapObj((), sorted_='btree' in ty.lower())
        if ty.startswith('toml_edit::item::Item'):
            return ('ctor', 'toml_edit::item::Item::None')
        if ty.startswith('core::option::Option'):
            return ('ctor', NONE)
        if ty.startswith('alloc::vec::Vec'):
            return VecObj()
        if ty in ('bool',):
            return False
        if ty in ('usize', 'u8', 'u16', 'u32', 'u64', 'i8', 'i16', 'i32', 'i64', 'isize'):
            return 0
        if ty in ('alloc::string::String', 'str'):
            return ''
        return ('default', ty)

    def _model_mem(self, op, args, env):
        vals = []
        for a in args:
            try:
                vals.append(self.val(a, env))
            except Unanalysable:
                return super()._model_mem(op, args, env)
        if vals and isinstance(vals[0], SlotRef):
            r = vals[0]
            if op == 'replace' and len(vals) == 2:
                old = r.get()
                r.set(deref(vals[1]))
                return (old,)
            if op == 'take' and len(vals) == 1:
                old = r.get()
                r.set(self._default_of(peel(args[0]).get('t')))
                return (old,)
            if op == 'swap' and len(vals) == 2 and isinstance(vals[1], SlotRef):
                a, b = r.get(), vals[1].get()
                r.set(b)
                vals[1].set(a)
                return ((),)
        # (values already evaluated: evaluating them again would repeat side effects, so finish here on modelled structs)
        is_struct = lambda v: isinstance(v, tuple) and len(v) == 3 and v[0] == 'struct' and isinstance(v[2], dict)
        if op == 'take' and len(vals) == 1 and is_struct(vals[0]):
            v = vals[0]
            moved = ('struct', v[1], dict(v[2]))
            v[2].clear()
            dv = self._default_of(v[1])
            if isinstance(dv, tuple) and len(dv) == 3 and dv[0] == 'struct' and isinstance(dv[2], dict):
                v[2].update(dv[2])          # what Default gives for the type
            else:
                v[2]['@default'] = True
            return (moved,)
        if op == 'take' and len(vals) == 1 and isinstance(vals[0], VecObj):
            moved = VecObj(vals[0].items)
            vals[0].items.clear()
            return (moved,)
        if op == 'take' and len(vals) == 1 and isinstance(vals[0], MapObj):
            moved = MapObj(vals[0].pairs, vals[0].sorted)
            vals[0].pairs.clear()
            return (moved,)
        if op in ('swap', 'replace') and len(vals) == 2 and is_struct(vals[0]) and is_struct(deref(vals[1])):
            o = deref(vals[1])
            a, b = dict(vals[0][2]), dict(o[2])
            vals[0][2].clear()
            vals[0][2].update(b)
            if op == 'swap':
                o[2].clear()
                o[2].update(a)
                return ((),)
            return (('struct', vals[0][1], a),)
        raise Unanalysable(f'mem::{op} on a place the evaluator does not model')

    def matches(self, p, v, env):
        k = p.get('k')
        if k == 'p_bind' and 'sub' not in p:
            return super().matches(p, v, env)           # a plain binding keeps the reference
        if k == 'p_tuplestruct' and isinstance(v, SlotRef):
            # `if let Some(x) = &mut place`: x is a reference to the payload, writes through it reach the place
            inner = deref(v)
            if isinstance(inner, tuple) and len(inner) == 3 and inner[0] == 'ctor' and inner[1] == p.get('path') and len(inner[2]) == len(p.get('pats', [])):
                def child(i):
                    def setter(nv):
                        cur = deref(v)
                        v.set(('ctor', cur[1], tuple(nv if j == i else x for j, x in enumerate(cur[2]))))
                    return SlotRef(lambda: deref(v)[2][i], setter, f'payload {i} of {v.what}')
                return all(self.matches(sub, child(i) if not isinstance(inner[2][i], tuple) or inner[2][i][:1] != ('struct',) else inner[2][i], env) for i, sub in enumerate(p['pats']))
        return super().matches(p, deref(v), env)

    def _store_field(self, l, value, env):
        try:
            raw = self.val(l['base'], env)
        except Unanalysable:
            return
        base = deref(raw)
        if isinstance(base, tuple) and len(base) == 3 and base[0] == 'struct' and isinstance(base[2], dict) and l.get('name') in base[2]:
            base[2][l['name']] = deref(value)
        elif isinstance(base, tuple) and len(base) == 3 and base[0] == 'range' and l.get('name') in ('start', 'end'):
            nv = deref(value)
            if not (isinstance(raw, SlotRef) and isinstance(nv, int)):
                raise Unanalysable(f'a write to `.{l.get("name")}` of a range the evaluator holds by value (the place it belongs to is not tracked)')
            raw.set(('range', nv, base[2]) if l['name'] == 'start' else ('range', base[1], nv - 1))          # (ranges are kept with an inclusive end)

    def apply(self, clo, args):
        if isinstance(clo, tuple) and len(clo) == 2 and clo[0] == 'pyfn':
            return clo[1](*args)                 # a caller-supplied closure of the rule itself (the `keep` / `compare` argument of the API under evaluation)
        if isinstance(clo, tuple) and len(clo) == 3 and clo[0] == 'closure' and isinstance(clo[2], dict) and not clo[1].get('fnval'):
            # a closure that assigns to a captured variable (`last_position = pos`) sees the new value on its next call
            _, node, cenv = clo
            env = dict(cenv)
            params = node.get('params', [])
            if len(params) != len(args):
                raise Unanalysable('closure arity')
            for p, a in zip(params, args):
                self.bind(p, a, env)
            try:
                return self._call_body(node['body'], env)
            finally:
                for k_, v_ in env.items():
                    if k_ in cenv and not str(k_).startswith('@') and cenv[k_] is not v_:
                        cenv[k_] = v_
        return super().apply(clo, args)

    def type_of(self, v):
        v = deref(v)
        if isinstance(v, tuple) and len(v) == 3 and v[0] == 'struct':
            p = strip_generics(v[1]).split('::<')[0]
            adts = getattr(self.ev.facts, 'adts', {})
            if p not in adts and p.rsplit('::', 1)[0] in adts:
                return p.rsplit('::', 1)[0]          # a struct-like enum variant: its type is the enum
            return p
        if isinstance(v, tuple) and len(v) >= 2 and v[0] == 'ctor':
            p = strip_generics(v[1]).split('::<')[0]
            if p in self.ev.facts.adts:
                return p                                             # a unit / tuple struct: the constructor is the type
            return p.rsplit('::', 1)[0]                             # an enum value: its type is the variant's parent
        return None

    def _from_impl(self, tgt, value, src_ty):
        """the workspace `impl From<S> for T` that `.into()` resolves to, by target type and the kind of the value"""
        t = strip_generics(tgt).split('::<')[0]
        cands = [d for d in self.ev.facts.bodies if d.startswith(f'<{t} as core::convert::From<') and d.endswith('>>::from')]
        if not cands:
            return None
        import re
        norm = lambda t_: re.sub(r"'[a-z_]+ ", '', (t_ or '')).replace('mut ', '').strip()
        src = norm(src_ty)

        def arg(d, keep_ref=False):
            a = norm(d[len(f'<{t} as core::convert::From<'):-len('>>::from')])
            return a if keep_ref else a.replace('&', '')
        exact = [d for d in cands if arg(d, True) == src]
        if len(exact) == 1:
            return self.ev.facts.body(exact[0])
        loose = [d for d in cands if arg(d) == src.replace('&', '')]
        if len(loose) == 1:
            return self.ev.facts.body(loose[0])
        v = deref(value)
        want = 'bool' if isinstance(v, bool) else 'i64' if isinstance(v, int) else 'f64' if isinstance(v, float) else 'str' if isinstance(v, str) else self.type_of(v)
        byk = [d for d in cands if arg(d) == want or (want == 'str' and arg(d) in ('str', 'alloc::string::String'))]
        if byk:
            return self.ev.facts.body(sorted(byk, key=lambda d: arg(d) != want)[0])
        return None

    # -- evaluation ----------------------------------------------------------------------------------------------------------
    def val(self, e, env):
        adj = e.get('adj') or ''
        if adj.count('*') >= 2 and adj.endswith('&') and (e.get('t') or '').startswith('&') and e.get('k') in ('addrof', 'path', 'field') and adj.count('*') > _ref_depth(e.get('t') or ''):
            # a deref coercion at a use site (`&self.key` where a &str is wanted): the workspace's own Deref impl says what the reference stands for
            v = self.val({kk: vv for kk, vv in e.items() if kk != 'adj'}, env)
            t = (e.get('t') or '').lstrip('&').replace('mut ', '').strip()
            dv = deref(v)
            if isinstance(dv, tuple) and len(dv) == 3 and dv[0] in ('struct', 'ctor') and strip_generics(dv[1]).split('<')[0] == strip_generics(t).split('<')[0]:
                facts = self.ev.facts
                for imp in facts.impls:
                    if imp.get('trait') == 'core::ops::deref::Deref' and strip_generics(imp.get('self_ty') or '').split('<')[0] == strip_generics(t).split('<')[0]:
                        d = facts.impl_method(imp, 'deref')
                        if d and facts.has_body(d):
                            return self.apply_fn(facts.body(d), [v])
            return v
        k = e.get('k')
        if k == 'mcall':
            return self._mcall(e, env)
        if k == 'assign':
            raw = e['lhs']
            while isinstance(raw, dict) and raw.get('k') == 'block' and not raw.get('stmts') and 'expr' in raw:
                raw = raw['expr']
            if raw.get('k') == 'unary' and raw.get('op') == '*':
                tgt = self.val(raw['a'], env)
                if isinstance(tgt, SlotRef):
                    tgt.set(deref(self.val(e['rhs'], env)))
                    return ()
                if isinstance(tgt, tuple) and len(tgt) == 3 and tgt[0] == 'struct' and isinstance(tgt[2], dict):
                    new = deref(self.val(e['rhs'], env))
                    if isinstance(new, tuple) and len(new) == 3 and new[0] == 'struct' and isinstance(new[2], dict) and new[1] == tgt[1]:
                        # `*self = value` through a reference to a modelled struct: every holder of the struct sees the new content
                        if new[2] is not tgt[2]:
                            content = dict(new[2])
                            tgt[2].clear()
                            tgt[2].update(content)
                        return ()
                    node = dict(e, rhs=self._bindnode(new, env, e['rhs']))
                    return super().val(node, env)
                node = dict(e, lhs=dict(raw, a=self._bindnode(tgt, env, raw['a']))) if _has_call(raw['a']) else e
                return super().val(node, env)
            if raw.get('k') == 'index':
                base = deref(self.val(raw['base'], env))
                idx = deref(self.val(raw['idx'], env))
                if isinstance(base, VecObj) and isinstance(idx, int) and not isinstance(idx, bool):
                    if not 0 <= idx < len(base.items):
                        raise EvalPanic(f'index {idx} out of range for a Vec of {len(base.items)} (line {e.get("l")})')
                    base.items[idx] = deref(self.val(e['rhs'], env))
                    return ()
        if k == 'call':
            f = peel(e.get('f', {}))
            p = strip_generics(f.get('path') or '')
            seg = last_seg(p)
            if f.get('k') == 'path' and (f.get('res', '').startswith('Ctor') or f.get('res', '') == 'SelfCtor'):
                # a tuple struct of the workspace (`RawString(inner)`, `Self(inner)`): a struct with the fields `0`, `1`, .. — a place that `*self = ..` can write through
                tname = p if f.get('res', '').startswith('Ctor') else strip_generics((e.get('t') or '').split('<')[0])
                adt = getattr(self.ev.facts, 'adts', {}).get(tname)
                if adt and adt.get('kind') == 'struct':
                    return ('struct', tname, {str(i): deref(self.val(a, env)) for i, a in enumerate(e.get('args', []))})
            if f.get('k') == 'path' and p.startswith(MAP_CTOR_PREFIXES) and seg in ('new', 'with_capacity', 'default', 'with_capacity_and_hasher', 'with_hasher'):
                return MapObj((), sorted_='btree' in p.lower())
            if (f.get('path') or '').startswith('kstring::') and len(e.get('args', [])) == 1 and self._workspace_body(f) is None:
                a0 = deref(self.val(e['args'][0], env))
                if isinstance(a0, str):
                    return a0               # the `perf` feature's string type: a string is the text it holds
            if seg == 'default' and f.get('res') in ('AssocFn', 'Fn') and not e.get('args'):
                t = e.get('t') or ''
                if self._workspace_body(f) is not None:
                    try:
                        return super().val(e, env)
                    except Unanalysable:
                        return self._default_of(t)
                if t.startswith(MAP_CTOR_PREFIXES):
                    return MapObj((), sorted_='btree' in t.lower())
                return self._default_of(t)
            if seg in ('into_iter', 'iter', 'iter_mut') and len(e.get('args', [])) == 1 and f.get('res') in ('AssocFn', 'Fn') and self._workspace_body(f) is None:
                a0 = self.val(e['args'][0], env)
                d0 = deref(a0)
                if isinstance(d0, MapObj):
                    mut = (peel(e['args'][0]).get('t') or '').startswith('&mut') or seg == 'iter_mut'
                    return IterObj([(p_[0], d0.vref(i) if mut else p_[1]) for i, p_ in enumerate(d0.pairs)])
                if isinstance(d0, VecObj) and ((peel(e['args'][0]).get('t') or '').startswith('&mut') or seg == 'iter_mut'):
                    return IterObj([self._vec_ref(d0, i) for i in range(len(d0.items))])
                node = dict(e, args=[self._bindnode(d0, env, e['args'][0])])
                return super().val(node, env)
        if k == 'addrof' and e.get('mut') and peel(e['a']).get('k') == 'path' and peel(e['a']).get('res') == 'Local':
            nm = peel(e['a'])['path']
            if nm in env and isinstance(env[nm], (bool, int, float, str)):
                # `&mut flag` of a plain local: the callee's `*flag = ..` must be seen here
                return SlotRef(lambda: env[nm], lambda v: env.__setitem__(nm, v), f'local {nm}')
        if k == 'unary' and e.get('op') == '*':
            v = self.val(e['a'], env)
            if isinstance(v, SlotRef) and isinstance(v.get(), (bool, int, float, str)):
                return v.get()
            return v
        if k == 'addrof' and e.get('mut') and peel(e['a']).get('k') == 'field':
            fl = peel(e['a'])
            base = deref(self.val(fl['base'], env))
            if isinstance(base, tuple) and len(base) == 3 and base[0] == 'struct' and isinstance(base[2], dict) and fl.get('name') in base[2]:
                nm = fl['name']
                cur = base[2][nm]
                if not (isinstance(cur, tuple) and len(cur) == 3 and cur[0] == 'struct') and not isinstance(cur, (VecObj, MapObj, SlotRef)):
                    # `&mut self.field` of a field held by value (an Option, a number, a range): a reference the callee / the pattern can write through
                    return SlotRef(lambda: base[2][nm], lambda v: base[2].__setitem__(nm, v), f'field {nm}')
        if k == 'addrof' and e.get('mut') and peel(e['a']).get('k') == 'index':
            ix = peel(e['a'])
            base = deref(self.val(ix['base'], env))
            idx = deref(self.val(ix['idx'], env))
            if isinstance(base, VecObj) and isinstance(idx, int) and not isinstance(idx, bool):
                if not 0 <= idx < len(base.items):
                    raise EvalPanic(f'index {idx} out of range for a Vec of {len(base.items)} (line {e.get("l")})')
                return self._vec_ref(base, idx)
        if k == 'struct' and e.get('base') is not None:
            base = deref(self.val(e['base'], env))
            v = super().val({kk: vv for kk, vv in e.items() if kk != 'base'}, env)
            if isinstance(v, tuple) and len(v) == 3 and v[0] == 'struct' and isinstance(base, tuple) and len(base) == 3 and base[0] == 'struct' and isinstance(base[2], dict):
                for fk, fv in base[2].items():
                    v[2].setdefault(fk, fv)
                return v
            raise Unanalysable('struct update syntax over a base the evaluator does not model')
        if k == 'field':
            b = self.val(e['base'], env)
            if isinstance(b, SlotRef) or _has_call(e['base']):
                return super().val(dict(e, base=self._bindnode(deref(b), env, e['base'])), env)
        if k in ('binary', 'unary') and k == 'binary' and e.get('op') not in ('&&', '||'):
            a, b = self.val(e['a'], env), self.val(e['b'], env)
            return super().val(dict(e, a=self._bindnode(deref(a), env, e['a']), b=self._bindnode(deref(b), env, e['b'])), env)
        if k == 'unary' and e.get('op') in ('!', '-'):
            a = self.val(e['a'], env)
            return super().val(dict(e, a=self._bindnode(deref(a), env, e['a'])), env)
        if k == 'if':
            c = self.val(e['cond'], env)
            if isinstance(c, SlotRef):
                return super().val(dict(e, cond=self._bindnode(deref(c), env, e['cond'])), env)
            return super().val(dict(e, cond=self._bindnode(c, env, e['cond'])), env)
        if k == 'index':
            b = self.val(e['base'], env)
            if isinstance(b, SlotRef):
                return super().val(dict(e, base=self._bindnode(deref(b), env, e['base'])), env)
        return super().val(e, env)

    def _vec_ref(self, vec, i):
        items = vec.items
        cell = items[i]

        def getter():
            return items[i] if i < len(items) else cell

        def setter(v):
            items[i] = v
        return SlotRef(getter, setter, f'element {i}')

    # -- method calls --------------------------------------------------------------------------------------------------------
    def _mcall(self, e, env):
        name = e.get('name')
        if name in self.stubs:
            return self.stubs[name]
        rnode = e['recv']
        pure_place = not _has_call(rnode)
        try:
            raw = self.val(rnode, env)
        except Unanalysable:
            if name in self.record:
                return super().val(e, env)
            raise
        recv = deref(raw)
        if isinstance(recv, str) and name in ('truncate', 'clear', 'push', 'push_str', 'pop', 'insert_str', 'insert') and peel(rnode).get('k') == 'path' and peel(rnode).get('res') == 'Local' \
                and isinstance(env.get(peel(rnode)['path']), str):
            # a `String` held in a local: the methods that change it in place
            nm = peel(rnode)['path']
            a = [deref(self.val(x, env)) for x in e.get('args', [])]
            cur = env[nm]
            as_text = lambda x: x if isinstance(x, str) else chr(x)
            if name == 'truncate' and len(a) == 1 and isinstance(a[0], int):
                env[nm] = cur.encode()[:a[0]].decode(errors='strict') if a[0] < len(cur.encode()) else cur
                return ()
            if name == 'clear' and not a:
                env[nm] = ''
                return ()
            if name in ('push', 'push_str') and len(a) == 1 and isinstance(a[0], (str, int)):
                env[nm] = cur + as_text(a[0])
                return ()
            if name == 'pop' and not a:
                env[nm] = cur[:-1]
                return ('ctor', SOME, (ord(cur[-1]),)) if cur else ('ctor', NONE)
            if name in ('insert_str', 'insert') and len(a) == 2 and isinstance(a[0], int) and isinstance(a[1], (str, int)):
                raw_ = cur.encode()
                env[nm] = (raw_[:a[0]] + as_text(a[1]).encode() + raw_[a[0]:]).decode()
                return ()
        if isinstance(recv, bool) and name in ('then', 'then_some') and len(e.get('args', [])) == 1:
            if not recv:
                return ('ctor', NONE)
            arg = self.val(e['args'][0], env)
            return ('ctor', SOME, (self.apply(arg, []) if name == 'then' else arg,))
        if name == 'take' and not e.get('args') and isinstance(recv, tuple) and len(recv) >= 2 and recv[0] == 'ctor' and recv[1].startswith('core::option::Option::'):
            # Option::take on a place: a field of a modelled struct (through any reference to it) or a slot
            r = peel(rnode)
            if isinstance(raw, SlotRef):
                raw.set(('ctor', NONE))
                return recv
            if r.get('k') == 'field':
                base = deref(self.val(r['base'], env))
                if isinstance(base, tuple) and len(base) == 3 and base[0] == 'struct' and r.get('name') in base[2]:
                    base[2][r['name']] = ('ctor', NONE)
                    return recv
        if name == 'into' and not e.get('args') and self._workspace_method(e) is None:
            body = self._from_impl((e.get('t') or '').strip(), recv, peel(rnode).get('t'))
            if body is not None:
                return self.apply_fn(body, [recv])
        if name == 'unwrap_or_default' and not e.get('args') and isinstance(recv, tuple) and recv[:2] == ('ctor', NONE):
            dv = self._default_of(e.get('t'))
            if not (isinstance(dv, tuple) and dv[:1] == ('default',)):
                return dv
        if name == 'clone' and not e.get('args') and not isinstance(recv, (OccObj, VacObj, IterObj)) and not (isinstance(recv, tuple) and recv and recv[0] in ('rec', 'opaque', 'closure')):
            return clone_value(recv)
        special = isinstance(recv, (MapObj, OccObj, VacObj)) or (isinstance(recv, tuple) and len(recv) == 3 and recv[0] == 'ctor' and recv[2] and isinstance(recv[2][0], (OccObj, VacObj))) \
            or (isinstance(recv, VecObj) and name in VEC_PLACE_METHODS)
        if special and name not in self.record:
            args = [self.val(a, env) for a in e.get('args', [])]
            r = self._container_method(recv, name, args, e, env)
            if r is not NotImplemented:
                return r
            raise Unanalysable(f'method `{name}` on a modelled {type(recv).__name__}')
        # auto-deref: an inherent method of T called on a value whose type derefs to T (`doc.decor()` is `Table::decor` through `Deref for DocumentMut`)
        callee = strip_generics(e.get('resolved') or e.get('callee') or '')
        rt = self.type_of(recv) if isinstance(recv, tuple) and len(recv) == 3 and recv[0] == 'struct' else None
        if rt and '::' in callee and not callee.startswith('<') and self._workspace_method(e) is not None:
            owner = callee.rsplit('::', 1)[0]
            facts = self.ev.facts
            if owner != rt and owner in getattr(facts, 'adts', {}) and rt in facts.adts:
                for dn in ('deref', 'deref_mut'):
                    dd = [d for d in facts.bodies if d.startswith(f'<{rt} as core::ops::deref::') and d.endswith('::' + dn)]
                    if dd:
                        target = self.apply_fn(facts.body(dd[0]), [raw])
                        return super().val(dict(e, recv=self._bindnode(target, env, rnode)), env)
        if pure_place and not isinstance(raw, SlotRef):
            return super().val(e, env)
        # the receiver was evaluated (it may have had effects): hand the value on through a synthetic local
        use = raw if (isinstance(raw, SlotRef) and self._workspace_method(e) is not None) else recv
        return super().val(dict(e, recv=self._bindnode(use, env, rnode)), env)

    def _entry(self, m, key):
        i = m.find(key)
        occ, vac = ENTRY_PATHS[m.sorted]
        return ('ctor', occ, (OccObj(m, i, key),)) if i is not None else ('ctor', vac, (VacObj(m, key),))

    def _cmp_key(self, clo, arity):
        def cmp(p, q):
            r = self.apply(clo, [p[0], p[1], q[0], q[1]] if arity == 4 else [p, q])
            r = deref(r)
            if isinstance(r, tuple) and len(r) >= 2 and r[0] == 'ctor':
                return {LESS: -1, EQUAL: 0, GREATER: 1}.get(r[1], 0)
            raise Unanalysable('comparison closure does not evaluate to an Ordering')
        return functools.cmp_to_key(cmp)

    def _container_method(self, recv, name, args, e, env):
        a = [deref(x) for x in args]
        if isinstance(recv, MapObj):
            m = recv
            if name in ('len',) and not a:
                return len(m.pairs)
            if name == 'is_empty' and not a:
                return not m.pairs
            if name == 'clear' and not a:
                m.pairs.clear()
                return ()
            if name in ('reserve', 'shrink_to_fit', 'reserve_exact', 'shrink_to') :
                return ()
            if name in ('get', 'get_mut', 'get_full', 'get_full_mut2', 'get_key_value', 'contains_key', 'get_index_of', 'get_key_value_mut', 'get_full_mut') and len(a) == 1:
                i = m.find(a[0])
                if name == 'contains_key':
                    return i is not None
                if name == 'get_index_of':
                    return opt(i)
                if i is None:
                    return ('ctor', NONE)
                k_, v_ = m.pairs[i]
                if name == 'get':
                    return opt(v_)
                if name == 'get_mut':
                    return opt(m.vref(i))
                if name == 'get_key_value':
                    return opt((k_, v_))
                if name == 'get_key_value_mut':
                    return opt((k_, m.vref(i)))
                if name == 'get_full':
                    return opt((i, k_, v_))
                if name == 'get_full_mut':
                    return opt((i, k_, m.vref(i)))
                return opt((i, m.kref(i), m.vref(i)))          # get_full_mut2 (MutableKeys)
            if name in ('insert', 'insert_full') and len(a) == 2:
                i, old = m.put(a[0], a[1])
                return opt(old) if name == 'insert' else (i, opt(old))
            if name in ('shift_remove', 'remove', 'swap_remove', 'shift_remove_entry', 'remove_entry', 'swap_remove_entry', 'shift_remove_full', 'swap_remove_full') and len(a) == 1:
                i = m.find(a[0])
                if i is None:
                    return ('ctor', NONE)
                k_, v_ = m.pairs[i]
                if name.startswith('swap') or (name in ('remove', 'remove_entry') and not m.sorted):
                    # IndexMap::remove is swap_remove: the last entry moves into the hole
                    last = m.pairs.pop()
                    if i < len(m.pairs):
                        m.pairs[i] = last
                else:
                    del m.pairs[i]
                if name.endswith('_entry'):
                    return opt((k_, v_))
                if name.endswith('_full'):
                    return opt((i, k_, v_))
                return opt(v_)
            if name in ('shift_remove_index', 'swap_remove_index') and len(a) == 1 and isinstance(a[0], int) and not isinstance(a[0], bool):
                i = a[0]
                if not 0 <= i < len(m.pairs):
                    return ('ctor', NONE)
                k_, v_ = m.pairs[i]
                if name.startswith('swap'):
                    last = m.pairs.pop()
                    if i < len(m.pairs):
                        m.pairs[i] = last
                else:
                    del m.pairs[i]
                return opt((k_, v_))
            if name == 'entry' and len(a) == 1:
                return self._entry(m, a[0])
            if name in ('iter', 'iter_mut', 'iter_mut2', 'into_iter', 'drain') and (not a or name == 'drain'):
                if name == 'iter':
                    it = IterObj([(p[0], p[1]) for p in m.pairs])
                elif name == 'iter_mut':
                    it = IterObj([(p[0], m.vref(i)) for i, p in enumerate(m.pairs)])
                elif name == 'iter_mut2':
                    it = IterObj([(m.kref(i), m.vref(i)) for i, p in enumerate(m.pairs)])
                else:
                    it = IterObj([(p[0], p[1]) for p in m.pairs])
                    if name == 'drain':
                        m.pairs.clear()
                return it
            if name in ('keys', 'into_keys') and not a:
                return IterObj([p[0] for p in m.pairs])
            if name in ('values', 'into_values') and not a:
                return IterObj([p[1] for p in m.pairs])
            if name == 'values_mut' and not a:
                return IterObj([m.vref(i) for i in range(len(m.pairs))])
            if name in ('first', 'last') and not a:
                return opt(tuple(m.pairs[0 if name == 'first' else -1]) if m.pairs else None)
            if name in ('first_key_value', 'last_key_value') and not a:
                return opt(tuple(m.pairs[0 if name.startswith('first') else -1]) if m.pairs else None)
            if name == 'get_index' and len(a) == 1 and isinstance(a[0], int):
                return opt(tuple(m.pairs[a[0]]) if 0 <= a[0] < len(m.pairs) else None)
            if name == 'pop' and not a:
                return opt(tuple(m.pairs.pop()) if m.pairs else None)
            if name in ('retain', 'retain2') and len(a) == 1:
                keep = []
                for i, p in enumerate(list(m.pairs)):
                    if self.apply(a[0], [p[0], SlotRef(lambda p=p: p[1], lambda v, p=p: p.__setitem__(1, v), 'value')]):
                        keep.append(p)
                m.pairs[:] = keep
                return ()
            if name in ('sort_keys', 'sort_unstable_keys') and not a:
                m.pairs.sort(key=lambda p: keyname(p[0]))
                return ()
            if name in ('sort_by', 'sort_unstable_by') and len(a) == 1:
                m.pairs.sort(key=self._cmp_key(a[0], 4))
                return ()
            if name == 'extend' and len(a) == 1:
                src = a[0]
                xs = src.rest() if isinstance(src, IterObj) else [tuple(p) for p in src.pairs] if isinstance(src, MapObj) else list(src[1]) if isinstance(src, tuple) and len(src) == 2 and src[0] == 'iter' else list(src)
                for kv in xs:
                    kv = deref(kv)
                    m.put(deref(kv[0]), deref(kv[1]))
                return ()
            if name == 'clone' and not a:
                return MapObj([(p[0], p[1]) for p in m.pairs], m.sorted)
            if name in ('as_ref', 'as_mut', 'borrow', 'borrow_mut', 'deref', 'deref_mut') and not a:
                return m
            return NotImplemented
        if isinstance(recv, tuple) and recv[0] == 'ctor' and recv[2] and isinstance(recv[2][0], (OccObj, VacObj)):
            ent = recv[2][0]
            if name in ('or_insert', 'or_insert_with', 'or_default', 'or_insert_with_key'):
                if isinstance(ent, OccObj):
                    return ent.m.vref(ent.idx())
                v = a[0] if name == 'or_insert' else self.apply(a[0], [] if name == 'or_insert_with' else [ent.key]) if a else self._default_of(e.get('t'))
                i, _ = ent.m.put(ent.key, deref(v))
                return ent.m.vref(i)
            if name == 'key' and not a:
                return ent.pair[0] if isinstance(ent, OccObj) else ent.key
            if name == 'and_modify' and len(a) == 1:
                if isinstance(ent, OccObj):
                    self.apply(a[0], [ent.m.vref(ent.idx())])
                return recv
            return NotImplemented
        if isinstance(recv, OccObj):
            o = recv
            if name == 'get' and not a:
                return o.pair[1]
            if name in ('get_mut', 'into_mut') and not a:
                return o.m.vref(o.idx())
            if name == 'key' and not a:
                return o.pair[0]
            if name == 'key_mut' and not a:
                return o.m.kref(o.idx())
            if name == 'index' and not a:
                return o.idx()
            if name == 'insert' and len(a) == 1:
                old = o.pair[1]
                o.pair[1] = a[0]
                return old
            if name in ('remove', 'shift_remove', 'swap_remove', 'remove_entry', 'shift_remove_entry', 'swap_remove_entry') and not a:
                i = o.idx()
                k_, v_ = o.m.pairs[i]
                if name.startswith('swap') or (name in ('remove', 'remove_entry') and not o.m.sorted):
                    last = o.m.pairs.pop()
                    if i < len(o.m.pairs):
                        o.m.pairs[i] = last
                else:
                    del o.m.pairs[i]
                return (k_, v_) if name.endswith('_entry') else v_
            return NotImplemented
        if isinstance(recv, VacObj):
            v = recv
            if name == 'insert' and len(a) == 1:
                i, _ = v.m.put(v.key, a[0])
                return v.m.vref(i)
            if name in ('key', 'into_key') and not a:
                return v.key
            if name == 'index' and not a:
                return len(v.m.pairs)
            return NotImplemented
        if isinstance(recv, VecObj):
            xs = recv.items
            if name in ('get_mut',) and len(a) == 1 and isinstance(a[0], int) and not isinstance(a[0], bool):
                return opt(self._vec_ref(recv, a[0]) if 0 <= a[0] < len(xs) else None)
            if name in ('iter_mut',) and not a:
                return IterObj([self._vec_ref(recv, i) for i in range(len(xs))])
            if name in ('last_mut', 'first_mut') and not a:
                return opt(self._vec_ref(recv, len(xs) - 1 if name == 'last_mut' else 0) if xs else None)
            if name in ('retain', 'retain_mut') and len(a) == 1:
                keep = []
                for i, x in enumerate(list(xs)):
                    cell = [x]
                    if self.apply(a[0], [SlotRef(lambda c=cell: c[0], lambda v, c=cell: c.__setitem__(0, v), f'element {i}')]):
                        keep.append(cell[0])
                xs[:] = keep
                return ()
            if name == 'swap_remove' and len(a) == 1 and isinstance(a[0], int):
                if not 0 <= a[0] < len(xs):
                    raise EvalPanic(f'swap_remove at {a[0]} in a Vec of {len(xs)} (line {e.get("l")})')
                out = xs[a[0]]
                last = xs.pop()
                if a[0] < len(xs):
                    xs[a[0]] = last
                return out
            if name == 'swap' and len(a) == 2 and all(isinstance(x, int) for x in a):
                xs[a[0]], xs[a[1]] = xs[a[1]], xs[a[0]]
                return ()
            if name == 'truncate' and len(a) == 1 and isinstance(a[0], int):
                del xs[a[0]:]
                return ()
            if name == 'drain' and len(a) == 1:
                out = list(xs)
                xs.clear()
                return IterObj(out)
            if name in ('sort_by', 'sort_unstable_by') and len(a) == 1:
                xs.sort(key=self._cmp_key(a[0], 2))
                return ()
            if name in ('sort_by_key', 'sort_unstable_by_key', 'sort_by_cached_key') and len(a) == 1:
                xs.sort(key=lambda x: deref(self.apply(a[0], [x])))          # (Python's sort is stable, like sort_by_key)
                return ()
            if name in ('sort', 'sort_unstable') and not a:
                xs.sort()
                return ()
            return NotImplemented
        return NotImplemented


VEC_PLACE_METHODS = {'get_mut', 'iter_mut', 'last_mut', 'first_mut', 'retain', 'retain_mut', 'swap_remove', 'swap', 'truncate', 'drain', 'sort_by', 'sort_unstable_by', 'sort_by_key',
                     'sort_unstable_by_key', 'sort_by_cached_key', 'sort', 'sort_unstable'}
