"""C20 — visitors reach every node exactly once (decided, structurally, for the default
walkers: type-directed dispatch, one hook call per node, container loops, twin agreement)."""
import re

from .core import run_property, AnalysisIncomplete, walk, peel, last_seg, calls_in, callee_all, strip_generics

PROP = 'C20'


def norm_ty(t):
    t = re.sub(r"'[a-zA-Z_]+ ", '', t or '')
    t = t.replace('&mut ', '&').replace("&'_ ", '&')
    return t.strip()


def hook_calls(body, trait_path):
    """[(hook name, arg node, in_loop, call node)] for calls of trait hooks in a body"""
    out = []

    def rec(n, in_loop):
        if isinstance(n, dict):
            k = n.get('k')
            if k == 'mcall' and (n.get('callee') or '').startswith(trait_path + '::visit_'):
                out.append((n['name'], n['args'][-1] if n.get('args') else None, in_loop, n))
            il = in_loop or k == 'loop'
            # `iter.for_each(|x| v.visit_x(x))` is the loop written as an adaptor: the closure runs once per element
            per_elem_closure = k == 'mcall' and n.get('name') in ('for_each', 'try_for_each')
            for key, v in n.items():
                rec(v, il or (per_elem_closure and key == 'args'))
        elif isinstance(n, list):
            for v in n:
                rec(v, in_loop)
    rec(body['body'], False)
    return out


def variant_of(p):
    for x in walk(p):
        if x.get('k') in ('p_tuplestruct', 'p_struct') and x.get('path'):
            return x['path']
        if x.get('k') == 'p_expr' and x['e'].get('path'):
            return x['e']['path']
    return None


def check_module(rep, facts, mod, trait, sfx):
    M = f'toml_edit::{mod}'
    T = f'{M}::{trait}'
    tr = facts.traits.get(T)
    if tr is None:
        raise AnalysisIncomplete(f'trait {T} not found')
    hooks = {it['name']: it['def'] for it in tr['items'] if it['name'].startswith('visit_')}
    R1 = rep.rule(f'C20/R1', 'every default trait method calls the free function of the same name exactly once and nothing else', floor=28)
    for name, d in sorted(hooks.items()):
        if not facts.has_body(d):
            rep.bad(R1, f'{trait}::{name}', 'trait method has no default body')
            continue
        b = facts.body(d)
        calls = [last_seg(strip_generics(c)) for n in calls_in(b['body']) for c in callee_all(n)[:1] if strip_generics(c).startswith(M + '::visit_')]
        rep.check(R1, f'{trait}::{name}', calls == [name], f'-> {M}::{name}', f'default `{trait}::{name}` calls {calls}, expected exactly [{name}]: the node would be skipped or walked twice', facts.loc(b))
    R2 = rep.rule('C20/R2', 'type-directed dispatch: for every variant of Item / Value with payload type P the default walker calls, on every path '
                  'through that arm, exactly one hook, namely the one whose node parameter is P; Item::None calls none', floor=22)
    from .den import RecInterp, Evaluator, Unanalysable, EvalPanic
    for fn, adt in ((f'visit_item{sfx}', 'toml_edit::item::Item'), (f'visit_value{sfx}', 'toml_edit::value::Value')):
        b = facts.body(f'{M}::{fn}')
        # decided by evaluating the dispatcher on one node of every variant with the hook calls recorded (match, if-let chain, any arm order)
        variants = {v['name']: v for v in facts.adts[adt]['variants']}
        pn = [p_['name'] for p_ in b.get('params', []) if p_.get('k') == 'p_bind']
        table = {}
        try:
            for vname, v in variants.items():
                it = RecInterp(Evaluator(facts), set(hooks))
                node = ('ctor', f'{adt}::{vname}', tuple(('payload', vname, i) for i, _ in enumerate(v['fields']))) if v['fields'] else ('ctor', f'{adt}::{vname}')
                env = {pn[0]: ('opaque',), pn[1]: node, '@assign': {}}
                it.run_body(b, env)
                table[vname] = [(nm, args) for nm, args in it.calls]
        except (Unanalysable, EvalPanic, IndexError, KeyError) as e:
            table = None
            rep.notes.append(f'{mod}::{fn} could not be evaluated ({e}); its match is read structurally.')
        if table is not None:
            for vname, v in variants.items():
                calls = table[vname]
                if not v['fields']:
                    rep.check(R2, f'{mod}::{fn}|{vname}', not calls, 'no hook', f'`{vname}` has no payload but calls {[c[0] for c in calls]}', facts.loc(b))
                    continue
                pty = norm_ty(v['fields'][0]['ty'])
                ok = len(calls) == 1 and list(calls[0][1]) == [('payload', vname, 0)]
                detail = f'{[c[0] for c in calls]}'
                if ok:
                    hk = calls[0][0]
                    hdef = facts.fns.get(hooks.get(hk, ''), {})
                    want = norm_ty((hdef.get('inputs') or ['', ''])[-1]).lstrip('&')
                    ok = want == pty
                    detail = f'{hk}(node: {want}) for payload {pty}'
                rep.check(R2, f'{mod}::{fn}|{vname}', ok, detail, f'`{adt}::{vname}` (payload {pty}) is dispatched to {detail}: nodes of that kind are skipped or visited through the wrong hook', facts.loc(b))
            rep.ok(R2, f'{mod}::{fn}|all-variants', f'{len(variants)} variants evaluated', facts.loc(b))
            continue
        ms = [n for n in walk(b['body']) if n.get('k') == 'match' and n.get('src') == 'Normal']
        if len(ms) != 1:
            rep.incomplete(R2, f'{mod}::{fn}|match', f'{len(ms)} matches')
            continue
        variants = {v['name']: v for v in facts.adts[adt]['variants']}
        seen = set()
        for arm in ms[0]['arms']:
            vp = variant_of(arm['pat'])
            vname = last_seg(vp or '')
            if vname not in variants:
                rep.bad(R2, f'{mod}::{fn}|{vname or "wildcard"}', f'arm pattern `{vp}` is not a single variant of {adt} (a catch-all arm hides variants from the walk)', facts.loc(b))
                continue
            seen.add(vname)
            payload = variants[vname]['fields']
            calls = [(n['name'], n) for n in walk(arm['body']) if n.get('k') == 'mcall' and (n.get('callee') or '').startswith(T + '::visit_')]
            if not payload:
                rep.check(R2, f'{mod}::{fn}|{vname}', not calls, 'no hook', f'`{vname}` has no payload but calls {[c[0] for c in calls]}', facts.loc(b))
                continue
            pty = norm_ty(payload[0]['ty'])
            ok = len(calls) == 1
            detail = f'{[c[0] for c in calls]}'
            if ok:
                hk = calls[0][0]
                hdef = facts.fns.get(hooks.get(hk, ''), {})
                want = norm_ty((hdef.get('inputs') or ['', ''])[-1]).lstrip('&')
                ok = want == pty
                detail = f'{hk}(node: {want}) for payload {pty}'
            rep.check(R2, f'{mod}::{fn}|{vname}', ok, detail, f'`{adt}::{vname}` (payload {pty}) is dispatched to {detail}: nodes of that kind are skipped or visited through the wrong hook', facts.loc(b))
        missing = set(variants) - seen
        rep.check(R2, f'{mod}::{fn}|all-variants', not missing, 'every variant has its own arm', f'variants without an arm of their own: {sorted(missing)}', facts.loc(b))
    R3 = rep.rule('C20/R3', 'container walkers call the child hook exactly once per element of the node\'s own iter()/iter_mut(), with the element '
                  'type equal to the hook\'s node type; forwarders call exactly one hook; leaves call none', floor=24)
    expect = {
        f'visit_document{sfx}': (f'visit_table{sfx}', False), f'visit_table{sfx}': (f'visit_table_like{sfx}', False),
        f'visit_inline_table{sfx}': (f'visit_table_like{sfx}', False), f'visit_table_like{sfx}': (f'visit_table_like_kv{sfx}', True),
        f'visit_table_like_kv{sfx}': (f'visit_item{sfx}', False), f'visit_array{sfx}': (f'visit_value{sfx}', True),
        f'visit_array_of_tables{sfx}': (f'visit_table{sfx}', True),
    }
    unsize_ok = {f'visit_table{sfx}', f'visit_inline_table{sfx}'}
    for name in sorted(hooks):
        d = f'{M}::{name}'
        if not facts.has_body(d):
            rep.incomplete(R3, f'{mod}::{name}', 'free function not found')
            continue
        b = facts.body(d)
        hc = hook_calls(b, T)
        if name in (f'visit_item{sfx}', f'visit_value{sfx}'):
            continue
        if name not in expect:
            rep.check(R3, f'{mod}::{name}|leaf', not hc, 'leaf: no hook', f'leaf walker `{name}` calls {[h[0] for h in hc]}', facts.loc(b))
            continue
        want, looped = expect[name]
        ok = len(hc) == 1 and hc[0][2] == looped
        rep.check(R3, f'{mod}::{name}|one-hook', ok, f'{"per element: " if looped else ""}{[h[0] for h in hc]}',
                  f'`{name}` calls hooks {[(h[0], "in loop" if h[2] else "once") for h in hc]}, expected exactly one call {"per element" if looped else ""}', facts.loc(b))
        if not hc:
            continue
        hk, arg, in_loop, call = hc[0]
        hdef = facts.fns.get(hooks.get(hk, ''), {})
        pty = norm_ty((hdef.get('inputs') or ['', ''])[-1])
        aty = norm_ty((arg or {}).get('t'))
        same = aty == pty or aty.lstrip('&') == pty.lstrip('&')
        unsized = 'dyn ' in pty and 'dyn ' not in aty
        typed_ok = same or (unsized and name in unsize_ok)
        rep.check(R3, f'{mod}::{name}|hook-type', typed_ok and hk == want, f'{hk}({pty}) <- {aty}',
                  f'`{name}` hands a `{aty}` to `{hk}` (node type `{pty}`): the hook for that node type ({want}) is bypassed, so overriding it no longer sees these nodes', facts.loc(b))
        if looped:
            its = [n for n in walk(b['body']) if n.get('k') == 'mcall' and n.get('name') in ('iter', 'iter_mut', f'iter{sfx}') and peel(n['recv']).get('res') == 'Local']
            rep.check(R3, f'{mod}::{name}|own-iterator', len(its) == 1 and its[0]['name'] == ('iter_mut' if sfx else 'iter'), f'node.{"iter_mut" if sfx else "iter"}()',
                      f'`{name}` does not loop over the node\'s own {"iter_mut" if sfx else "iter"}() (found {[i["name"] for i in its]})', facts.loc(b))
    # call-graph summary for the twin comparison
    summary = {}
    for name in hooks:
        d = f'{M}::{name}'
        if facts.has_body(d):
            summary[name.replace('_mut', '')] = sorted((h[0].replace('_mut', ''), h[2]) for h in hook_calls(facts.body(d), T))
    return summary


def r6_overrides_recurse(rep, facts):
    R = rep.rule('C20/R6', 'the visitors of the workspace itself (toml_edit::ser::pretty::Pretty, toml::fmt::DocumentFormatter, ..) keep the walk going: every overridden hook calls '
                 'the default walker of the same name exactly once whatever the node looks like (0..3 children, every setting of the visitor\'s own flags); a hook that returns '
                 'early for some nodes leaves everything below them unvisited', floor=6)
    from .den import RecInterp, Evaluator, Unanalysable, EvalPanic
    import itertools
    n = 0
    for imp in facts.impls:
        tr = imp.get('trait') or ''
        if not (tr.endswith('visit_mut::VisitMut') or tr.endswith('visit::Visit')):
            continue
        ty = imp.get('self_ty') or '?'
        adt = facts.adts.get(ty) or {}
        # the visitor's own state: boolean fields, and fields of a workspace enum of unit variants (a two-valued `Nesting { Block, Inline }` is a flag as well)
        flags, domains = [], []
        for v in adt.get('variants', []):
            for f in v.get('fields', []):
                if f.get('ty') == 'bool':
                    flags.append(f['name'])
                    domains.append((False, True))
                else:
                    en = facts.adts.get((f.get('ty') or '').split('<')[0]) or {}
                    if en.get('kind') == 'enum' and en.get('variants') and all(not vv.get('fields') for vv in en['variants']):
                        flags.append(f['name'])
                        domains.append(tuple(('ctor', (f.get('ty') or '').split('<')[0] + '::' + vv['name']) for vv in en['variants']))
        for it_ in imp['items']:
            d, name = it_['def'], it_['name']
            if not name.startswith('visit_') or not facts.has_body(d):
                continue
            b = facts.body(d)
            pn = [p_['name'] for p_ in b.get('params', []) if p_.get('k') == 'p_bind']
            if len(pn) != 2:
                continue
            bad = []
            try:
                for n_el in (0, 1, 2, 3):
                    for vals in itertools.product(*domains):
                        it = RecInterp(Evaluator(facts), {'clear', 'set_implicit', 'set_trailing', 'set_trailing_comma', 'set_prefix', 'set_suffix', 'set_dotted', 'fmt', 'make_item', 'make_value'},
                                       {name, 'take', 'replace'},
                                       stubs={'len': n_el, 'is_empty': n_el == 0, 'decor_mut': ('opaque',), 'iter_mut': tuple(('item', i) for i in range(n_el)),
                                              'get_values': tuple((('k', i), ('v', i)) for i in range(n_el)), 'is_value': True, 'is_table': False, 'is_none': False,
                                              'into_table': ('ctor', 'core::result::Result::Err', (('struct', 'node', {}),)),
                                              'into_array_of_tables': ('ctor', 'core::result::Result::Err', (('struct', 'node', {}),))})
                        env = {pn[0]: ('struct', ty, dict(zip(flags, vals))), pn[1]: ('struct', 'node', {}), '@assign': {}}
                        try:
                            it.run_body(b, env)
                        except EvalPanic:
                            pass
                        k = sum(1 for nm, _ in it.calls if nm == name)
                        if k != 1:
                            bad.append(f'{k} time(s) for a node with {n_el} children and flags {dict(zip(flags, vals))}')
            except Unanalysable as e:
                rep.incomplete(R, f'{last_seg(ty)}::{name}', f'cannot evaluate `{d}`: {e}', facts.loc(b))
                continue
            n += 1
            rep.check(R, f'{last_seg(ty)}::{name}', not bad, f'calls the default {name} once for every node shape and flag setting',
                      f'`{last_seg(ty)}::{name}` calls the default walker {bad[0]}: the nodes below are skipped (or walked twice)' if bad else '', facts.loc(b))
    rep.check(R, 'count', n >= 5, f'{n} overridden hooks evaluated', f'only {n} overridden visitor hooks found in the workspace')


def r8_walk_model(rep, facts):
    R = rep.rule('C20/R8', 'the default walkers reach every node of a model document exactly once and in document order: visit_document / visit_document_mut evaluated with a recording '
                 'visitor on a document holding scalars of every kind, an array, an inline table, a dotted-key table, a [table], an array of tables with two elements and a placeholder — '
                 'every node is handed to the hook of its own kind once, the placeholder to none', floor=2)
    from .den import Evaluator, Unanalysable, EvalPanic, VecObj
    from .places import PlaceInterp, MapObj, deref, plain
    I, V = 'toml_edit::item::Item::', 'toml_edit::value::Value::'
    NONE_ = ('ctor', 'core::option::Option::None')
    dec = lambda: ('struct', 'toml_edit::repr::Decor', {'prefix': NONE_, 'suffix': NONE_})
    key = lambda n: ('struct', 'toml_edit::key::Key', {'key': n, 'repr': NONE_, 'leaf_decor': dec(), 'dotted_decor': dec()})
    fmt = lambda tag: ('struct', 'toml_edit::repr::Formatted', {'value': ('elem', tag), 'repr': NONE_, 'decor': dec(), 'node': tag})
    scal = lambda kind, tag: ('ctor', V + kind, (fmt(tag),))

    def table(tag, pairs, dotted=False):
        return ('struct', 'toml_edit::table::Table', {'items': MapObj([(key(k), x) for k, x in pairs]), 'decor': dec(), 'implicit': False, 'dotted': dotted, 'doc_position': NONE_, 'span': NONE_, 'node': tag})

    def inline(tag, pairs):
        return ('struct', 'toml_edit::inline_table::InlineTable', {'items': MapObj([(key(k), ('ctor', I + 'Value', (x,))) for k, x in pairs]), 'decor': dec(), 'implicit': False, 'dotted': False,
                                                                     'preamble': ('opaque',), 'span': NONE_, 'node': tag})

    def array(tag, vals):
        return ('struct', 'toml_edit::array::Array', {'values': VecObj([('ctor', I + 'Value', (x,)) for x in vals]), 'trailing': ('opaque',), 'trailing_comma': False, 'decor': dec(), 'span': NONE_, 'node': tag})
    val = lambda x: ('ctor', I + 'Value', (x,))

    def document():
        root = table('root', [
            ('s', val(scal('String', 's'))), ('i', val(scal('Integer', 'i'))), ('f', val(scal('Float', 'f'))), ('b', val(scal('Boolean', 'b'))), ('d', val(scal('Datetime', 'd'))),
            ('ghost', ('ctor', I + 'None')),
            ('arr', val(('ctor', V + 'Array', (array('arr', [scal('Integer', 'arr.0'), ('ctor', V + 'InlineTable', (inline('arr.1', [('x', scal('Integer', 'arr.1.x'))]),))]),)))),
            ('it', val(('ctor', V + 'InlineTable', (inline('it', [('y', scal('String', 'it.y'))]),)))),
            ('dot', ('ctor', I + 'Table', (table('dot', [('z', val(scal('Integer', 'dot.z')))], dotted=True),))),
            ('t', ('ctor', I + 'Table', (table('t', [('u', val(scal('Boolean', 't.u'))), ('sub', ('ctor', I + 'Table', (table('t.sub', []),)))]),))),
            ('aot', ('ctor', I + 'ArrayOfTables', (('struct', 'toml_edit::array_of_tables::ArrayOfTables', {'values': VecObj([('ctor', I + 'Table', (table('aot.0', [('k', val(scal('Integer', 'aot.0.k')))]),)),
                                                                                                                               ('ctor', I + 'Table', (table('aot.1', []),))]), 'span': NONE_, 'node': 'aot'}),))),
        ])
        return ('struct', 'toml_edit::document::DocumentMut', {'root': ('ctor', I + 'Table', (root,)), 'trailing': ('opaque',)})
    want = {'visit_table': ['root', 't', 't.sub', 'aot.0', 'aot.1', 'dot'], 'visit_inline_table': ['arr.1', 'it'], 'visit_array': ['arr'], 'visit_array_of_tables': ['aot'],
            'visit_string': ['s', 'it.y'], 'visit_integer': ['i', 'arr.0', 'arr.1.x', 'dot.z', 'aot.0.k'], 'visit_float': ['f'], 'visit_boolean': ['b', 't.u'], 'visit_datetime': ['d']}

    class Walk(PlaceInterp):
        MAX_DEPTH = 80

        def __init__(self, ev, module, suffix):
            super().__init__(ev)
            self.module, self.suffix, self.seen = module, suffix, []

        def node_tag(self, v):
            v = deref(v)
            while isinstance(v, tuple) and len(v) == 3 and v[0] == 'ctor' and v[2]:
                v = deref(v[2][0])
            return v[2].get('node') if isinstance(v, tuple) and len(v) == 3 and v[0] == 'struct' and isinstance(v[2], dict) else None

        def hook(self, name, recv, args):
            base = name[:-len(self.suffix)] if self.suffix and name.endswith(self.suffix) else name
            self.seen.append((base, self.node_tag(args[-1])))
            # the recording visitor overrides nothing: a hook is the trait's default method (which hands over to the free walker of the same name)
            trait = 'VisitMut' if self.module == 'visit_mut' else 'Visit'
            d = f'toml_edit::{self.module}::{trait}::{name}'
            if not self.ev.facts.has_body(d):
                d = f'toml_edit::{self.module}::{name}'
            if not self.ev.facts.has_body(d):
                raise Unanalysable(f'default walker `{d}` not found')
            return self.apply_fn(self.ev.facts.body(d), [recv] + args)

        def val(self, e, env):
            if e.get('k') == 'call':
                f_ = peel(e.get('f', {}))
                pth = strip_generics(f_.get('path') or '') if f_.get('k') == 'path' else ''
                if pth.startswith(('toml_edit::visit::Visit::visit_', 'toml_edit::visit_mut::VisitMut::visit_')) and len(e.get('args', [])) >= 2:
                    args = [self.val(a, env) for a in e['args']]
                    if deref(args[0]) == ('walker',):
                        return self.hook(last_seg(pth), deref(args[0]), args[1:])          # `V::visit_table(v, child)`
            if e.get('k') == 'path' and e.get('res') in ('AssocFn', 'Fn'):
                pth = strip_generics(e.get('path') or '')
                if pth.startswith(('toml_edit::visit::Visit::visit_', 'toml_edit::visit_mut::VisitMut::visit_')):
                    # a hook handed on by name (`walk_children(v, iter, V::visit_value)`): calling it is calling the hook
                    nm = last_seg(pth)
                    return ('pyfn', lambda v_, *a_: self.hook(nm, deref(v_), list(a_)))
            return super().val(e, env)

        def _mcall(self, e, env):
            name = e.get('name') or ''
            if name.startswith('visit_'):
                recv = deref(self.val(e['recv'], env))
                if recv == ('walker',):
                    args = [self.val(a, env) for a in e.get('args', [])]
                    return self.hook(name, recv, args)
            if self._workspace_method(e) is None and name in ('iter', 'iter_mut', 'is_empty', 'len'):
                # a call through `dyn TableLike`: the impl of the node's own type
                recv = self.val(e['recv'], env)
                t = self.type_of(recv)
                for imp in self.ev.facts.impls:
                    if (imp.get('trait') or '').endswith('TableLike') and (imp.get('self_ty') or '').split('<')[0] == t:
                        for it_ in imp['items']:
                            if it_['name'] == name and self.ev.facts.has_body(it_['def']):
                                return self.apply_fn(self.ev.facts.body(it_['def']), [recv] + [self.val(a, env) for a in e.get('args', [])])
            return super()._mcall(e, env)
    for module, suffix, entry in (('visit', '', 'visit_document'), ('visit_mut', '_mut', 'visit_document_mut')):
        d = f'toml_edit::{module}::{entry}'
        if not facts.has_body(d):
            rep.incomplete(R, module, f'`{d}` not found')
            continue
        b = facts.body(d)
        w = Walk(Evaluator(facts), module, suffix)
        try:
            w.apply_fn(b, [('walker',), document()])
        except EvalPanic as ex:
            rep.bad(R, module, f'walking the model document with `{entry}` panics: {ex}', facts.loc(b))
            continue
        except (Unanalysable, TypeError, KeyError, IndexError, AttributeError) as ex:
            rep.incomplete(R, module, f'cannot evaluate `{entry}` on the model document: {type(ex).__name__}: {ex}', facts.loc(b))
            continue
        got = {}
        for hook, tag in w.seen:
            if hook in want:
                got.setdefault(hook, []).append(tag)
        diffs = [f'{hook}: visited {got.get(hook, [])}, the document holds {nodes}' for hook, nodes in want.items() if sorted(map(str, got.get(hook, []))) != sorted(nodes)]
        n_entries = 16          # key/value entries of the model document (placeholder excluded)
        for hook in ('visit_item', 'visit_table_like_kv'):
            k = sum(1 for h, _ in w.seen if h == hook)
            if k != n_entries:
                diffs.append(f'{hook}: called {k} times, the document has {n_entries} key/value entries')
        # the hooks in between are called as well (a walker that goes straight to the free function of the next level skips the hook an implementor may have overridden)
        for hook, n_ in (('visit_value', 14), ('visit_table_like', 8)):
            k = sum(1 for h, _ in w.seen if h == hook)
            if k != n_:
                diffs.append(f'{hook}: called {k} times, the document has {n_} such nodes')
        order_ok = [t for h, t in w.seen if h in ('visit_string', 'visit_integer', 'visit_float', 'visit_boolean', 'visit_datetime')] == ['s', 'i', 'f', 'b', 'd', 'arr.0', 'arr.1.x', 'it.y', 'dot.z', 't.u', 'aot.0.k']
        rep.check(R, module, not diffs and order_ok, f'{len(w.seen)} hook calls, every node once, scalars in document order',
                  f'the default walk of `{entry}` over the model document: ' + ('; '.join(diffs[:3]) if diffs else 'the scalars are not reached in document order') +
                  ' — a node is skipped, visited twice, or handed to the hook of another kind', facts.loc(b))


def rules(rep, facts):
    if 'toml_edit' not in facts.crates:
        return
    s1 = check_module(rep, facts, 'visit', 'Visit', '')
    s2 = check_module(rep, facts, 'visit_mut', 'VisitMut', '_mut')
    R4 = rep.rule('C20/R4', 'the read-only and the mutable walker have the same call structure modulo `_mut`', floor=14)
    for k in sorted(set(s1) | set(s2)):
        rep.check(R4, k, s1.get(k) == s2.get(k), f'{s1.get(k)}', f'`{k}`: visit calls {s1.get(k)}, visit_mut calls {s2.get(k)}')
    # the iterators the walk relies on yield exactly the non-placeholder entries
    from .rules_c16 import r2_placeholders
    r2_placeholders(rep, facts, rid='C20/R5', rid3='C20/R5b')
    from .rules_c16 import r2c_iteration_tables
    r2c_iteration_tables(rep, facts, rid='C20/R5c')
    r8_walk_model(rep, facts)
    # R1-R4 read the hook calls of every default walker off its body; R8 runs both walks over a model document and checks that every node reaches the hook of its
    # kind exactly once, in order.  Where R8 holds for both walkers, a walker whose loop moved into a shared helper (and whose body therefore shows no hook call) is not
    # a finding.
    r8 = rep.rules.get('C20/R8', {}).get('obligations', [])
    if len(r8) >= 2 and all(o['ok'] for o in r8) and not any(v['rule'] == 'C20/R8' for v in rep.violations):
        moot = [v for v in rep.violations if v['rule'] in ('C20/R1', 'C20/R2', 'C20/R3', 'C20/R4')]
        if moot:
            rep.violations[:] = [v for v in rep.violations if v not in moot]
            for rid in ('C20/R1', 'C20/R2', 'C20/R3', 'C20/R4'):
                if rid in rep.rules:
                    rep.rules[rid]['obligations'] = [o for o in rep.rules[rid]['obligations'] if o['ok']]
                    rep.rules[rid]['floor'] = None
            rep.notes.append(f'C20/R1-R4 read the hook calls off the bodies of the default walkers and do not recognise {len(moot)} of them in this tree ({moot[0]["detail"][:140]}); both walks '
                             f'over the model document reach every node once and in order (C20/R8).')
    feats = set(facts.crates.get('toml_edit', {}).get('features', []))
    if 'serde' in feats:
        r6_overrides_recurse(rep, facts)
        from .rules_c07 import r3_promotion
        r3_promotion(rep, facts)
        rep.relabel('C07/R3', 'C20/R7', 'a visitor that rewrites nodes on the way leaves alone what it must not touch (values inside values) and restores its own state for the siblings: ')
    rep.assumptions.append('iter()/iter_mut() of Table, InlineTable (TableLike), Array and ArrayOfTables yield every non-placeholder entry in order (C20/R5, R5c decide what they yield on storages with placeholders; Vec / IndexMap iteration order is trusted)')


def run(tier):
    return run_property(PROP, tier, rules, configs_thorough=['default', 'perf', 'edit_nodefault', 'edit_parse'])
